// C15 - Subprocess I/O (run_process, Subprocess::communicate) is complete and deadlock-free for any
// payload and child timing; children are reaped; run_process leaves no descriptor behind.
//
// The child is this binary re-executed as `<exe> --child <script> <side-file>` (see c15/child.hh).
// Every case runs in a forked worker (own process group) under a progress-based watchdog: the monitor
// declares a deadlock only when the I/O counters (/proc/<pid>/io rchar+wchar) of worker and child have not
// moved for 10 s plus the sleeps the case itself asks for.
//
// Link with -Wl,--wrap=fork,--wrap=waitpid,--wrap=poll,--wrap=read,--wrap=write,--wrap=kill: parent-side delay
// plans, and the bookkeeping for calls made under periodic signals (see "ambient periodic signals" below).
#include <poll.h>
#include <sys/mman.h>
#include <sys/time.h>
#include <sys/prctl.h>
#include <sys/wait.h>

#include <sanitizer/common_interface_defs.h>
#include <sanitizer/lsan_interface.h>

#include <phosg/Filesystem.hh>
#include <phosg/Process.hh>

#include "c15/child.hh"
#include "verif.hh"

using namespace verif;
using namespace c15;

extern "C" {
pid_t __real_fork(void);
pid_t __real_waitpid(pid_t pid, int* status, int options);
int __real_poll(struct pollfd* fds, nfds_t nfds, int timeout);
ssize_t __real_read(int fd, void* buf, size_t n);
ssize_t __real_write(int fd, const void* buf, size_t n);
int __real_kill(pid_t pid, int sig);
}

// ---------------------------------------------------------------- shared state, delay plan, interposed calls

struct Shared {
  volatile int child_pid; // last pid returned by fork() in the worker
  volatile int forks;
};
static Shared* g_shared = nullptr;

enum DelayKind : uint64_t { D_WAITPID = 0,
  D_POLL = 1,
  D_READ = 2,
  D_WRITE = 3 };
enum DelayAction : uint64_t { ACT_SLEEP = 0, // arg = microseconds
  ACT_WAIT_CHILD_EXIT = 1, // until the child is a zombie (bounded)
  ACT_WAIT_CHILD_STDIN_CLOSED = 2 }; // until the child has closed its descriptor 0 (bounded)
static constexpr uint64_t kSyncBoundUs = 5000000;

struct DelayEntry {
  uint64_t kind, index, action, arg;
};
struct DelayPlan {
  bool armed = false;
  std::vector<DelayEntry> entries;
  uint64_t count[4] = {0, 0, 0, 0};
};
static DelayPlan g_delay;

static uint64_t mono_us() {
  struct timespec ts;
  clock_gettime(CLOCK_MONOTONIC, &ts);
  return static_cast<uint64_t>(ts.tv_sec) * 1000000 + ts.tv_nsec / 1000;
}

static char proc_state(pid_t pid) {
  char path[64], buf[512];
  snprintf(path, sizeof(path), "/proc/%d/stat", pid);
  int fd = ::open(path, O_RDONLY);
  if (fd < 0) return 0;
  ssize_t r = __real_read(fd, buf, sizeof(buf) - 1);
  ::close(fd);
  if (r <= 0) return 0;
  buf[r] = 0;
  char* p = strrchr(buf, ')');
  return (p && p[1] == ' ') ? p[2] : 0;
}

static void perform_delay(const DelayEntry& d) {
  uint64_t t0 = mono_us();
  if (d.action == ACT_SLEEP) {
    // a periodic signal cuts usleep short: sleep the rest
    for (uint64_t t = t0; t - t0 < d.arg; t = mono_us()) usleep(d.arg - (t - t0));
    return;
  }
  while (mono_us() - t0 < kSyncBoundUs) {
    pid_t pid = g_shared ? g_shared->child_pid : 0;
    if (pid <= 0) return;
    char st = proc_state(pid);
    if (st == 0 || st == 'Z' || st == 'X') return; // gone or zombie
    if (d.action == ACT_WAIT_CHILD_STDIN_CLOSED) {
      char path[64], tgt[256];
      snprintf(path, sizeof(path), "/proc/%d/fd/0", pid);
      ssize_t l = ::readlink(path, tgt, sizeof(tgt));
      if (l < 0 && errno == ENOENT) {
        // descriptor 0 is absent - but only trust it once the child has exec'd (its fd directory is readable)
        snprintf(path, sizeof(path), "/proc/%d/fd/1", pid);
        if (::readlink(path, tgt, sizeof(tgt)) >= 0) return;
      }
    }
    usleep(300);
  }
}

static inline void delay_hook(uint64_t kind) {
  if (!g_delay.armed) return;
  uint64_t k = g_delay.count[kind]++;
  for (const auto& d : g_delay.entries)
    if (d.kind == kind && d.index == k) {
      g_delay.armed = false; // the hook's own syscalls must not recurse
      perform_delay(d);
      g_delay.armed = true;
    }
}

// ---- ambient periodic signals: the calling process receives SIGALRM every `period_us` (ITIMER_REAL, a handler that
// does nothing, installed WITHOUT SA_RESTART, so a blocking poll/waitpid/read really fails with EINTR) from the moment
// the child has been forked until the call under test has returned. Interval timers are not inherited through fork
// and exec resets the handler, so the child never sees a tick; arming after fork() also keeps a slow fork (which the
// kernel restarts from scratch whenever a signal arrives) out of the picture.
//
// The "a timeout ends the child" clause under signals is decided without a wall clock: `eintr_polls` counts the
// parent's poll() calls that a tick interrupted. The k-th tick cannot come earlier than k periods after arming, so
// eintr_polls * period is a LOWER bound of the time that has passed since the child was started, and each of those
// returns was an opportunity for the caller to look at its clock. A caller that has not signalled the child although
// eintr_polls * period exceeds timeout + kTimeoutGraceUs has missed its timeout by more than the grace - however
// loaded the machine is, because a starved parent handles fewer ticks, not more. At that point the ticks stop (the
// stream is finite), so that a caller which only works while nobody interrupts it still returns and gets its verdict
// from the oracle instead of from the deadlock watchdog.
static constexpr uint64_t kTimeoutGraceUs = 2000000; // run_process documents a 1 s poll granularity; twice that
struct TickState {
  uint64_t period_us = 0; // 0: this case runs without signals
  uint64_t timeout_us = 0; // the timeout handed to the call under test (0: none)
  bool in_call = false;
  bool timer_running = false;
  uint64_t eintr_polls = 0; // poll() calls of the caller that failed with EINTR
  uint64_t kills = 0; // signals the caller has sent to its child
  uint64_t eintr_polls_at_first_kill = 0;
  int first_kill_signal = 0;
  bool gave_up = false; // the ticks were stopped because the caller had overrun timeout + grace without a kill
};
static TickState g_tick;
static volatile sig_atomic_t g_ticks_handled = 0;
static void on_tick(int) { g_ticks_handled = g_ticks_handled + 1; }

static void tick_timer(uint64_t period_us) {
  struct itimerval it;
  it.it_interval.tv_sec = it.it_value.tv_sec = period_us / 1000000;
  it.it_interval.tv_usec = it.it_value.tv_usec = period_us % 1000000;
  setitimer(ITIMER_REAL, &it, nullptr);
  g_tick.timer_running = period_us != 0;
}
// before the call under test: install the handler; the timer itself starts in the parent branch of fork()
static void tick_begin(uint64_t period_us, uint64_t timeout_us) {
  g_tick = TickState();
  g_tick.period_us = period_us;
  g_tick.timeout_us = timeout_us;
  g_tick.in_call = true;
  if (!period_us) return;
  struct sigaction sa;
  memset(&sa, 0, sizeof(sa));
  sa.sa_handler = on_tick;
  sigemptyset(&sa.sa_mask);
  sa.sa_flags = 0; // no SA_RESTART
  sigaction(SIGALRM, &sa, nullptr);
}
// after the call under test: stop the timer, drop a tick that may still be pending, restore the default disposition
static void tick_end() {
  g_tick.in_call = false;
  if (!g_tick.period_us) return;
  tick_timer(0);
  signal(SIGALRM, SIG_IGN); // discards a pending SIGALRM
  signal(SIGALRM, SIG_DFL);
}

extern "C" pid_t __wrap_fork(void) {
  pid_t p = __real_fork();
  if (p > 0 && g_shared && g_delay.armed) {
    g_shared->child_pid = p;
    g_shared->forks = g_shared->forks + 1;
    if (g_tick.in_call && g_tick.period_us) tick_timer(g_tick.period_us);
  }
  return p;
}
extern "C" int __wrap_kill(pid_t pid, int sig) {
  if (g_tick.in_call && sig != 0 && g_shared && pid > 0 && pid == g_shared->child_pid) {
    if (g_tick.kills == 0) {
      g_tick.eintr_polls_at_first_kill = g_tick.eintr_polls;
      g_tick.first_kill_signal = sig;
    }
    g_tick.kills++;
  }
  return __real_kill(pid, sig);
}
extern "C" pid_t __wrap_waitpid(pid_t pid, int* status, int options) {
  delay_hook(D_WAITPID);
  return __real_waitpid(pid, status, options);
}
extern "C" int __wrap_poll(struct pollfd* fds, nfds_t nfds, int timeout) {
  delay_hook(D_POLL);
  int r = __real_poll(fds, nfds, timeout);
  if (r < 0 && errno == EINTR && g_tick.in_call && g_tick.timer_running) {
    g_tick.eintr_polls++;
    if (g_tick.timeout_us && g_tick.kills == 0 && g_tick.eintr_polls * g_tick.period_us > g_tick.timeout_us + kTimeoutGraceUs + g_tick.period_us) {
      g_tick.gave_up = true;
      tick_timer(0);
    }
    errno = EINTR;
  }
  return r;
}
extern "C" ssize_t __wrap_read(int fd, void* buf, size_t n) {
  delay_hook(D_READ);
  return __real_read(fd, buf, n);
}
extern "C" ssize_t __wrap_write(int fd, const void* buf, size_t n) {
  delay_hook(D_WRITE);
  return __real_write(fd, buf, n);
}

// ---------------------------------------------------------------- the model of a script

enum Flags : uint64_t { FL_CHECK = 1, // run_process(check = true)
  FL_NO_STDIN = 2, // run_process(stdin_data = nullptr)
  FL_STDERR_FILE = 4 }; // communicate: the child's stderr goes to a file instead of an unread pipe
// bits 8..11 of the flags: extra identical run_process calls; bits 16..23: period in ms of the ambient SIGALRM stream (0 = none);
// bits 24..26: which of its own descriptors 0 / 1 / 2 the caller has closed
static inline uint64_t tick_period_us(uint64_t flags) { return ((flags >> 16) & 0xFF) * 1000; }
static inline uint64_t tick_flag(uint64_t ms) { return (ms & 0xFF) << 16; }
// bits 24..26: the caller's own descriptors 0 / 1 / 2 that are CLOSED while it makes the call (a daemon after close(0), `prog <&-`, `prog >&-`).
// Which of its standard descriptors the calling process has open is ambient state: the property holds for a caller in any of those
// states, and the pipes the call creates then land on the numbers 0..2.
static inline uint64_t closed_fds_mask(uint64_t flags) { return (flags >> 24) & 7; }
static inline uint64_t closed_fds_flag(uint64_t mask) { return (mask & 7) << 24; }

// Closes the descriptors named by mask (bit k = descriptor k) for the lifetime of the object; the originals are parked on high
// close-on-exec numbers and put back afterwards. Sanitizer reports are redirected to the parked stderr meanwhile.
struct ClosedStdFds {
  int saved[3] = {-1, -1, -1};
  bool active = false;
  explicit ClosedStdFds(uint64_t mask) {
    if (!(mask & 7)) return;
    active = true;
    for (int fd = 0; fd < 3; fd++) {
      if (!((mask >> fd) & 1)) continue;
      saved[fd] = fcntl(fd, F_DUPFD_CLOEXEC, 200);
      if (saved[fd] < 0) {
        int e = errno;
        restore();
        throw std::logic_error(cat("harness: cannot park descriptor ", fd, ": ", strerror(e)));
      }
      if (fd == 2) __sanitizer_set_report_fd(reinterpret_cast<void*>(static_cast<intptr_t>(saved[2])));
      ::close(fd);
    }
  }
  void restore() {
    if (!active) return;
    active = false;
    for (int fd = 0; fd < 3; fd++) {
      if (saved[fd] < 0) continue;
      dup2(saved[fd], fd);
      if (fd == 2) __sanitizer_set_report_fd(reinterpret_cast<void*>(static_cast<intptr_t>(2)));
      ::close(saved[fd]);
      saved[fd] = -1;
    }
  }
  ~ClosedStdFds() { restore(); }
  ClosedStdFds(const ClosedStdFds&) = delete;
  ClosedStdFds& operator=(const ClosedStdFds&) = delete;
};

struct Model {
  std::string out, err;
  uint64_t out_size = 0, err_size = 0; // volumes (filled even when the bytes themselves are not wanted)
  uint64_t consumed = 0; // bytes of the payload the child reads
  int status = 0; // expected wait status
  bool never_exits = false;
  bool ignores_term = false;
  bool closes_stdin_early = false;
  uint64_t closed_streams = 0; // bit per descriptor 0..2 the child closes itself (before it exits / pauses)
  uint64_t descendant_holds = 0; // descriptors (bit per fd 0..2) a background descendant keeps open after the child has exited
  uint64_t sleep_us = 0; // sleeping the script asks for
  bool sleep_after_last_write = false;
};

static Model build_model(const std::vector<Op>& ops, const std::string& payload, bool want_bytes = true) {
  Model m;
  bool closed[3] = {false, false, false};
  uint64_t off[3] = {0, 0, 0};
  bool text = false;
  for (const Op& op : ops) {
    switch (op.code) {
      case 'T': text = true; break;
      case 'R':
      case 'Q':
        if (!closed[0]) m.consumed = std::min<uint64_t>(payload.size(), m.consumed + op.a[0]);
        if (op.code == 'Q' && op.a[2]) m.sleep_us += op.a[2] * (op.a[1] ? op.a[0] / op.a[1] + 1 : 1);
        break;
      case 'E':
        if (!closed[0]) m.consumed = payload.size();
        break;
      case 'P':
        if (!closed[0]) {
          if (!closed[1] && want_bytes) m.out.append(payload, m.consumed, std::string::npos);
          m.consumed = payload.size();
          m.sleep_after_last_write = false;
        }
        break;
      case 'W': {
        int fd = op.a[0] == 2 ? 2 : 1;
        if (op.a[1] > (64u << 20)) throw std::logic_error("script: output too large");
        if (!closed[fd] && want_bytes) {
          std::string& dst = fd == 1 ? m.out : m.err;
          size_t at = dst.size();
          dst.resize(at + op.a[1]);
          fill_pattern(dst.data() + at, fd, off[fd], op.a[1], text);
          off[fd] += op.a[1];
        }
        if (!closed[fd]) {
          m.sleep_after_last_write = false;
          (fd == 1 ? m.out_size : m.err_size) += op.a[1];
        }
        if (op.a[3] && op.a[2]) m.sleep_us += op.a[3] * (op.a[1] / op.a[2] + 1);
        break;
      }
      case 'S':
        m.sleep_us += op.a[0] * 1000;
        m.sleep_after_last_write = true;
        break;
      case 'C':
        if (op.a[0] < 3) {
          closed[op.a[0]] = true;
          m.closed_streams |= 1u << op.a[0];
        }
        if (op.a[0] == 0 && m.consumed < payload.size()) m.closes_stdin_early = true;
        break;
      case 'X': m.status = static_cast<int>(op.a[0] & 0xFF) << 8; return m;
      case 'K': m.status = static_cast<int>(op.a[0]); return m;
      case 'I':
        if (op.a[0] == SIGTERM) m.ignores_term = true;
        break;
      case 'Z': m.never_exits = true; return m;
      case 'G': // the descendant writes nothing: the child's own bytes and status are what the call owes
        for (int fd = 0; fd < 3; fd++)
          if (((op.a[0] >> fd) & 1) && !closed[fd]) m.descendant_holds |= 1u << fd;
        break;
      default: throw std::logic_error("script: unknown op");
    }
  }
  return m;
}

// ---------------------------------------------------------------- helpers

static std::set<int> open_fds() {
  std::set<int> r;
  DIR* d = opendir("/proc/self/fd");
  if (!d) return r;
  int dfd = dirfd(d);
  while (struct dirent* e = readdir(d)) {
    if (e->d_name[0] == '.') continue;
    int fd = atoi(e->d_name);
    if (fd != dfd) r.insert(fd);
  }
  closedir(d);
  return r;
}

static std::string describe_fd(int fd) {
  char path[64], tgt[256];
  snprintf(path, sizeof(path), "/proc/self/fd/%d", fd);
  ssize_t l = ::readlink(path, tgt, sizeof(tgt));
  return cat(fd, "->", l > 0 ? std::string(tgt, l) : std::string("?"));
}

static const std::string& self_exe() {
  static std::string p = [] {
    char buf[4096];
    ssize_t l = ::readlink("/proc/self/exe", buf, sizeof(buf));
    if (l <= 0) throw std::logic_error("harness: cannot resolve /proc/self/exe");
    return std::string(buf, l);
  }();
  return p;
}

static std::string diff_desc(const std::string& got, const std::string& want) {
  size_t i = 0;
  while (i < got.size() && i < want.size() && got[i] == want[i]) i++;
  return cat("got ", got.size(), " bytes, expected ", want.size(), ", first difference at offset ", i);
}

struct CaseSpec {
  uint64_t api, payload_size, payload_seed, flags, timeout_us, behaviour;
  std::vector<DelayEntry> plan;
  std::string script;
};

static CaseSpec decode(const Case& c) {
  CaseSpec s;
  s.api = c.u(0);
  s.payload_size = c.u(1);
  s.payload_seed = c.u(2);
  s.flags = c.u(3);
  s.timeout_us = c.u(4);
  s.behaviour = c.u(5);
  s.script = c.str(0);
  if (s.payload_size > (16u << 20)) throw std::logic_error("case: payload too large");
  for (size_t i = 6; i + 3 < c.n.size(); i += 4) {
    DelayEntry d{c.u(i), c.u(i + 1), c.u(i + 2), c.u(i + 3)};
    if (d.kind > 3 || d.action > 2 || (d.action == ACT_SLEEP && d.arg > 100000)) throw std::logic_error("case: bad delay entry");
    s.plan.push_back(d);
  }
  if (tick_period_us(s.flags) && tick_period_us(s.flags) < 10000) throw std::logic_error("case: signal period below 10 ms");
  if (s.flags >> 27) throw std::logic_error("case: unknown flag bits");
  return s;
}

// sleeping/waiting the case itself asks for: the watchdog's no-progress window is 10 s plus this
static uint64_t sleep_budget_us(const CaseSpec& s, const Model& m) {
  uint64_t b = m.sleep_us;
  for (const auto& d : s.plan) b += d.action == ACT_SLEEP ? d.arg : kSyncBoundUs;
  if (m.never_exits) {
    b += s.timeout_us + 1500000; // run_process notices the timeout at its 1 s poll granularity
    if (m.ignores_term) b += 6500000; // SIGTERM, then SIGKILL 5 s later
  }
  return b;
}

struct Outcome {
  bool failed = false;
  bool nontrivial = false;
  std::vector<std::string> classes;
  std::string sig, msg;
};

static const char* why_class(const std::string& what) {
  if (what.find("write failed") != std::string::npos) return "write-failed";
  if (what.find("read failed") != std::string::npos) return "read-failed";
  if (what.find("timed out") != std::string::npos) return "timed-out";
  if (what.find("kill failed") != std::string::npos) return "kill-failed";
  if (what.find("command returned code") != std::string::npos) return "check";
  return "other";
}

static bool read_side(const std::string& side_path, SideRecord& rec) {
  rec = {0, 0, 0, 0};
  int fd = ::open(side_path.c_str(), O_RDONLY);
  ssize_t r = fd >= 0 ? __real_read(fd, &rec, sizeof(rec)) : -1;
  if (fd >= 0) ::close(fd);
  return r == static_cast<ssize_t>(sizeof(rec)) && rec.magic == kSideMagic;
}

// A child that never exits is killed by the timeout at a moment the case does not control (it may not even
// have started under load): only when its side record shows that it reached the final pause is its whole
// output owed; otherwise what was returned must be a prefix of it.
static bool child_reached_pause(const std::string& side_path, const std::vector<Op>& ops) {
  SideRecord rec;
  if (!read_side(side_path, rec)) return false;
  size_t zpos = 0;
  while (zpos < ops.size() && ops[zpos].code != 'Z') zpos++;
  return rec.ops_done >= zpos + 1;
}

static void check_side(const std::string& side_path, const Model& m, const std::string& payload, const char* api) {
  if (m.never_exits) return;
  SideRecord rec;
  VCHECK(read_side(side_path, rec), cat(api, "-child-did-not-start"), "the scripted child left no side record (exec failed?)");
  uint64_t want_hash = fnv(payload.data(), m.consumed, kFnvInit);
  VCHECK(rec.count == m.consumed, cat(api, "-stdin-delivery"), "the child read ", rec.count, " bytes from stdin, the script consumes ", m.consumed, " of a ", payload.size(), "-byte payload");
  VCHECK(rec.hash == want_hash, cat(api, "-stdin-content"), "the bytes the child read from stdin differ from the payload prefix (count ", rec.count, ")");
}

static void check_no_children(const char* api) {
  int st = 0;
  pid_t r = __real_waitpid(-1, &st, WNOHANG);
  if (r == -1 && errno == ECHILD) return;
  if (r == 0) VFAIL(cat(api, "-child-left-running"), "after the call a child process is still running");
  VFAIL(cat(api, "-zombie"), "after the call child ", r, " had not been reaped (status ", st, ")");
}

// "A timeout ends the child", for a caller that receives periodic signals: see the comment at TickState.
static void check_timeout_under_signals(const char* api, uint64_t timeout_us) {
  if (!g_tick.period_us || !timeout_us) return;
  const uint64_t lower_bound_us = (g_tick.kills ? g_tick.eintr_polls_at_first_kill : g_tick.eintr_polls) * g_tick.period_us;
  if (g_tick.gave_up || (g_tick.kills && lower_bound_us > timeout_us + kTimeoutGraceUs)) {
    VFAIL(cat(api, "-timeout-overrun-under-signals"), "the timeout is ", timeout_us, " us and the caller receives SIGALRM every ", g_tick.period_us, " us: ",
        g_tick.gave_up ? cat(g_tick.eintr_polls, " of its poll() calls had been interrupted") : cat(g_tick.eintr_polls_at_first_kill, " of its poll() calls had been interrupted before it first signalled the child (signal ", g_tick.first_kill_signal, ")"),
        ", so at least ", lower_bound_us, " us had passed since the child was started", g_tick.gave_up ? cat(" and the child had still not been signalled (the signals were then stopped; afterwards the caller sent ", g_tick.kills, " signal(s))") : std::string(),
        " - more than the timeout plus ", kTimeoutGraceUs, " us of grace");
  }
}

// Executed in the forked worker. Throws verif::Fail on an oracle violation.
static void evaluate(const Case& c, Outcome& o) {
  CaseSpec s = decode(c);
  std::vector<Op> ops = parse_script(s.script);
  std::string payload = (s.flags & FL_NO_STDIN) ? std::string() : vg::expand(s.payload_seed, s.payload_size);
  Model m = build_model(ops, payload);
  if (m.never_exits && s.timeout_us == 0) throw std::logic_error("case: a child that never exits needs a timeout");
  std::string side = cat("c15_side_", ctx().shard, "_", getpid());
  std::string errfile = cat("c15_err_", ctx().shard, "_", getpid());
  ::unlink(side.c_str());
  struct Cleanup {
    std::string a, b;
    ~Cleanup() {
      ::unlink(a.c_str());
      ::unlink(b.c_str());
    }
  } cleanup{side, errfile};
  std::vector<std::string> cmd = {self_exe(), "--child", s.script, side};
  g_delay.entries = s.plan;
  memset(g_delay.count, 0, sizeof(g_delay.count));

  o.classes.push_back(cat("behaviour:B", s.behaviour));
  if (!ops.empty() && ops[0].code == 'T') o.classes.push_back(cat("child-writes-printf-like-text", (s.flags & FL_CHECK) && m.status != 0 ? ":check-must-throw" : ""));
  o.classes.push_back(s.api == 0 ? "api:run_process" : s.timeout_us ? "api:communicate+deadline" : "api:communicate");
  o.classes.push_back(payload.size() > 65536 ? "payload:>64K" : payload.empty() ? "payload:0" : "payload:<=64K");
  if (!s.plan.empty()) o.classes.push_back("delay-plan");
  const uint64_t tick_us = tick_period_us(s.flags);
  if (tick_us) o.classes.push_back(s.timeout_us && m.never_exits ? "signals:timeout-must-fire" : "signals");
  if (m.descendant_holds & 6) o.classes.push_back(s.timeout_us ? "descendant-holds-output:timeout-given" : "descendant-holds-output:no-timeout");
  const uint64_t closed_mask = closed_fds_mask(s.flags);
  if (closed_mask) o.classes.push_back(cat("caller-has-closed-descriptors:", (closed_mask & 1) ? "0" : "", (closed_mask & 2) ? "1" : "", (closed_mask & 4) ? "2" : ""));
  if (m.never_exits && s.timeout_us && m.closed_streams) o.classes.push_back(cat("timeout-must-fire:child-closed-", (m.closed_streams & 1) ? "stdin" : "", (m.closed_streams & 2) ? "stdout" : "", (m.closed_streams & 4) ? "stderr" : ""));
  o.nontrivial = payload.size() > 65536 || m.out.size() > 65536 || m.err.size() > 65536 || (!s.plan.empty() && !m.sleep_after_last_write && !m.never_exits) ||
      (m.descendant_holds & 6) || (tick_us && m.never_exits) || (m.never_exits && m.closed_streams) || closed_mask;

  if (s.api == 0) {
    const char* api = "run-process";
    bool check = (s.flags & FL_CHECK) != 0;
    ClosedStdFds closed_std(closed_mask); // from here to the end of the last call the caller's descriptors named by the mask are closed
    std::set<int> before = open_fds();
    // "however many times it is called": bits 8..11 of the flags ask for that many extra identical calls
    uint64_t extra_calls = (s.flags >> 8) & 0xF;
    if (extra_calls) o.classes.push_back("run_process:repeated");
    for (uint64_t call = 0; call <= extra_calls; call++) {
    ::unlink(side.c_str());
    memset(g_delay.count, 0, sizeof(g_delay.count));
    phosg::SubprocessResult res;
    bool threw = false;
    std::string what;
    g_delay.armed = true;
    tick_begin(tick_us, s.timeout_us);
    try {
      res = phosg::run_process(cmd, (s.flags & FL_NO_STDIN) ? nullptr : &payload, check, nullptr, nullptr, s.timeout_us);
    } catch (const std::runtime_error& e) {
      threw = true;
      what = e.what();
    }
    tick_end();
    g_delay.armed = false;
    std::set<int> after = open_fds();
    check_timeout_under_signals(api, s.timeout_us);
    int want_status = m.never_exits ? (m.ignores_term ? SIGKILL : SIGTERM) : m.status;
    bool want_throw = check && want_status != 0;
    if (threw && !want_throw) {
      VFAIL(cat(api, "-threw:", why_class(what)), "run_process threw although ", check ? "the child's status is 0" : "check is off", ": ", what.substr(0, 300));
    }
    if (!threw) {
      VCHECK(!want_throw, cat(api, "-check-not-raised"), "check is on and the child's wait status is ", want_status, " but run_process returned normally (exit_status ", res.exit_status, ")");
      if (m.never_exits && m.ignores_term && res.exit_status == SIGTERM && !child_reached_pause(side, ops)) {
        // the timeout fired before the child got as far as ignoring SIGTERM (slow start under load): SIGTERM ended it
        o.classes.push_back("timeout-before-child-ignored-sigterm");
        want_status = SIGTERM;
      }
      VCHECK(res.exit_status == want_status, cat(api, "-status"), "exit_status is ", res.exit_status, " expected wait status ", want_status);
      std::string want_out = m.out, want_err = m.err;
      if (m.never_exits && !child_reached_pause(side, ops)) {
        // killed before it finished writing: whatever came back must be a prefix of the script's output
        o.classes.push_back("timeout-before-child-finished-writing");
        want_out.resize(std::min(want_out.size(), res.stdout_contents.size()));
        want_err.resize(std::min(want_err.size(), res.stderr_contents.size()));
      }
      if (res.stdout_contents != want_out) {
        VFAIL(cat(api, res.stdout_contents.size() < want_out.size() ? "-stdout-lost" : "-stdout-content"), "stdout: ", diff_desc(res.stdout_contents, want_out));
      }
      if (res.stderr_contents != want_err) {
        VFAIL(cat(api, res.stderr_contents.size() < want_err.size() ? "-stderr-lost" : "-stderr-content"), "stderr: ", diff_desc(res.stderr_contents, want_err));
      }
    } else {
      // the exception was owed (check is on, the status is non-zero); its type and wording are not part of the statement
      o.classes.push_back(cat("owed-exception-wording:", why_class(what)));
    }
    check_side(side, m, payload, api);
    check_no_children(api);
    std::string leaked;
    for (int fd : after)
      if (!before.count(fd)) leaked += describe_fd(fd) + " ";
    VCHECK(leaked.empty(), cat(api, "-fd-leak"), "descriptors open after run_process (call ", call + 1, ") that were not open before the first call: ", leaked);
    for (int fd : before) VCHECK(after.count(fd), cat(api, "-closed-foreign-fd"), "run_process closed descriptor ", fd, " which it did not open");
    } // repeated calls
    closed_std.restore();
  } else if (s.api == 1) {
    const char* api = "communicate";
    int err_fd = -1;
    if (s.flags & FL_STDERR_FILE) {
      err_fd = ::open(errfile.c_str(), O_CREAT | O_TRUNC | O_WRONLY | O_APPEND, 0644);
      if (err_fd < 0) throw std::logic_error("harness: cannot create the stderr file");
    } else if (m.err.size() > 32768) {
      throw std::logic_error("case: communicate does not read stderr; more than 32 KiB into an unread pipe blocks the child by design");
    }
    // communicate reads stdout to end-of-file and writes until stdin is closed; what it owes while another process keeps
    // one of those pipes open is not stated: under communicate a descendant may only hold stderr
    if (m.descendant_holds & 3) throw std::logic_error("case: communicate with a descendant that keeps stdin or stdout open is outside the exercised domain");
    bool want_throw = m.never_exits;
    bool threw = false;
    std::string what, out;
    int status = -1;
    pid_t child = -1;
    {
      ClosedStdFds closed_std(closed_mask); // the Subprocess is created, used and destroyed by a caller whose descriptors named by the mask are closed
      g_delay.armed = true;
      tick_begin(tick_us, s.timeout_us);
      phosg::Subprocess sp(cmd, -1, -1, err_fd); // the signal stream starts in fork(), i.e. only when this succeeded
      child = sp.pid();
      try {
        out = sp.communicate(payload, s.timeout_us); // std::string overload (a literal would bind to the void* one)
        status = sp.wait();
      } catch (const std::runtime_error& e) {
        threw = true;
        what = e.what();
      }
      tick_end();
      g_delay.armed = false;
      // the descriptors the object still holds are ours to close (Subprocess never closes them)
      for (int fd : {sp.stdin_fd(), sp.stdout_fd(), sp.stderr_fd()})
        if (fd >= 0) ::close(fd);
    }
    if (err_fd >= 0) ::close(err_fd);
    check_timeout_under_signals(api, s.timeout_us);
    if (threw && !want_throw) {
      VFAIL(cat(api, "-threw:", why_class(what), s.timeout_us ? ":deadline-not-reached" : ":no-deadline"), "communicate threw although the child exits by itself", s.timeout_us ? cat(" long before the ", s.timeout_us, " us deadline") : std::string(" and no deadline was given"), ": ", what.substr(0, 300));
    }
    if (!threw) {
      VCHECK(!want_throw, cat(api, "-timeout-not-raised"), "the child never exits and the deadline is ", s.timeout_us, " us but communicate returned");
      if (out != m.out) {
        VFAIL(cat(api, out.size() < m.out.size() ? "-stdout-lost" : "-stdout-content"), "stdout: ", diff_desc(out, m.out));
      }
      VCHECK(status == m.status, cat(api, "-status"), "wait() returned ", status, " expected wait status ", m.status);
      if (s.flags & FL_STDERR_FILE) {
        std::string got = phosg::load_file(errfile);
        VCHECK(got == m.err, cat(api, "-stderr-file"), "stderr file: ", diff_desc(got, m.err));
      }
    } else {
      o.classes.push_back(cat("owed-exception-wording:", why_class(what)));
    }
    check_side(side, m, payload, api);
    check_no_children(api);
    VCHECK(::kill(child, 0) != 0 && errno == ESRCH, cat(api, "-child-survives"), "child ", child, " still exists after the Subprocess was destroyed");
  } else {
    throw std::logic_error("case: unknown api");
  }
  if (__lsan_do_recoverable_leak_check()) VFAIL("memory-leak", "LeakSanitizer reported a leak after the call (see the shard log)");
}

// ---------------------------------------------------------------- worker + watchdog

static bool g_deadlock_seen = false;
static int g_failures_seen = 0; // bounds the time rapidcheck spends shrinking through real processes
static constexpr int kMaxFailuresPerShard = 25;

static bool read_io(pid_t pid, uint64_t& sum) {
  char path[64], buf[1024];
  snprintf(path, sizeof(path), "/proc/%d/io", pid);
  int fd = ::open(path, O_RDONLY);
  if (fd < 0) return false;
  ssize_t r = __real_read(fd, buf, sizeof(buf) - 1);
  ::close(fd);
  if (r <= 0) return false;
  buf[r] = 0;
  uint64_t rc = 0, wc = 0;
  const char* p = strstr(buf, "rchar:");
  if (p) rc = strtoull(p + 6, nullptr, 10);
  p = strstr(buf, "wchar:");
  if (p) wc = strtoull(p + 6, nullptr, 10);
  sum = rc + wc;
  return true;
}

// utime + stime of a process in clock ticks (fields 14 and 15 of /proc/<pid>/stat)
static bool read_cpu_ticks(pid_t pid, uint64_t& ticks) {
  char path[64], buf[1024];
  snprintf(path, sizeof(path), "/proc/%d/stat", pid);
  int fd = ::open(path, O_RDONLY);
  if (fd < 0) return false;
  ssize_t r = __real_read(fd, buf, sizeof(buf) - 1);
  ::close(fd);
  if (r <= 0) return false;
  buf[r] = 0;
  char* p = strrchr(buf, ')');
  if (!p) return false;
  p++;
  // after ")": state(3) ppid pgrp session tty tpgid flags minflt cminflt majflt cmajflt utime(14) stime(15)
  int field = 2;
  uint64_t ut = 0, st = 0;
  while (*p) {
    while (*p == ' ') p++;
    if (!*p) break;
    field++;
    char* e = p;
    while (*e && *e != ' ') e++;
    if (field == 14) ut = strtoull(p, nullptr, 10);
    if (field == 15) {
      st = strtoull(p, nullptr, 10);
      break;
    }
    p = e;
  }
  ticks = ut + st;
  return true;
}

static std::string read_small(const std::string& path) {
  char buf[256];
  int fd = ::open(path.c_str(), O_RDONLY);
  if (fd < 0) return "?";
  ssize_t r = __real_read(fd, buf, sizeof(buf) - 1);
  ::close(fd);
  if (r <= 0) return "-";
  std::string s(buf, r);
  while (!s.empty() && s.back() == '\n') s.pop_back();
  return s;
}

static std::string one_line(std::string s, size_t max) {
  for (auto& ch : s)
    if (ch == '\n' || ch == '\r') ch = ' ';
  if (s.size() > max) s.resize(max);
  return s;
}

static void run_case(const Case& c) {
  if (g_deadlock_seen) {
    // each further deadlock would cost another 10 s of silence; the first one is the finding
    ctx().exclude("skipped-after-deadlock-or-runaway-in-this-shard");
    return;
  }
  if (g_failures_seen >= kMaxFailuresPerShard) {
    ctx().exclude("skipped-after-25-failures-in-this-shard");
    return;
  }
  if (!g_shared) {
    void* m = mmap(nullptr, 4096, PROT_READ | PROT_WRITE, MAP_SHARED | MAP_ANONYMOUS, -1, 0);
    if (m == MAP_FAILED) throw std::logic_error("harness: mmap");
    g_shared = static_cast<Shared*>(m);
  }
  // decode in the monitor too: the watchdog needs the sleep budget (and malformed cases fail early)
  CaseSpec spec = decode(c);
  Model model;
  {
    std::vector<Op> ops = parse_script(spec.script);
    std::string none;
    // the model's sleep/never-exits fields do not depend on the payload
    model = build_model(ops, none, false);
  }
  uint64_t window_us = 10000000 + sleep_budget_us(spec, model);
  // bounds that do not depend on wall-clock time: a case moves about 2 x (payload + outputs) bytes and needs
  // well under a second of CPU; far beyond that it is a runaway loop (reported, not waited for)
  uint64_t volume = spec.payload_size + model.out_size + model.err_size + (model.out_size ? spec.payload_size : 0);
  uint64_t io_bound = 6 * volume + (64ull << 20);
  uint64_t cpu_bound_ticks = 90ull * sysconf(_SC_CLK_TCK);
  // "A timeout ends the child", for a caller that is busy instead of asleep: the CPU time the (single-threaded) worker has consumed is
  // a LOWER bound of the time that has passed since it started - whatever the machine load. A call that has to time out after T and is
  // still running when the worker alone has burnt T + 1.5 s (poll granularity) [+ 6.5 s of SIGTERM->SIGKILL escalation] + 10 s has
  // missed its timeout by more than 10 s (such a case needs well under a second of CPU when the timeout works).
  uint64_t overrun_ticks = 0;
  if (model.never_exits && spec.timeout_us) overrun_ticks = (spec.timeout_us + 1500000 + (model.ignores_term ? 6500000 : 0) + 10000000) * static_cast<uint64_t>(sysconf(_SC_CLK_TCK)) / 1000000;
  g_shared->child_pid = 0;
  g_shared->forks = 0;
  int rp[2];
  if (pipe2(rp, O_CLOEXEC) != 0) throw std::logic_error("harness: pipe2");
  fflush(stdout);
  fflush(stderr);
  pid_t worker = __real_fork();
  if (worker < 0) throw std::logic_error("harness: fork");
  if (worker == 0) {
    ::close(rp[0]);
    prctl(PR_SET_PDEATHSIG, SIGKILL); // never outlive the shard process (e.g. when the driver stops it at its budget)
    if (getppid() == 1) _exit(0);
    setpgid(0, 0);
    signal(SIGPIPE, SIG_IGN);
    Outcome o;
    try {
      evaluate(c, o);
    } catch (const Fail& f) {
      o.failed = true;
      o.sig = f.sig;
      o.msg = f.msg;
    } catch (const std::exception& e) {
      o.failed = true;
      o.sig = "unexpected-exception";
      o.msg = cat(typeid(e).name(), ": ", e.what());
    }
    std::string cls;
    for (const auto& l : o.classes) cls += l + ";";
    std::string text = cat("R=", o.failed ? "FAIL" : "OK", "\nNT=", o.nontrivial ? 1 : 0, "\nCLS=", cls, "\nSIG=", one_line(o.sig, 200), "\nMSG=", one_line(o.msg, 3000), "\n");
    (void)!__real_write(rp[1], text.data(), text.size());
    _exit(0);
  }
  ::close(rp[1]);
  setpgid(worker, worker); // both sides set it: no race with the kill below
  int wstatus = 0;
  bool done = false, deadlock = false;
  const char* runaway = nullptr;
  uint64_t last_change = mono_us(), last_probe = 0, last_sum = 0, last_cpu = 0;
  int last_child = 0;
  char last_states[2] = {0, 0};
  uint64_t polls = 0;
  std::string dl_detail;
  while (!done) {
    pid_t r = __real_waitpid(worker, &wstatus, WNOHANG);
    if (r == worker) {
      done = true;
      break;
    }
    usleep(polls < 400 ? 250 : polls < 2000 ? 1000 : 5000);
    polls++;
    uint64_t now = mono_us();
    if (now - last_probe < 100000) continue;
    last_probe = now;
    int child = g_shared->child_pid;
    uint64_t sum = 0, part = 0;
    if (read_io(worker, part)) sum += part;
    if (child > 0 && read_io(child, part)) sum += part;
    uint64_t cpu = 0, worker_cpu = 0;
    if (read_cpu_ticks(worker, part)) cpu += part, worker_cpu = part;
    if (child > 0 && read_cpu_ticks(child, part)) cpu += part;
    char st[2] = {proc_state(worker), child > 0 ? proc_state(child) : char(0)};
    if (overrun_ticks && worker_cpu > overrun_ticks && sum <= io_bound) {
      runaway = "timeout-overrun-busy";
      dl_detail = cat("the timeout is ", spec.timeout_us, " us and the child never exits by itself, but the call has not returned although the calling process alone has consumed ", worker_cpu,
          " clock ticks of CPU (", worker_cpu * 1000 / static_cast<uint64_t>(sysconf(_SC_CLK_TCK)), " ms - a lower bound of the time that has passed): the timeout did not end the child; worker state ", st[0] ? st[0] : '?',
          ", child ", child, " state ", st[1] ? st[1] : '?', "; rchar+wchar total ", sum);
      ::kill(-worker, SIGKILL);
      __real_waitpid(worker, &wstatus, 0);
      done = true;
      break;
    }
    if (sum > io_bound || cpu > cpu_bound_ticks) {
      runaway = sum > io_bound ? "runaway-io" : "livelock";
      dl_detail = cat("worker and child have moved ", sum, " bytes (the case needs about ", volume * 2, ") and used ", cpu, " clock ticks of CPU: a loop that does not terminate; worker state ", st[0] ? st[0] : '?', ", child state ", st[1] ? st[1] : '?');
      ::kill(-worker, SIGKILL);
      __real_waitpid(worker, &wstatus, 0);
      done = true;
      break;
    }
    bool state_moved = (st[1] == 'Z') != (last_states[1] == 'Z') || (st[1] == 0) != (last_states[1] == 0);
    // a runnable (R) or disk-waiting (D) process is not blocked: under heavy machine load a starved process
    // shows no I/O and no CPU for a long time without being deadlocked
    bool runnable = st[0] == 'R' || st[0] == 'D' || st[1] == 'R' || st[1] == 'D';
    if (sum != last_sum || cpu != last_cpu || child != last_child || state_moved || runnable) {
      last_sum = sum;
      last_cpu = cpu;
      last_child = child;
      last_states[0] = st[0];
      last_states[1] = st[1];
      last_change = now;
      continue;
    }
    if (now - last_change > window_us) {
      deadlock = true;
      dl_detail = cat("every process blocked, no I/O and no CPU use for ", (now - last_change) / 1000, " ms (window = 10 s + ", (window_us - 10000000) / 1000, " ms of sleeps the case asks for); worker state ", st[0] ? st[0] : '?', " wchan ", read_small(cat("/proc/", worker, "/wchan")),
          "; child ", child, " state ", st[1] ? st[1] : '?', " wchan ", child > 0 ? read_small(cat("/proc/", child, "/wchan")) : std::string("-"), "; rchar+wchar total ", sum);
      ::kill(-worker, SIGKILL);
      __real_waitpid(worker, &wstatus, 0);
      done = true;
    }
  }
  // whatever the worker left behind (a child that outlived a failing call) goes away with its process group
  ::kill(-worker, SIGKILL);
  std::string text;
  {
    int fl = fcntl(rp[0], F_GETFL, 0);
    fcntl(rp[0], F_SETFL, fl | O_NONBLOCK);
    char buf[8192];
    for (;;) {
      ssize_t r = __real_read(rp[0], buf, sizeof(buf));
      if (r <= 0) break;
      text.append(buf, r);
    }
    ::close(rp[0]);
  }
  ::unlink(cat("c15_side_", ctx().shard, "_", worker).c_str());
  ::unlink(cat("c15_err_", ctx().shard, "_", worker).c_str());
  const char* api = spec.api == 0 ? "run-process" : "communicate";
  if (runaway) {
    g_failures_seen++;
    g_deadlock_seen = true; // each further one would cost tens of seconds of CPU; the first one is the finding
    VFAIL(cat(api, "-", runaway), dl_detail);
  }
  if (deadlock) {
    g_deadlock_seen = true;
    g_failures_seen++;
    VFAIL(cat(api, "-deadlock"), dl_detail);
  }
  auto field = [&](const char* key) {
    std::string k = cat(key, "=");
    size_t p = text.find(k);
    if (p == std::string::npos) return std::string();
    size_t e = text.find('\n', p);
    return text.substr(p + k.size(), e == std::string::npos ? std::string::npos : e - p - k.size());
  };
  std::string verdict = field("R");
  if (verdict.empty()) {
    g_failures_seen++;
    VFAIL(cat(api, "-worker-died"), "the worker ended without a verdict: wait status ", wstatus, WIFSIGNALED(wstatus) ? cat(" (signal ", WTERMSIG(wstatus), ")") : cat(" (exit ", WEXITSTATUS(wstatus), ")"), "; a sanitizer report, if any, is in the shard log");
  }
  std::string cls = field("CLS");
  size_t p = 0;
  while (p < cls.size()) {
    size_t e = cls.find(';', p);
    if (e == std::string::npos) e = cls.size();
    if (e > p) ctx().cls(cls.substr(p, e - p));
    p = e + 1;
  }
  if (field("NT") == "1") ctx().nontrivial_case();
  if (verdict == "FAIL") {
    g_failures_seen++;
    throw Fail{field("SIG"), field("MSG")};
  }
}

// ---------------------------------------------------------------- generators

struct Draft {
  uint64_t api = 0, payload = 0, flags = 0, timeout = 0, behaviour = 0;
  std::string script;
  std::vector<DelayEntry> plan;
  Case to_case(uint64_t seed) const {
    Case c("subprocess");
    c.N(api).N(payload).N(seed).N(flags).N(timeout).N(behaviour);
    for (const auto& d : plan) c.N(d.kind).N(d.index).N(d.action).N(d.arg);
    c.S(script);
    return c;
  }
};

static uint64_t gen_volume(uint64_t max) {
  uint64_t v;
  switch (vg::below(10)) {
    case 0: v = 0; break;
    case 1: v = 1; break;
    case 2: v = vg::pick<uint64_t>({4095, 4096, 4097}); break;
    case 3: v = vg::pick<uint64_t>({65535, 65536, 65537}); break;
    case 4: v = vg::chance(1, 4) ? (4u << 20) : (1u << 20); break;
    case 5: v = 65536 + vg::below(200000); break;
    default: v = vg::below(70000); break;
  }
  return std::min(v, max);
}
static std::string gen_exit() {
  if (vg::chance(3, 5)) return "X0";
  return cat("X", vg::pick<uint64_t>({1, 2, 3, 127, 255}));
}
static std::string w(int fd, uint64_t n, uint64_t chunk = 0, uint64_t us = 0) { return cat("W", fd, ",", n, ",", chunk, ",", us, ";"); }
// chunk size of the child's writes; tiny chunks only for moderate volumes (run_process grows its buffer by 128 KiB per read)
static uint64_t gen_chunk(uint64_t vol) {
  if (vol > 300000) return vg::pick<uint64_t>({0, 65536, 30000, 4096});
  return vg::pick<uint64_t>({0, 0, 1000, 4096, 65536, 100, 30000});
}
static std::string wg(int fd, uint64_t vol) { return w(fd, vol, gen_chunk(vol)); }

// Repaired defect (kept as a generated class): when TWO OR MORE of the caller's descriptors 0 / 1 / 2 were closed, the
// parent's own pipe ends land on the numbers 1 / 2 and Subprocess's child branch closes them AFTER it has installed the child's
// stdout / stderr there with dup2 - the child runs without stdout and/or stderr (output lost; communicate can then wait for ever).
static uint64_t gen_closed_mask() {
  // two or more closed descriptors used to make the child start without stdout and/or stderr (repaired in /repo)
  return vg::pick<uint64_t>({1, 1, 1, 2, 4, 3, 5, 6, 7});
}

static Case gen_subprocess() {
  Draft d;
  d.api = vg::below(2);
  bool comm = d.api == 1;
  uint64_t b = vg::pick<uint64_t>({0, 0, 1, 1, 2, 2, 2, 3, 3, 3, 4, 5, 5, 5, 6, 7, 7, 8, 8, 9, 10, 11, 11, 12, 13});
  d.behaviour = b;
  d.payload = gen_volume(4u << 20);
  if (comm) {
    d.flags = vg::coin() ? (uint64_t)FL_STDERR_FILE : 0;
    d.timeout = vg::coin() ? 60000000 : 0;
  } else {
    d.flags = (vg::coin() ? (uint64_t)FL_CHECK : 0) | (vg::chance(1, 8) ? (uint64_t)FL_NO_STDIN : 0);
    d.timeout = vg::chance(1, 3) ? 60000000 : 0;
  }
  uint64_t err_max = (comm && !(d.flags & FL_STDERR_FILE)) ? 16000 : (1u << 20);
  auto maybe_err = [&]() { return vg::coin() ? wg(2, gen_volume(err_max)) : std::string(); };
  std::string fin = gen_exit() ;
  switch (b) {
    case 0: d.script = "E;" + wg(1, gen_volume(4u << 20)) + maybe_err() + fin; break;
    case 1: d.script = wg(1, gen_volume(2u << 20)) + maybe_err() + "E;" + fin; break;
    case 2: d.script = cat("P", vg::pick<uint64_t>({0, 1000, 4096, 65536}), ";") + maybe_err() + fin; break;
    case 3: // exits before the parent looks at it
      d.script = w(1, gen_volume(60000)) + (vg::coin() ? w(2, gen_volume(std::min<uint64_t>(err_max, 60000))) : std::string()) + fin;
      d.plan.push_back({D_WAITPID, 0, ACT_WAIT_CHILD_EXIT, 0});
      break;
    case 4: {
      uint64_t chunk = d.payload / 16 + 1 + vg::below(5000);
      d.script = cat("Q", d.payload, ",", chunk, ",", vg::below(3000), ";") + wg(1, gen_volume(300000)) + fin;
      break;
    }
    case 5: // closes stdin before reading everything
      if (d.payload == 0) d.payload = 1 + vg::below(200000);
      d.flags &= ~static_cast<uint64_t>(FL_NO_STDIN);
      if (vg::coin()) {
        d.script = cat("C0;S", 10 + vg::below(50), ";") + wg(1, gen_volume(300000)) + fin;
        d.plan.push_back({vg::coin() ? (uint64_t)D_POLL : (uint64_t)D_WRITE, 0, ACT_WAIT_CHILD_STDIN_CLOSED, 0});
      } else {
        d.script = cat("R", vg::below(d.payload), ";C0;S", vg::below(40), ";") + wg(1, gen_volume(300000)) + fin;
      }
      break;
    case 6: d.script = cat("E;S", 50 + vg::below(200), ";") + wg(1, gen_volume(300000)) + fin; break;
    case 7: d.script = (vg::coin() ? "E;" : "") + wg(1, gen_volume(300000)) + maybe_err() + cat("K", vg::pick<uint64_t>({SIGKILL, SIGTERM, SIGINT, SIGUSR1, SIGHUP})); break;
    case 8: // never exits: only a timeout ends it
      d.timeout = 100000 + vg::below(200000);
      d.script = w(1, gen_volume(60000)) + ((!comm && vg::chance(1, 12)) ? "I15;" : "") + "Z";
      break;
    case 9: d.script = wg(1, gen_volume(300000)) + "C1;" + (vg::coin() ? w(2, gen_volume(std::min<uint64_t>(err_max, 100000))) + "C2;" : std::string()) + cat("E;S", vg::below(30), ";") + fin; break;
    case 10: {
      uint64_t n = 3 + vg::below(6);
      uint64_t errs = 0;
      bool read_done = false;
      for (uint64_t i = 0; i < n; i++) {
        if (!read_done && vg::chance(1, 3)) {
          d.script += "E;";
          read_done = true;
        }
        int fd = vg::coin() ? 1 : 2;
        uint64_t vol = gen_volume(fd == 2 ? std::min<uint64_t>(err_max - errs, 200000) : 200000);
        if (fd == 2) errs += vol;
        uint64_t pause = vg::chance(1, 3) ? vg::below(2000) : 0;
        d.script += w(fd, vol, pause ? vol / 8 + 1 : gen_chunk(vol), pause); // pauses are per chunk: few chunks when pausing
      }
      // pauses are per chunk: bound the chunk count through the chunk size
      if (!read_done) d.script += "E;";
      d.script += fin;
      break;
    }
    case 13: { // closes one or more of its streams and then never exits: only a timeout ends it - while the parent's end of the closed
      // pipe stays "ready" for ever (POLLHUP without POLLIN on a read end, POLLERR without POLLOUT on the write end of a full pipe)
      d.timeout = 100000 + vg::below(60000); // short: a caller that polls a permanently ready descriptor is busy until the timeout fires
      // under communicate the child keeps stdout open (stated assumption): it may close stdin and/or stderr
      uint64_t which = comm ? vg::pick<uint64_t>({1, 4, 5}) : vg::pick<uint64_t>({1, 2, 2, 4, 4, 6, 3, 7});
      if (which & 1) {
        // stdin closed with payload still unread: more than a pipe's worth, so that the parent's write end is full when it happens
        d.flags &= ~static_cast<uint64_t>(FL_NO_STDIN);
        d.payload = vg::coin() ? 65537 + vg::below(300000) : std::max<uint64_t>(d.payload, 1);
        if (vg::coin()) d.script += cat("R", vg::below(d.payload), ";");
      } else if (vg::coin()) {
        d.script += "E;";
      }
      for (int fd : {1, 2}) { // at most 60000 bytes per stream: the child never blocks on a pipe the parent is not reading yet
        if (vg::chance(2, 3)) d.script += w(fd, gen_volume(fd == 2 ? std::min<uint64_t>(err_max, 60000) : 60000));
        if ((which >> fd) & 1) d.script += cat("C", fd, ";");
      }
      if (which & 1) d.script += "C0;";
      if (vg::chance(1, 3)) d.script += cat("S", vg::below(30), ";");
      if (!comm && vg::chance(1, 20)) d.script += "I15;";
      d.script += "Z";
      if ((which & 1) && vg::coin()) d.plan.push_back({vg::coin() ? (uint64_t)D_POLL : (uint64_t)D_WRITE, vg::below(3), ACT_WAIT_CHILD_STDIN_CLOSED, 0});
      break;
    }
    case 12: { // starts a background descendant that inherits the output pipes and outlives the child (a daemon, `cmd &`)
      // what the descendant keeps open: stdout and/or stderr, sometimes stdin too; only stderr under communicate
      uint64_t mask = comm ? 4 : vg::pick<uint64_t>({6, 6, 2, 4});
      if (!comm && vg::chance(1, 4)) mask |= 1;
      d.script = (vg::coin() ? "E;" : "") + wg(1, gen_volume(200000)) + maybe_err() + cat("G", mask, ",120;");
      if (vg::coin()) d.script += cat("S", vg::pick<uint64_t>({1, 20, 100, 300}), ";"); // lingers, silent
      if (vg::chance(1, 3)) d.script += wg(1, gen_volume(70000)); // or says something more
      if (vg::chance(1, 4)) d.script += "C1;C2;";
      d.script += vg::chance(1, 6) ? cat("K", vg::pick<uint64_t>({SIGKILL, SIGTERM, SIGUSR1})) : fin;
      break;
    }
    default: {
      uint64_t n = 2 + vg::below(7);
      uint64_t errs = 0;
      for (uint64_t i = 0; i < n; i++) {
        switch (vg::below(6)) {
          case 0: d.script += cat("R", vg::below(d.payload + 2), ";"); break;
          case 1: d.script += cat("Q", vg::below(d.payload + 2), ",", d.payload / 8 + 1, ",", vg::below(1500), ";"); break;
          case 2: d.script += wg(1, gen_volume(200000)); break;
          case 3: {
            uint64_t vol = gen_volume(std::min<uint64_t>(err_max - errs, 200000));
            errs += vol;
            d.script += wg(2, vol);
            break;
          }
          case 4: d.script += cat("S", vg::below(20), ";"); break;
          default: d.script += "E;"; break;
        }
      }
      d.script += vg::chance(1, 5) ? cat("K", vg::pick<uint64_t>({SIGKILL, SIGTERM, SIGUSR1})) : fin;
      break;
    }
  }
  // a quarter of the children write text full of printf conversion specifications instead of pseudo-random bytes (which hit a NUL
  // within a few hundred bytes): what comes back - and what a failure report is built from - must not be interpreted
  if (vg::chance(1, 4)) d.script = "T;" + d.script;
  if (!comm && b != 8 && b != 12 && b != 13 && d.payload <= 70000 && vg::chance(1, 4)) d.flags |= (1 + vg::below(3)) << 8; // 1..3 extra calls
  // ambient periodic signals in the calling process: half of the calls whose timeout has to fire, a sixth of the rest
  if ((b == 8 || b == 13) ? vg::coin() : vg::chance(1, 6)) d.flags |= tick_flag(vg::pick<uint64_t>({30, 50, 70, 100}));
  // the caller's own standard descriptors: in a fifth of the cases some of 0 / 1 / 2 are closed while it makes the call
  if (vg::chance(1, 5)) d.flags |= closed_fds_flag(gen_closed_mask());
  // parent-side sleeps at the k-th waitpid/poll/read/write
  if (vg::coin()) {
    uint64_t n = 1 + vg::below(3);
    for (uint64_t i = 0; i < n; i++) d.plan.push_back({vg::below(4), vg::below(7), ACT_SLEEP, vg::pick<uint64_t>({200, 1000, 5000, 20000})});
  }
  return d.to_case(vg::u64());
}

// ---------------------------------------------------------------- deterministic grid

static void enum_grid(Enum& e) {
  uint64_t idx = 0;
  std::vector<uint64_t> sizes = {0, 1, 4095, 4096, 65535, 65536, 65537, 1u << 20};
  struct Variant {
    uint64_t api, flags, timeout;
  };
  std::vector<Variant> variants = {{0, 0, 0}, {0, FL_CHECK, 60000000}, {1, 0, 0}, {1, FL_STDERR_FILE, 60000000}};
  for (uint64_t sz : sizes) {
    for (uint64_t beh = 0; beh < 4; beh++) {
      for (const auto& v : variants) {
        if (e.stop) break;
        if (!e.mine(idx++)) continue;
        Draft d;
        d.api = v.api;
        d.flags = v.flags;
        d.timeout = v.timeout;
        d.payload = sz;
        d.behaviour = beh;
        uint64_t out = std::max<uint64_t>(sz, 1000);
        switch (beh) {
          case 0: d.script = "E;" + w(1, out) + w(2, 3000) + "X0"; break;
          case 1: d.script = w(1, out) + "E;X0"; break;
          case 2: d.script = "P0;X0"; break;
          default:
            d.script = w(1, std::min<uint64_t>(out, 60000)) + w(2, 100) + "X0";
            d.plan.push_back({D_WAITPID, 0, ACT_WAIT_CHILD_EXIT, 0});
            break;
        }
        e.exec(d.to_case(sz * 7 + beh));
      }
    }
  }
  // a few fixed shapes beyond the grid
  for (const auto& v : variants) {
    if (e.stop) break;
    {
      Draft d; // 4 MiB through cat
      d.api = v.api;
      d.flags = v.flags;
      d.timeout = v.timeout;
      d.payload = 4u << 20;
      d.behaviour = 2;
      d.script = "P0;X0";
      if (e.mine(idx++)) e.exec(d.to_case(41));
    }
    {
      Draft d; // the child closes stdin at once; the parent writes afterwards
      d.api = v.api;
      d.flags = v.flags;
      d.timeout = v.timeout;
      d.payload = 100000;
      d.behaviour = 5;
      d.script = "C0;S30;" + w(1, 5000) + "X0";
      d.plan.push_back({D_POLL, 0, ACT_WAIT_CHILD_STDIN_CLOSED, 0});
      if (e.mine(idx++)) e.exec(d.to_case(42));
    }
    {
      Draft d; // non-zero status and a signal
      d.api = v.api;
      d.flags = v.flags;
      d.timeout = v.timeout;
      d.payload = 10;
      d.behaviour = 7;
      d.script = "E;" + w(1, 70000) + (v.timeout ? "K15" : "X3");
      if (e.mine(idx++)) e.exec(d.to_case(43));
    }
    {
      Draft d; // never exits
      d.api = v.api;
      d.flags = v.flags;
      d.timeout = 150000;
      d.payload = 10;
      d.behaviour = 8;
      d.script = w(1, 1000) + "Z";
      if (e.mine(idx++)) e.exec(d.to_case(44));
    }
    for (uint64_t period_ms : {30, 100}) {
      Draft d; // never exits, and the caller is interrupted by a signal several times per poll period
      d.api = v.api;
      d.flags = v.flags | tick_flag(period_ms);
      d.timeout = 200000;
      d.payload = 10;
      d.behaviour = 8;
      d.script = w(1, 1000) + "Z";
      if (e.mine(idx++)) e.exec(d.to_case(46));
    }
    {
      Draft d; // cat under periodic signals: every byte still arrives
      d.api = v.api;
      d.flags = v.flags | tick_flag(30);
      d.timeout = v.timeout;
      d.payload = 300000;
      d.behaviour = 2;
      d.script = "P4096;S150;X0";
      if (e.mine(idx++)) e.exec(d.to_case(47));
    }
    for (uint64_t which = 1; which < 8; which++) {
      // the child closes stdin (with > 64 KiB unread) / stdout / stderr and then never exits: the timeout has to end it all the same
      if (v.api == 1 && (which & 2)) continue; // under communicate the child keeps stdout open
      Draft d;
      d.api = v.api;
      d.flags = v.flags & ~static_cast<uint64_t>(FL_CHECK);
      d.timeout = 120000;
      d.payload = (which & 1) ? 200000 : 10;
      d.behaviour = 13;
      d.script = ((which & 1) ? std::string("R1000;") : std::string("E;")) + w(1, 3000) + w(2, 200) + ((which & 2) ? "C1;" : "") + ((which & 4) ? "C2;" : "") + ((which & 1) ? "C0;" : "") + "Z";
      if (e.mine(idx++)) e.exec(d.to_case(49));
    }
    for (uint64_t mask = 1; mask < 8; mask++) {
      // the caller itself has some of its descriptors 0 / 1 / 2 closed: cat with more than a pipe's worth, something on stderr, status 3
      Draft d;
      d.api = v.api;
      d.flags = (v.flags & ~static_cast<uint64_t>(FL_CHECK)) | closed_fds_flag(mask);
      d.timeout = v.timeout;
      d.payload = 70000;
      d.behaviour = 2;
      d.script = "P4096;" + w(2, 300) + "X3";
      if (e.mine(idx++)) e.exec(d.to_case(50));
    }
    for (uint64_t linger_ms : {0, 200}) {
      Draft d; // the child leaves a background descendant behind that holds the output pipes (stderr only under communicate)
      d.api = v.api;
      d.flags = v.flags;
      d.timeout = v.timeout;
      d.payload = 1000;
      d.behaviour = 12;
      d.script = "E;" + w(1, 5000) + w(2, 300) + cat("G", v.api == 1 ? 4 : 6, ",120;S", linger_ms, ";X", v.timeout ? 3 : 0);
      if (v.flags & FL_CHECK) d.flags &= ~static_cast<uint64_t>(FL_CHECK);
      if (e.mine(idx++)) e.exec(d.to_case(48));
    }
  }
  {
    Draft d; // four run_process calls in a row: the descriptor table must come back to where it started every time
    d.api = 0;
    d.flags = 3u << 8;
    d.payload = 5000;
    d.behaviour = 2;
    d.script = "P0;" + w(2, 100) + "X0";
    if (e.mine(idx++)) e.exec(d.to_case(45));
  }
  e.complete("payload sizes {0,1,4095,4096,65535,65536,65537,1 MiB} x {read-all-then-write, write-then-read, cat, exit-before-the-parent-polls} x {run_process, run_process+check+timeout, communicate, communicate+deadline}; plus 4 MiB through cat, early stdin close, non-zero status/signal, never-exiting child with a timeout (also while the caller receives SIGALRM every 30 / 100 ms), cat under periodic signals, a child that leaves a descendant holding the output pipes, four run_process calls in a row");
}

int main(int argc, char** argv) {
  if (argc >= 4 && !strcmp(argv[1], "--child")) child_main(argv[2], argv[3]);
  signal(SIGPIPE, SIG_IGN);
  std::vector<SubCheck> checks;
  checks.push_back({"subprocess", run_case, gen_subprocess, 2400, 40000, 100, enum_grid});
  return main_(argc, argv, checks);
}
