// C10 - MD5 / SHA-1 / SHA-256 / CRC-32 / FNV-1a equal their published definitions and chain through the seed.
//
// References (all independent of phosg): OpenSSL libcrypto (EVP one-shot digests), zlib's crc32, the FNV-1a
// recurrence written out here, and the published test vectors of RFC 1321, FIPS 180-4, the CRC catalogue and the
// FNV specification. oracle/c10_hashes.py repeats the comparison against Python's hashlib / zlib through a serve
// shim (second, differently built reference).
//
// Case encoding (digest, chain): n = [len, pattern, misalignment, seed, split, crc_seed, fnv32_seed, fnv64_seed, ambient],
// pattern 0 zeros, 1 0xFF, 2 i mod 251, 3 xorshift keyed by the length, 4 vg::expand(seed, len), 5 the blob s[0];
// ambient (optional, digest only) = process state in force while phosg computes and renders, see struct Ambient.
#define OPENSSL_SUPPRESS_DEPRECATED 1 // the low-level MD5_/SHA1_/SHA256_ one-shot calls are three times faster on short messages (digest-class search)
#include <locale.h>
#include <openssl/evp.h>
#include <openssl/md5.h>
#include <openssl/sha.h>
#include <sys/mman.h>
#include <zlib.h>

#include <atomic>
#include <locale>
#include <thread>

#include <phosg/Hash.hh>

#include "c10/ambient.hh"
#include "verif.hh"

using namespace verif;
using c10::Ambient;
using c10::kAmbientModes;
using c10::kAmbientNames;

static std::string make_data(const Case& c) {
  uint64_t len = c.u(0), pattern = c.u(1);
  if (pattern == 5) return c.str(0);
  if (len > (1ULL << 21)) throw std::logic_error("C10: length outside the domain");
  std::string d(len, '\0');
  switch (pattern) {
    case 0: break;
    case 1: d.assign(len, '\xFF'); break;
    case 2:
      for (uint64_t i = 0; i < len; i++) d[i] = static_cast<char>(i % 251);
      break;
    case 3: {
      uint64_t s = 0x9E3779B97F4A7C15ULL ^ (len * 0x100000001B3ULL);
      for (uint64_t i = 0; i < len; i++) {
        s ^= s << 13;
        s ^= s >> 7;
        s ^= s << 17;
        d[i] = static_cast<char>(s >> 32);
      }
      break;
    }
    case 4: d = vg::expand(c.u(3), len); break;
    default: throw std::logic_error("C10: unknown pattern");
  }
  return d;
}

static std::string evp(const EVP_MD* md, const void* p, size_t n) {
  unsigned char out[EVP_MAX_MD_SIZE];
  unsigned int outlen = 0;
  if (EVP_Digest(p, n, out, &outlen, md, nullptr) != 1) throw std::logic_error("C10: EVP_Digest failed");
  return std::string(reinterpret_cast<char*>(out), outlen);
}
static std::string lower_hex(const std::string& b) {
  static const char* hx = "0123456789abcdef";
  std::string r;
  for (unsigned char ch : b) {
    r += hx[ch >> 4];
    r += hx[ch & 15];
  }
  return r;
}
static std::string to_lower(std::string s) {
  for (char& ch : s)
    if (ch >= 'A' && ch <= 'F') ch = static_cast<char>(ch - 'A' + 'a');
  return s;
}
static uint32_t ref_fnv32(const std::string& d, uint32_t h) {
  for (unsigned char ch : d) {
    h ^= ch;
    h *= 16777619u; // FNV_prime (32 bit) = 2^24 + 2^8 + 0x93
  }
  return h;
}
static uint64_t ref_fnv64(const std::string& d, uint64_t h) {
  for (unsigned char ch : d) {
    h ^= ch;
    h *= 1099511628211ULL; // FNV_prime (64 bit) = 2^40 + 2^8 + 0xb3
  }
  return h;
}
static uint32_t ref_crc(const std::string& d, uint32_t running = 0) {
  // zlib takes 32-bit lengths per call
  uLong c = running;
  size_t off = 0;
  while (off < d.size()) {
    size_t n = std::min<size_t>(d.size() - off, 1u << 30);
    c = ::crc32(c, reinterpret_cast<const Bytef*>(d.data() + off), static_cast<uInt>(n));
    off += n;
  }
  return static_cast<uint32_t>(c);
}

static const char* len_class(size_t len) {
  return len < 56 ? "len<56" : len < 64 ? "len 56..63" : len <= 300 ? "len 64..300" : len <= 4096 ? "len<=4K" : len <= 65536 ? "len<=64K" : "len<=1M";
}

// the data is handed to phosg at a chosen misalignment inside an exactly sized heap block (ASan sees any over-read)
struct Placed {
  std::vector<char> block;
  const char* p;
  size_t n;
  Placed(const std::string& d, size_t mis) : block(d.size() + mis), p(block.data() + mis), n(d.size()) {
    if (n) memcpy(block.data() + mis, d.data(), n);
  }
};

// everything phosg returns for one message and one hash class, collected while the ambient state is in force
struct Rendered {
  std::string bin, hex, bin_s, hex_s;
};
template <typename H>
static Rendered render_all(const std::string& d, const Placed& pl, uint64_t ambient) {
  Ambient guard(ambient);
  Rendered r;
  H a(pl.p, pl.n);
  r.bin = a.bin();
  r.hex = a.hex();
  H b(d);
  r.bin_s = b.bin();
  r.hex_s = b.hex();
  return r;
}

// rare classes of a digest VALUE (the input of the renderings): bytes all of one kind, leading zeros
static bool printable_or_blank(unsigned char ch) { return (ch >= 0x20 && ch <= 0x7E) || ch == '\t' || ch == '\n' || ch == '\r'; }
static const char* const kDigestClassNames[9] = {"all-bytes-printable-ascii", "all-bytes-letters-or-digits", "all-bytes<0x20", "all-bytes<0x80", "all-bytes>=0x80",
    "all-hex-digits-decimal", ">=5-leading-zero-nibbles", "every-32-bit-word-starts-with-a-zero-nibble", ">=3-zero-bytes"};
static unsigned digest_class_mask(const unsigned char* dg, size_t n) {
  size_t printable = 0, low = 0, decimal_nibbles = 0, zero_bytes = 0, lead_zero_nibbles = 0, words_lead_zero = 0, alnum = 0, control = 0;
  bool leading = true;
  for (size_t k = 0; k < n; k++) {
    unsigned char ch = dg[k];
    printable += printable_or_blank(ch);
    alnum += (ch >= '0' && ch <= '9') || (ch >= 'A' && ch <= 'Z') || (ch >= 'a' && ch <= 'z');
    control += ch < 0x20;
    low += ch < 0x80;
    decimal_nibbles += ((ch >> 4) < 10) + ((ch & 15) < 10);
    zero_bytes += ch == 0;
    if (leading) {
      if (ch == 0) lead_zero_nibbles += 2;
      else {
        if ((ch >> 4) == 0) lead_zero_nibbles++;
        leading = false;
      }
    }
    if (k % 4 == 0 && (ch >> 4) == 0) words_lead_zero++;
  }
  unsigned m = 0;
  if (printable == n) m |= 1u << 0;
  if (alnum == n) m |= 1u << 1;
  if (control == n) m |= 1u << 2;
  if (low == n) m |= 1u << 3;
  if (low == 0) m |= 1u << 4;
  if (decimal_nibbles == 2 * n) m |= 1u << 5;
  if (lead_zero_nibbles >= 5) m |= 1u << 6;
  if (words_lead_zero == n / 4) m |= 1u << 7;
  if (zero_bytes >= 3) m |= 1u << 8;
  return m;
}
static std::vector<const char*> digest_classes(const std::string& dg) {
  std::vector<const char*> r;
  unsigned m = digest_class_mask(reinterpret_cast<const unsigned char*>(dg.data()), dg.size());
  for (unsigned k = 0; k < 9; k++)
    if (m & (1u << k)) r.push_back(kDigestClassNames[k]);
  return r;
}

static void check_hex_text(const char* name, const std::string& hx, const std::string& bin, size_t digest_len, const std::string& sig_suffix) {
  VCHECK(hx.size() == 2 * digest_len && to_lower(hx) == lower_hex(bin), cat("hex:", name, sig_suffix), name, "::hex() is '", hx, "' but bin() is ", lower_hex(bin), sig_suffix.empty() ? "" : " with ambient state ", sig_suffix.empty() ? "" : sig_suffix.substr(1));
  for (char ch : hx) VCHECK((ch >= '0' && ch <= '9') || (ch >= 'a' && ch <= 'f') || (ch >= 'A' && ch <= 'F'), cat("hex:", name, sig_suffix), name, "::hex() holds a non-hex character");
}

template <typename H>
static void check_digest(const char* name, const EVP_MD* md, const std::string& d, const Placed& pl, size_t digest_len, uint64_t ambient) {
  std::string exp = evp(md, d.data(), d.size());
  // untouched process state first (so that a defect that does not depend on the ambient state keeps its plain signature)
  Rendered r = render_all<H>(d, pl, 0);
  VCHECK(r.bin.size() == digest_len, cat("bin-size:", name), name, "::bin() has ", r.bin.size(), " bytes for a ", d.size(), "-byte input");
  VCHECK(r.bin == exp, cat("digest:", name), name, " of a ", d.size(), "-byte input is ", lower_hex(r.bin), " but the standard digest is ", lower_hex(exp));
  check_hex_text(name, r.hex, r.bin, digest_len, "");
  VCHECK(r.bin_s == exp && r.hex_s == r.hex, cat("string-ctor:", name), name, "(std::string) differs from ", name, "(ptr, size) for a ", d.size(), "-byte input");
  if (ambient) {
    std::string sfx = cat(":", kAmbientNames[ambient]);
    Rendered q = render_all<H>(d, pl, ambient);
    VCHECK(q.bin == exp, cat("digest:", name, sfx), name, "::bin() of a ", d.size(), "-byte input is ", lower_hex(q.bin), " with ambient state ", kAmbientNames[ambient], " but the standard digest is ", lower_hex(exp));
    check_hex_text(name, q.hex, q.bin, digest_len, sfx);
    VCHECK(q.bin_s == exp && q.hex_s == q.hex, cat("string-ctor:", name, sfx), name, "(std::string) differs from ", name, "(ptr, size) with ambient state ", kAmbientNames[ambient]);
  }
  for (const char* cl : digest_classes(exp)) ctx().cls(cat("digest-value:", name, ":", cl));
}

static void run_digest(const Case& c) {
  std::string d = make_data(c);
  size_t mis = c.u(2) & 15;
  Placed pl(d, mis);
  uint64_t ambient = c.n.size() > 8 ? c.u(8) : 0;
  if (ambient >= kAmbientModes) throw std::logic_error("C10: unknown ambient mode");
  check_digest<phosg::MD5>("MD5", EVP_md5(), d, pl, 16, ambient);
  check_digest<phosg::SHA1>("SHA1", EVP_sha1(), d, pl, 20, ambient);
  check_digest<phosg::SHA256>("SHA256", EVP_sha256(), d, pl, 32, ambient);
  if (ambient) ctx().cls(cat("digest:ambient=", kAmbientNames[ambient]));
  uint32_t crc = phosg::crc32(pl.p, pl.n);
  VCHECK(crc == ref_crc(d), "crc32", "crc32 of a ", d.size(), "-byte input is ", crc, " but zlib gives ", ref_crc(d));
  uint32_t f32 = phosg::fnv1a32(pl.p, pl.n), f32s = phosg::fnv1a32(d);
  VCHECK(f32 == ref_fnv32(d, 0x811C9DC5u) && f32s == f32, "fnv1a32", "fnv1a32 of a ", d.size(), "-byte input is ", f32, " / ", f32s, " (string form) but the recurrence gives ", ref_fnv32(d, 0x811C9DC5u));
  uint64_t f64 = phosg::fnv1a64(pl.p, pl.n), f64s = phosg::fnv1a64(d);
  VCHECK(f64 == ref_fnv64(d, 0xCBF29CE484222325ULL) && f64s == f64, "fnv1a64", "fnv1a64 of a ", d.size(), "-byte input is ", f64, " / ", f64s, " (string form) but the recurrence gives ", ref_fnv64(d, 0xCBF29CE484222325ULL));
  VCHECK(phosg::FNV1A32_START == 0x811C9DC5u && phosg::FNV1A64_START == 0xCBF29CE484222325ULL, "fnv-offset-basis", "the start constants are not the published offset bases");
  if (d.size() >= 56) ctx().nontrivial(mix(mix(d.size(), c.u(1)), c.u(1) >= 4 ? hash_str(d) : 0));
  ctx().cls(cat("digest:", len_class(d.size())));
}

static void run_chain(const Case& c) {
  std::string d = make_data(c);
  size_t split = c.u(4);
  if (split > d.size()) throw std::logic_error("C10: split point outside the input");
  size_t mis = c.u(2) & 15;
  std::string a = d.substr(0, split), b = d.substr(split);
  Placed pa(a, mis), pb(b, (mis * 3 + 1) & 15), pd(d, mis);
  // prefix result as the seed of the suffix == hash of the concatenation
  uint32_t crc_ab = phosg::crc32(pb.p, pb.n, phosg::crc32(pa.p, pa.n));
  VCHECK(crc_ab == ref_crc(d), "crc32-chain", "crc32(b, crc32(a)) is ", crc_ab, " but zlib's crc32(a+b) is ", ref_crc(d), " (|a|=", a.size(), ", |b|=", b.size(), ")");
  VCHECK(phosg::crc32(pd.p, pd.n) == crc_ab, "crc32-chain", "crc32(a+b) differs from crc32(b, crc32(a)) (|a|=", a.size(), ", |b|=", b.size(), ")");
  uint32_t f32 = phosg::fnv1a32(pb.p, pb.n, phosg::fnv1a32(pa.p, pa.n));
  VCHECK(f32 == ref_fnv32(d, 0x811C9DC5u), "fnv1a32-chain", "fnv1a32(b, fnv1a32(a)) is ", f32, " but the recurrence over a+b gives ", ref_fnv32(d, 0x811C9DC5u), " (|a|=", a.size(), ", |b|=", b.size(), ")");
  VCHECK(phosg::fnv1a32(b, phosg::fnv1a32(a)) == f32, "fnv1a32-chain", "the std::string forms chain differently");
  uint64_t f64 = phosg::fnv1a64(pb.p, pb.n, phosg::fnv1a64(pa.p, pa.n));
  VCHECK(f64 == ref_fnv64(d, 0xCBF29CE484222325ULL), "fnv1a64-chain", "fnv1a64(b, fnv1a64(a)) is ", f64, " but the recurrence over a+b gives ", ref_fnv64(d, 0xCBF29CE484222325ULL), " (|a|=", a.size(), ", |b|=", b.size(), ")");
  VCHECK(phosg::fnv1a64(b, phosg::fnv1a64(a)) == f64, "fnv1a64-chain", "the std::string forms chain differently");
  // seeds other than the default: the seed is a running value of the same function
  uint32_t cs = static_cast<uint32_t>(c.u(5));
  VCHECK(phosg::crc32(pd.p, pd.n, cs) == ref_crc(d, cs), "crc32-seed", "crc32(data, seed=", cs, ") is ", phosg::crc32(pd.p, pd.n, cs), " but zlib continues that running value to ", ref_crc(d, cs));
  uint32_t s32 = static_cast<uint32_t>(c.u(6));
  VCHECK(phosg::fnv1a32(pd.p, pd.n, s32) == ref_fnv32(d, s32) && phosg::fnv1a32(d, s32) == ref_fnv32(d, s32), "fnv1a32-seed", "fnv1a32(data, seed=", s32, ") differs from the recurrence started at that seed");
  uint64_t s64 = c.u(7);
  VCHECK(phosg::fnv1a64(pd.p, pd.n, s64) == ref_fnv64(d, s64) && phosg::fnv1a64(d, s64) == ref_fnv64(d, s64), "fnv1a64-seed", "fnv1a64(data, seed=", s64, ") differs from the recurrence started at that seed");
  if (split > 0 && split < d.size()) ctx().nontrivial(mix(mix(d.size(), split), mix(c.u(1), c.u(1) >= 4 ? hash_str(d) : 0)));
  ctx().cls(cat("chain:", len_class(d.size())));
}

// published vectors; n = [index]
struct Vector {
  const char* text;
  const char* md5;
  const char* sha1;
  const char* sha256;
  uint32_t crc;
  uint32_t fnv32;
  uint64_t fnv64;
};
static const Vector kVectors[] = {
    // RFC 1321 A.5, FIPS 180-4 / NIST examples, CRC-32/ISO-HDLC check value, FNV-1a reference vectors (isthe.com test suite)
    {"", "d41d8cd98f00b204e9800998ecf8427e", "da39a3ee5e6b4b0d3255bfef95601890afd80709", "e3b0c44298fc1c149afbf4c8996fb92427ae41e4649b934ca495991b7852b855", 0x00000000u, 0x811c9dc5u, 0xcbf29ce484222325ULL},
    {"a", "0cc175b9c0f1b6a831c399e269772661", "86f7e437faa5a7fce15d1ddcb9eaeaea377667b8", "ca978112ca1bbdcafac231b39a23dc4da786eff8147c4e72b9807785afee48bb", 0xe8b7be43u, 0xe40c292cu, 0xaf63dc4c8601ec8cULL},
    {"abc", "900150983cd24fb0d6963f7d28e17f72", "a9993e364706816aba3e25717850c26c9cd0d89d", "ba7816bf8f01cfea414140de5dae2223b00361a396177a9cb410ff61f20015ad", 0x352441c2u, 0x1a47e90bu, 0xe71fa2190541574bULL},
    {"message digest", "f96b697d7cb7938d525a2f31aaf161d0", "c12252ceda8be8994d5fa0290a47231c1d16aae3", "f7846f55cf23e14eebeab5b4e1550cad5b509e3348fbc4efa3a1413d393cb650", 0x20159d7fu, 0, 0},
    {"abcdefghijklmnopqrstuvwxyz", "c3fcd3d76192e4007dfb496cca67e13b", "32d10c7b8cf96570ca04ce37f2a19d84240d3a89", "71c480df93d6ae2f1efad1447c66c9525e316218cf51fc8d9ed832f2daf18b73", 0x4c2750bdu, 0, 0},
    {"abcdbcdecdefdefgefghfghighijhijkijkljklmklmnlmnomnopnopq", "8215ef0796a20bcaaae116d3876c664a", "84983e441c3bd26ebaae4aa1f95129e5e54670f1", "248d6a61d20638b8e5c026930c3e6039a33ce45964ff2167f6ecedd419db06c1", 0x171a3f5fu, 0, 0},
    {"12345678901234567890123456789012345678901234567890123456789012345678901234567890", "57edf4a22be3c955ac49da2e2107b67a", "50abf5706a150990a08b2c5ea40fa0e585554732", "f371bc4a311f2b009eef952dd83ca80e2b60026c8e935592d0f9c308453c813e", 0x7ca94a72u, 0, 0},
    {"123456789", "25f9e794323b453885f5181f1b624d0b", "f7c3bc1d808e04732adf679965ccc34ca7ae3441", "15e2b0d3c33891ebb0f1ef609ec419420c20e320ce94c65fbc8c3312448eb225", 0xcbf43926u, 0xbb86b11cu, 0x06d5573923c6cdfcULL},
    {"foobar", "3858f62230ac3c915f300c664312c63f", "8843d7f92416211de9ebb963ff4ce28125932878", "c3ab8ff13720e8ad9047dd39466b3c8974e592c2fa383d4a3960714caef0c4f2", 0x9ef61f95u, 0xbf9cf968u, 0x85944171f73967e8ULL},
};
static void run_vectors(const Case& c) {
  const Vector& v = kVectors[c.u(0) % (sizeof(kVectors) / sizeof(kVectors[0]))];
  std::string t = v.text;
  uint64_t ambient = c.n.size() > 1 ? c.u(1) : 0; // the published hex strings hold whatever the process locale is
  std::string h_md5, h_sha1, h_sha256;
  {
    Ambient guard(ambient);
    h_md5 = phosg::MD5(t).hex();
    h_sha1 = phosg::SHA1(t).hex();
    h_sha256 = phosg::SHA256(t).hex();
  }
  std::string sfx = ambient ? cat(":", kAmbientNames[ambient]) : std::string();
  VCHECK(to_lower(h_md5) == v.md5, "vector:MD5" + sfx, "MD5(\"", t, "\") is ", h_md5);
  VCHECK(to_lower(h_sha1) == v.sha1, "vector:SHA1" + sfx, "SHA1(\"", t, "\") is ", h_sha1);
  VCHECK(to_lower(h_sha256) == v.sha256, "vector:SHA256" + sfx, "SHA256(\"", t, "\") is ", h_sha256);
  VCHECK(phosg::crc32(t.data(), t.size()) == v.crc, "vector:crc32", "crc32(\"", t, "\") is ", phosg::crc32(t.data(), t.size()));
  if (v.fnv64) {
    VCHECK(phosg::fnv1a32(t) == v.fnv32, "vector:fnv1a32", "fnv1a32(\"", t, "\") is ", phosg::fnv1a32(t));
    VCHECK(phosg::fnv1a64(t) == v.fnv64, "vector:fnv1a64", "fnv1a64(\"", t, "\") is ", phosg::fnv1a64(t));
  }
  // the references themselves must reproduce the published values (guards the oracle)
  VCHECK(lower_hex(evp(EVP_md5(), t.data(), t.size())) == v.md5 && lower_hex(evp(EVP_sha1(), t.data(), t.size())) == v.sha1 && lower_hex(evp(EVP_sha256(), t.data(), t.size())) == v.sha256 && ref_crc(t) == v.crc,
      "reference-self-test", "the reference implementations disagree with the published vector for \"", t, "\"");
  ctx().nontrivial_case();
}


// ---------------------------------------------------------------- inputs of 2^29 bytes and more
//
// The length field of the MD5/SHA padding is the bit count: at 2^29 bytes it no longer fits 32 bits, so a
// length computed in 32 bits (or split into words wrongly) only shows on inputs this large. The input is a private
// anonymous mapping of zero pages patterned sparsely (one byte per page), so it costs little real memory.
// n = [size, stride_seed]
static void run_huge(const Case& c) {
  uint64_t size = c.u(0);
  if (size < (1ULL << 29) - 64 || size > (1ULL << 29) + (1ULL << 20)) throw std::logic_error("C10: huge size outside the domain");
  void* m = mmap(nullptr, size, PROT_READ | PROT_WRITE, MAP_PRIVATE | MAP_ANONYMOUS | MAP_NORESERVE, -1, 0);
  if (m == MAP_FAILED) throw std::logic_error("C10: cannot map the input");
  struct Unmap {
    void* p;
    size_t n;
    ~Unmap() { munmap(p, n); }
  } unmap{m, size};
  char* p = static_cast<char*>(m);
  for (uint64_t off = c.u(1) % 4096; off < size; off += 4096 * 257) p[off] = static_cast<char>(off >> 12 | 1);
  p[size - 1] = 0x5A;
  std::string e_md5 = evp(EVP_md5(), p, size), e_sha1 = evp(EVP_sha1(), p, size), e_sha256 = evp(EVP_sha256(), p, size);
  std::string a = phosg::MD5(p, size).bin(), b = phosg::SHA1(p, size).bin(), d = phosg::SHA256(p, size).bin();
  VCHECK(a == e_md5, "digest-huge:MD5", "MD5 of a ", size, "-byte input is ", lower_hex(a), " but the standard digest is ", lower_hex(e_md5));
  VCHECK(b == e_sha1, "digest-huge:SHA1", "SHA1 of a ", size, "-byte input is ", lower_hex(b), " but the standard digest is ", lower_hex(e_sha1));
  VCHECK(d == e_sha256, "digest-huge:SHA256", "SHA256 of a ", size, "-byte input is ", lower_hex(d), " but the standard digest is ", lower_hex(e_sha256));
  uint32_t crc = phosg::crc32(p, size);
  uint32_t rc = static_cast<uint32_t>(::crc32(0, reinterpret_cast<const Bytef*>(p), static_cast<uInt>(size)));
  VCHECK(crc == rc, "crc32-huge", "crc32 of a ", size, "-byte input is ", crc, " but zlib gives ", rc);
  ctx().nontrivial(mix(0x48554745, size));
  ctx().cls("huge:>=2^29-bytes");
}
static void enum_huge(Enum& e) {
  // one size per shard slot so the cost spreads; quick: just past 2^29, thorough: also just below and 2^29 exactly
  std::vector<uint64_t> sizes = {(1ULL << 29) + 3};
  if (e.thorough()) {
    sizes.push_back((1ULL << 29) - 1);
    sizes.push_back(1ULL << 29);
    sizes.push_back((1ULL << 29) + 64 * 1024 + 55);
  }
  for (size_t i = 0; i < sizes.size(); i++)
    if (e.mine(i + 1)) e.exec(Case("huge").N(sizes[i]).N(17 * i + 5));
  e.complete(cat(sizes.size(), " inputs around 2^29 bytes (where the bit length of the padding exceeds 32 bits)"));
}

// ---------------------------------------------------------------- concurrent callers
//
// The hash functions are pure: calls running at the same time on different inputs must each return the digest of
// their own input (a shared scratch buffer would make them corrupt each other). n = [threads, len, seed, reps]
static void run_concurrent(const Case& c) {
  uint64_t threads = c.u(0), len = c.u(1), seed = c.u(2), reps = c.u(3);
  if (threads < 2 || threads > 8 || len > (1 << 16) || reps > 2000) throw std::logic_error("C10: concurrent case outside the domain");
  struct Job {
    std::string data, md5, sha1, sha256;
    uint32_t crc, f32;
    uint64_t f64;
    std::string failure;
  };
  std::vector<Job> jobs(threads);
  for (uint64_t t = 0; t < threads; t++) {
    Job& j = jobs[t];
    j.data = vg::expand(seed + t * 7919, len + t);
    j.md5 = evp(EVP_md5(), j.data.data(), j.data.size());
    j.sha1 = evp(EVP_sha1(), j.data.data(), j.data.size());
    j.sha256 = evp(EVP_sha256(), j.data.data(), j.data.size());
    j.crc = ref_crc(j.data);
    j.f32 = ref_fnv32(j.data, 0x811C9DC5u);
    j.f64 = ref_fnv64(j.data, 0xCBF29CE484222325ULL);
  }
  std::atomic<int> ready(0);
  std::vector<std::thread> ts;
  for (uint64_t t = 0; t < threads; t++) {
    ts.emplace_back([&, t] {
      Job& j = jobs[t];
      ready.fetch_add(1);
      while (ready.load() < static_cast<int>(threads)) {
      }
      for (uint64_t r = 0; r < reps && j.failure.empty(); r++) {
        if (phosg::MD5(j.data).bin() != j.md5) j.failure = "MD5";
        else if (phosg::SHA1(j.data).bin() != j.sha1) j.failure = "SHA1";
        else if (phosg::SHA256(j.data).bin() != j.sha256) j.failure = "SHA256";
        else if (phosg::crc32(j.data.data(), j.data.size()) != j.crc) j.failure = "crc32";
        else if (phosg::fnv1a32(j.data) != j.f32) j.failure = "fnv1a32";
        else if (phosg::fnv1a64(j.data) != j.f64) j.failure = "fnv1a64";
      }
    });
  }
  for (auto& t : ts) t.join();
  for (uint64_t t = 0; t < threads; t++)
    VCHECK(jobs[t].failure.empty(), cat("concurrent:", jobs[t].failure), jobs[t].failure, " returned a wrong result for a ", jobs[t].data.size(), "-byte input while ", threads - 1, " other threads were hashing other inputs");
  ctx().nontrivial_case();
  ctx().cls("concurrent-callers");
}
static Case gen_concurrent() {
  uint64_t len = vg::chance(1, 2) ? vg::below(300) : vg::scaled(16384);
  return Case("concurrent").N(2 + vg::below(5)).N(len).N(vg::u64()).N(len > 4096 ? 40 : 300);
}

// ---------------------------------------------------------------- renderings of a chosen digest value
//
// bin() and hex() are const members without arguments of structs whose only data are the PUBLIC state words (a0..d0 / h[]):
// they are functions of the digest value (and, by mistake, of ambient state). Which value a message produces cannot be chosen,
// but the state words of an object can be assigned: the object hashed from "abc" gets the words of a chosen digest (MD5: four
// little-endian words, SHA-1 / SHA-256: big-endian words - the serialisation the standards define) and must render it:
// bin() = the chosen bytes, hex() = their 2n hex digits. This reaches value classes no search can (SHA-1 / SHA-256 digests
// made of printable bytes only, all-zero, all-0xFF ...). It treats every state as the digest of some message - for a
// cryptographic hash every value is believed to be one, but this subcheck does not exhibit the message; the `digest` subcheck
// does for the classes a search reaches.   n = [algorithm 0 MD5 / 1 SHA-1 / 2 SHA-256, ambient], s = [digest bytes]
static const size_t kDigestLen[3] = {16, 20, 32};
static const char* kAlgoNames[3] = {"MD5", "SHA1", "SHA256"};
static uint32_t word_le(const std::string& d, size_t k) {
  return static_cast<uint32_t>(static_cast<unsigned char>(d[4 * k])) | static_cast<uint32_t>(static_cast<unsigned char>(d[4 * k + 1])) << 8 |
      static_cast<uint32_t>(static_cast<unsigned char>(d[4 * k + 2])) << 16 | static_cast<uint32_t>(static_cast<unsigned char>(d[4 * k + 3])) << 24;
}
static uint32_t word_be(const std::string& d, size_t k) { return __builtin_bswap32(word_le(d, k)); }
// The state words are public members in /repo (MD5: a0..d0, SHA-1 / SHA-256: h[]) but no property names them: a tree that keeps them
// elsewhere (an array for MD5 too, a base class, private) is handled by whichever form compiles; when none does the subcheck has no
// way to choose a digest value and its cases are excluded (counted), not failed.
template <typename H>
static bool set_words_le4(H& h, const std::string& dg) {
  if constexpr (requires { h.a0 = 0u; h.b0 = 0u; h.c0 = 0u; h.d0 = 0u; }) {
    h.a0 = word_le(dg, 0);
    h.b0 = word_le(dg, 1);
    h.c0 = word_le(dg, 2);
    h.d0 = word_le(dg, 3);
    return true;
  } else if constexpr (requires { h.h[3] = 0u; }) {
    for (size_t k = 0; k < 4; k++) h.h[k] = word_le(dg, k);
    return true;
  } else {
    return false;
  }
}
template <typename H>
static bool set_words_be(H& h, const std::string& dg, size_t n) {
  if constexpr (requires { h.h[0] = 0u; }) {
    for (size_t k = 0; k < n; k++) h.h[k] = word_be(dg, k);
    return true;
  } else {
    return false;
  }
}

static void run_render(const Case& c) {
  uint64_t algo = c.u(0), ambient = c.u(1);
  const std::string& dg = c.str(0);
  if (algo > 2 || ambient >= kAmbientModes || dg.size() != kDigestLen[algo]) throw std::logic_error("C10: render case outside the domain");
  const char* name = kAlgoNames[algo];
  bool settable = true;
  auto render = [&](uint64_t amb, std::string& bin, std::string& hx) {
    Ambient guard(amb);
    switch (algo) {
      case 0: {
        phosg::MD5 h("abc", 3);
        settable = set_words_le4(h, dg);
        bin = h.bin();
        hx = h.hex();
        break;
      }
      case 1: {
        phosg::SHA1 h("abc", 3);
        settable = set_words_be(h, dg, 5);
        bin = h.bin();
        hx = h.hex();
        break;
      }
      default: {
        phosg::SHA256 h("abc", 3);
        settable = set_words_be(h, dg, 8);
        bin = h.bin();
        hx = h.hex();
      }
    }
  };
  // untouched process state first, so that a defect that does not depend on the ambient state keeps its plain signature
  for (uint64_t amb : {uint64_t(0), ambient}) {
    std::string bin, hx;
    render(amb, bin, hx);
    if (!settable) {
      ctx().exclude(cat("render: the state words of ", name, " are not assignable members in this tree"));
      return;
    }
    std::string sfx = amb ? cat(":", kAmbientNames[amb]) : std::string();
    VCHECK(bin == dg, cat("render-bin:", name, sfx), name, "::bin() of the state ", lower_hex(dg), " is ", lower_hex(bin));
    VCHECK(hx.size() == 2 * dg.size() && to_lower(hx) == lower_hex(dg), cat("render-hex:", name, sfx), name, "::hex() of the digest value ", lower_hex(dg), " is '", hx, "'");
    for (char ch : hx) VCHECK((ch >= '0' && ch <= '9') || (ch >= 'a' && ch <= 'f') || (ch >= 'A' && ch <= 'F'), cat("render-hex:", name, sfx), name, "::hex() holds a non-hex character");
    if (!ambient) break;
  }
  std::vector<const char*> cl = digest_classes(dg);
  for (const char* k : cl) ctx().cls(cat("render:", name, ":", k));
  if (!cl.empty()) ctx().nontrivial_case();
}
// byte classes a digest value is drawn from
static const std::string& byte_class(unsigned k) {
  static const std::vector<std::string> cls = [] {
    std::vector<std::string> v(8);
    for (int b = 0x20; b <= 0x7E; b++) v[0] += static_cast<char>(b); // printable ASCII
    v[1] = v[0] + "\t\n\r"; // ... and blanks
    v[2] = "0123456789ABCDEFGHIJKLMNOPQRSTUVWXYZabcdefghijklmnopqrstuvwxyz";
    for (int b = 0; b < 0x20; b++) v[3] += static_cast<char>(b); // control
    for (int b = 0x80; b < 0x100; b++) v[4] += static_cast<char>(b); // high
    v[5] = std::string("\x00\x01\x09\x0A\x0F\x10", 6); // leading zero nibbles
    v[6] = std::string("\x00\xFF\x7F\x80\x20\x7E\x22\x5C\x25", 9); // boundaries, quote, backslash, percent
    v[7] = "0123456789"; // decimal digits as bytes
    return v;
  }();
  return cls[k % cls.size()];
}
static Case gen_render() {
  uint64_t algo = vg::below(3);
  size_t n = kDigestLen[algo];
  std::string dg;
  switch (vg::below(4)) {
    case 0: dg = vg::bytes(n); break; // uniform
    case 1: dg = vg::bytes_from(byte_class(vg::below(8)), n); break; // all bytes of one class
    case 2: { // one class with one or two bytes from anywhere
      dg = vg::bytes_from(byte_class(vg::below(8)), n);
      for (size_t k = 1 + vg::below(2); k > 0; k--) dg[vg::below(n)] = static_cast<char>(vg::below(256));
      break;
    }
    default: { // each 32-bit word from its own class (a rendering works word by word)
      for (size_t w = 0; w < n / 4; w++) dg += vg::chance(1, 3) ? vg::bytes(4) : vg::bytes_from(byte_class(vg::below(8)), 4);
    }
  }
  return Case("render").N(algo).N(vg::chance(1, 3) ? 1 + vg::below(kAmbientModes - 1) : 0).S(dg);
}
static void enum_render(Enum& e) {
  uint64_t idx = 0;
  for (uint64_t algo = 0; algo < 3; algo++) {
    size_t n = kDigestLen[algo];
    // all bytes equal, under every ambient state
    for (int v = 0; v < 256 && !e.stop; v++, idx++) {
      if (!e.mine(idx)) continue;
      for (uint64_t ambient = 0; ambient < kAmbientModes; ambient++) e.exec(Case("render").N(algo).N(ambient).S(std::string(n, static_cast<char>(v))));
    }
    // a uniform fill with one position set to every byte value
    for (unsigned char fill : {0x00, 0x0A, 0x20, 0x30, 0x41, 0x7E, 0x7F, 0x80, 0xFF})
      for (size_t pos = 0; pos < n && !e.stop; pos++, idx++) {
        if (!e.mine(idx)) continue;
        for (int v = 0; v < 256; v++) {
          std::string dg(n, static_cast<char>(fill));
          dg[pos] = static_cast<char>(v);
          e.exec(Case("render").N(algo).N((pos + v) % 7 == 0 ? 1 + (v % (kAmbientModes - 1)) : 0).S(dg));
        }
      }
  }
  e.complete("MD5 / SHA-1 / SHA-256 objects whose state words are set to a chosen digest value: all bytes equal (256 values x every ambient locale state); nine uniform fills with one position set to every byte value");
}

// ---------------------------------------------------------------- generators

static uint64_t gen_len() {
  switch (vg::below(10)) {
    case 0:
    case 1: return vg::below(301);
    case 2:
    case 3: { // around a block boundary: 64k + {-10..+2}
      uint64_t k = 1 + vg::below(vg::chance(1, 4) ? 1024 : 12);
      return k * 64 - 10 + vg::below(13);
    }
    case 4:
    case 5:
    case 6: return vg::scaled(4096);
    case 7:
    case 8: return vg::scaled(65536);
    default: return ctx().thorough() || vg::chance(1, 4) ? vg::scaled(1u << 20) : vg::scaled(65536);
  }
}
static Case gen_common(const char* name) {
  Case c(name);
  uint64_t len = gen_len();
  uint64_t pattern = vg::pick<uint64_t>({0, 1, 2, 3, 4, 4, 4, 5, 5});
  if (pattern == 5 && len > 4096) pattern = 4; // explicit blobs stay small (they are the replay file)
  uint64_t split = len ? vg::below(len + 1) : 0;
  if (len && vg::chance(1, 3)) { // splits at and around block boundaries
    uint64_t s = (vg::below(len / 64 + 1)) * 64 + vg::below(3);
    if (s >= 1) s -= 1;
    if (s <= len) split = s;
  }
  c.N(len).N(pattern).N(vg::below(16)).N(vg::u64()).N(split).N(vg::chance(1, 4) ? 0 : vg::interesting64() & 0xFFFFFFFFu).N(vg::interesting64() & 0xFFFFFFFFu).N(vg::interesting64());
  // ambient process state (digest only): a third of the inputs of up to 4 KiB are also hashed and rendered under another locale
  c.N(len <= 4096 && vg::chance(1, 3) ? 1 + vg::below(kAmbientModes - 1) : 0);
  if (pattern == 5) c.S(vg::bytes(len));
  return c;
}
static Case gen_digest() { return gen_common("digest"); }
static Case gen_chain() { return gen_common("chain"); }

// ---------------------------------------------------------------- enumerators

static void enum_digest(Enum& e) {
  uint64_t idx = 0;
  uint64_t maxlen = e.thorough() ? 1100 : 600;
  for (uint64_t len = 0; len <= maxlen && !e.stop; len++)
    for (uint64_t pattern = 0; pattern < 4; pattern++, idx++) {
      if (!e.mine(idx)) continue;
      e.exec(Case("digest").N(len).N(pattern).N((len + pattern) & 15).N(0).N(0).N(0).N(0).N(0));
    }
  // every length 0..300 under every ambient locale state (xorshift pattern)
  for (uint64_t len = 0; len <= 300 && !e.stop; len++, idx++) {
    if (!e.mine(idx)) continue;
    for (uint64_t ambient = 1; ambient < kAmbientModes; ambient++)
      e.exec(Case("digest").N(len).N(3).N((len + ambient) & 15).N(0).N(0).N(0).N(0).N(0).N(ambient));
  }
  // Digest-directed classes. hex()/bin() are functions of the digest VALUE, and the classes of that value (all bytes printable
  // ASCII, all below / above 0x80, hex text made of decimal digits only, leading zeros, zero bytes ...) are not reachable by
  // choosing lengths or contents: a message whose 16 digest bytes are all printable turns up once in 4.7 million. They are
  // reachable by SEARCH with the independent reference: the fixed candidate messages "c10/<i>" are hashed with OpenSSL only,
  // and those whose reference digest falls into one of the rare classes of digest_classes() go through the complete digest
  // oracle. 2^25 candidates (thorough 2^28) for MD5, a quarter of them for SHA-1 and SHA-256. (all-printable needs 2e8
  // candidates for SHA-1 and 2e13 for SHA-256: out of reach of a search; the `render` subcheck covers those.)
  uint64_t blocks = e.thorough() ? 4096 : 512, sha_blocks = blocks / 4, candidates = 0, hits = 0;
  for (uint64_t b = 0; b < blocks && !e.stop; b++, idx++) {
    if (!e.mine(idx)) continue;
    e.journal_block(Case("digest").N(0).N(5).N(0).N(0).N(0).N(0).N(0).N(0).N(0).S(cat("c10/", b << 16)));
    for (uint64_t i = b << 16; i < ((b + 1) << 16) && !e.stop; i++) {
      char msg[32];
      int n = snprintf(msg, sizeof(msg), "c10/%llu", static_cast<unsigned long long>(i));
      unsigned char dg[32];
      MD5_CTX m5;
      MD5_Init(&m5);
      MD5_Update(&m5, msg, n);
      MD5_Final(dg, &m5);
      bool hit = digest_class_mask(dg, 16) != 0;
      if (b < sha_blocks && !hit) {
        SHA_CTX s1;
        SHA1_Init(&s1);
        SHA1_Update(&s1, msg, n);
        SHA1_Final(dg, &s1);
        hit = digest_class_mask(dg, 20) != 0;
        if (!hit) {
          SHA256_CTX s2;
          SHA256_Init(&s2);
          SHA256_Update(&s2, msg, n);
          SHA256_Final(dg, &s2);
          hit = digest_class_mask(dg, 32) != 0;
        }
      }
      if (hit) {
        hits++;
        e.exec(Case("digest").N(n).N(5).N(i & 15).N(0).N(0).N(0).N(0).N(0).N(0).S(std::string(msg, n)));
      }
    }
    candidates += 1 << 16;
  }
  e.x.cls("digest-search:candidate messages hashed with the reference only", candidates);
  e.x.cls("digest-search:messages with a digest in a rare value class (run through the oracle)", hits);
  e.complete(cat("every length 0..", maxlen, " x {zeros, 0xFF, i mod 251, xorshift keyed by the length} (every padding case around the 55/56/63/64-byte boundaries of the first ", maxlen / 64,
      " blocks); every length 0..300 under each of the ", kAmbientModes - 1, " ambient locale states; every message \"c10/<i>\", i < ", blocks << 16, " (SHA-1/SHA-256: i < ", sha_blocks << 16,
      ") whose reference digest is in a rare value class (all bytes printable / letters+digits / control / below 0x80 / from 0x80, decimal-only hex text, >=5 leading zero nibbles, every word starting with a zero nibble, >=3 zero bytes)"));
}
static void enum_chain(Enum& e) {
  uint64_t idx = 0;
  for (uint64_t len = 0; len <= 300 && !e.stop; len++) {
    for (uint64_t pattern = 2; pattern < 4; pattern++, idx++) {
      if (!e.mine(idx)) continue;
      for (uint64_t split = 0; split <= len; split++)
        e.exec(Case("chain").N(len).N(pattern).N(split & 15).N(0).N(split).N(0xFFFFFFFFu - static_cast<uint32_t>(len * 2654435761u)).N(static_cast<uint32_t>(split * 40503u + len)).N(mix(len, split)));
    }
  }
  e.complete("every split point of every input of length 0..300 x {i mod 251, xorshift keyed by the length}, with a length/split-derived non-default seed for crc32 / fnv1a32 / fnv1a64");
}
static void enum_vectors(Enum& e) {
  for (uint64_t i = 0; i < sizeof(kVectors) / sizeof(kVectors[0]); i++)
    if (e.mine(i))
      for (uint64_t ambient = 0; ambient < kAmbientModes; ambient++) e.exec(Case("vectors").N(i).N(ambient));
  e.complete("the published test vectors (RFC 1321 suite, FIPS 180 examples, CRC-32 check value, FNV-1a reference values), each under every ambient locale state");
}

// ---------------------------------------------------------------- ambient state: after main() (static destruction, atexit)
//
// The hash functions are plain functions of their arguments with no "no longer usable" phase: a program may call them
// while it shuts down - a process-lifetime journal / cache / log object that writes a checksummed footer from its
// destructor, an atexit handler that prints a digest - i.e. AFTER main() has returned. This is the mirror image of
// "before main()" (C08's before_main). Whatever the functions set up lazily on first use (function-local statics) was
// constructed after the objects below and is therefore destroyed BEFORE their handlers run.
//   * `g_after_main` is a namespace-scope object of this translation unit, which is linked before the library objects:
//     it is constructed before the library's own namespace-scope objects and before anything first used inside main(),
//     hence destroyed after all of them. Its constructor calls no hash function (a function-local static first used
//     there would outlive the object and hide the problem).
//   * an atexit handler is registered as the first statement of main(), before any hash function was called.
// prime() - called from main() before the subchecks, also on the replay path - computes the expected values of every
// function on a few fixed inputs with the reference implementations (zlib, OpenSSL, the FNV recurrence) and calls every
// phosg function once, so that each one's first use is inside main(). Both handlers call every function again and
// compare. A handler cannot throw: on a mismatch it prints `VERIF-ABORT: after-main-<function>` and _exit(79)s; the
// driver reports a shard that dies outside a case as `c10_hash/crash:abort:after-main-<function>` (and ASan reports a
// use-after-free by itself). On success it is silent.
namespace after_main {

struct Expected {
  std::string input;
  uint32_t crc, crc_chained, f32;
  uint64_t f64;
  std::string md5, sha1, sha256; // binary digests
};
struct State {
  bool primed = false;
  std::vector<Expected> exp;
  ~State(); // the "destructor of a static object constructed before the first call"
};
static State g_after_main;

static std::string input(size_t k) {
  switch (k) {
    case 0: return std::string();
    case 1: return "a";
    case 2: return "123456789";
    case 3: {
      std::string s;
      for (int b = 0; b < 256; b++) s.push_back(static_cast<char>(b));
      return s;
    }
    case 4: return std::string(55, 'x') + std::string(9, '\0'); // exactly one block
    default: {
      std::string s(5000, '\0');
      for (size_t i = 0; i < s.size(); i++) s[i] = static_cast<char>((i * 131) % 251);
      return s;
    }
  }
}
constexpr size_t kNumInputs = 6;
constexpr uint32_t kSeed32 = 0x2F0B4A17u;

[[noreturn]] static void die(const char* phase, const char* fn, const Expected& e, const std::string& got, const std::string& want) {
  // async-signal-safe enough: one formatted write to stderr, then _exit (no further destructors, no exception)
  fprintf(stderr, "\nVERIF-ABORT: after-main-%s (%s called %s on a %zu-byte input returned %s, the reference value is %s; the same call was correct inside main())\n",
      fn, fn, phase, e.input.size(), got.c_str(), want.c_str());
  fflush(stderr);
  _exit(79);
}
static std::string h32(uint32_t v) {
  char b[16];
  snprintf(b, sizeof(b), "%08X", v);
  return b;
}
static std::string h64(uint64_t v) {
  char b[24];
  snprintf(b, sizeof(b), "%016llX", static_cast<unsigned long long>(v));
  return b;
}

// every function, every fixed input; `phase` = nullptr: first use inside main() (results not compared here - the subchecks do that)
static void call_all(const char* phase) {
  for (const Expected& e : g_after_main.exp) {
    const std::string& d = e.input;
    size_t half = d.size() / 2;
    uint32_t crc = phosg::crc32(d.data(), d.size());
    uint32_t crc_ch = phosg::crc32(d.data() + half, d.size() - half, phosg::crc32(d.data(), half, kSeed32));
    uint32_t f32 = phosg::fnv1a32(d), f32p = phosg::fnv1a32(d.data() + half, d.size() - half, phosg::fnv1a32(d.data(), half));
    uint64_t f64 = phosg::fnv1a64(d), f64p = phosg::fnv1a64(d.data() + half, d.size() - half, phosg::fnv1a64(d.data(), half));
    phosg::MD5 m(d);
    phosg::SHA1 s1(d.data(), d.size());
    phosg::SHA256 s2(d);
    std::string mb = m.bin(), mh = to_lower(m.hex()), s1b = s1.bin(), s1h = to_lower(s1.hex()), s2b = s2.bin(), s2h = to_lower(s2.hex());
    if (!phase) continue;
    if (crc != e.crc) die(phase, "crc32", e, h32(crc), h32(e.crc));
    if (crc_ch != e.crc_chained) die(phase, "crc32", e, h32(crc_ch) + " (chained)", h32(e.crc_chained));
    if (f32 != e.f32) die(phase, "fnv1a32", e, h32(f32), h32(e.f32));
    if (f32p != e.f32) die(phase, "fnv1a32", e, h32(f32p) + " (chained)", h32(e.f32));
    if (f64 != e.f64) die(phase, "fnv1a64", e, h64(f64), h64(e.f64));
    if (f64p != e.f64) die(phase, "fnv1a64", e, h64(f64p) + " (chained)", h64(e.f64));
    if (mb != e.md5) die(phase, "MD5-bin", e, lower_hex(mb), lower_hex(e.md5));
    if (mh != lower_hex(e.md5)) die(phase, "MD5-hex", e, mh, lower_hex(e.md5));
    if (s1b != e.sha1) die(phase, "SHA1-bin", e, lower_hex(s1b), lower_hex(e.sha1));
    if (s1h != lower_hex(e.sha1)) die(phase, "SHA1-hex", e, s1h, lower_hex(e.sha1));
    if (s2b != e.sha256) die(phase, "SHA256-bin", e, lower_hex(s2b), lower_hex(e.sha256));
    if (s2h != lower_hex(e.sha256)) die(phase, "SHA256-hex", e, s2h, lower_hex(e.sha256));
  }
}

State::~State() {
  if (primed) call_all("from the destructor of a namespace-scope object constructed before main() (static destruction, after main() returned)");
}
static void atexit_handler() {
  if (g_after_main.primed) call_all("from an atexit handler registered at the start of main() (after main() returned)");
}

// first statement of main(): nothing of the library has run yet
static void arm() {
  if (atexit(atexit_handler) != 0) throw std::logic_error("C10: atexit failed");
}
// expected values from the reference implementations (they are not usable during shutdown themselves: OpenSSL tears
// itself down from its own atexit handler), then the first use of every phosg function - inside main()
static void prime() {
  State& st = g_after_main;
  for (size_t k = 0; k < kNumInputs; k++) {
    Expected e;
    e.input = input(k);
    const std::string& d = e.input;
    size_t half = d.size() / 2;
    e.crc = ref_crc(d);
    e.crc_chained = ref_crc(d.substr(half), ref_crc(d.substr(0, half), kSeed32));
    e.f32 = ref_fnv32(d, 0x811C9DC5u);
    e.f64 = ref_fnv64(d, 0xCBF29CE484222325ULL);
    e.md5 = evp(EVP_md5(), d.data(), d.size());
    e.sha1 = evp(EVP_sha1(), d.data(), d.size());
    e.sha256 = evp(EVP_sha256(), d.data(), d.size());
    st.exp.push_back(std::move(e));
  }
  call_all(nullptr);
  st.primed = true;
}

} // namespace after_main

int main(int argc, char** argv) {
  after_main::arm();
  after_main::prime();
  std::vector<SubCheck> checks;
  checks.push_back({"vectors", run_vectors, nullptr, 0, 0, 100, enum_vectors});
  checks.push_back({"digest", run_digest, gen_digest, 100000, 600000, 100, enum_digest});
  checks.push_back({"chain", run_chain, gen_chain, 100000, 600000, 100, enum_chain});
  checks.push_back({"render", run_render, gen_render, 40000, 400000, 100, enum_render});
  checks.push_back({"concurrent", run_concurrent, gen_concurrent, 400, 4000, 100, nullptr});
  checks.push_back({"huge", run_huge, nullptr, 0, 0, 100, enum_huge});
  return main_(argc, argv, checks);
}
