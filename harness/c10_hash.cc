// C10 - MD5 / SHA-1 / SHA-256 / CRC-32 / FNV-1a equal their published definitions and chain through the seed.
//
// References (all independent of phosg): OpenSSL libcrypto (EVP one-shot digests), zlib's crc32, the FNV-1a
// recurrence written out here, and the published test vectors of RFC 1321, FIPS 180-4, the CRC catalogue and the
// FNV specification. oracle/c10_hashes.py repeats the comparison against Python's hashlib / zlib through a serve
// shim (second, differently built reference).
//
// Case encoding (digest, chain): n = [len, pattern, misalignment, seed, split, crc_seed, fnv32_seed, fnv64_seed],
// pattern 0 zeros, 1 0xFF, 2 i mod 251, 3 xorshift keyed by the length, 4 vg::expand(seed, len), 5 the blob s[0].
#include <openssl/evp.h>
#include <sys/mman.h>
#include <zlib.h>

#include <atomic>
#include <thread>

#include <phosg/Hash.hh>

#include "verif.hh"

using namespace verif;

static std::string make_data(const Case& c) {
  uint64_t len = c.u(0), pattern = c.u(1);
  if (pattern == 5) return c.str(0);
  if (len > (1ULL << 21)) throw std::logic_error("C10: length outside the domain");
  std::string d(len, '\0');
  switch (pattern) {
    case 0: break;
    case 1: d.assign(len, '\xFF'); break;
    case 2:
      for (uint64_t i = 0; i < len; i++) d[i] = static_cast<char>(i % 251);
      break;
    case 3: {
      uint64_t s = 0x9E3779B97F4A7C15ULL ^ (len * 0x100000001B3ULL);
      for (uint64_t i = 0; i < len; i++) {
        s ^= s << 13;
        s ^= s >> 7;
        s ^= s << 17;
        d[i] = static_cast<char>(s >> 32);
      }
      break;
    }
    case 4: d = vg::expand(c.u(3), len); break;
    default: throw std::logic_error("C10: unknown pattern");
  }
  return d;
}

static std::string evp(const EVP_MD* md, const void* p, size_t n) {
  unsigned char out[EVP_MAX_MD_SIZE];
  unsigned int outlen = 0;
  if (EVP_Digest(p, n, out, &outlen, md, nullptr) != 1) throw std::logic_error("C10: EVP_Digest failed");
  return std::string(reinterpret_cast<char*>(out), outlen);
}
static std::string lower_hex(const std::string& b) {
  static const char* hx = "0123456789abcdef";
  std::string r;
  for (unsigned char ch : b) {
    r += hx[ch >> 4];
    r += hx[ch & 15];
  }
  return r;
}
static std::string to_lower(std::string s) {
  for (char& ch : s)
    if (ch >= 'A' && ch <= 'F') ch = static_cast<char>(ch - 'A' + 'a');
  return s;
}
static uint32_t ref_fnv32(const std::string& d, uint32_t h) {
  for (unsigned char ch : d) {
    h ^= ch;
    h *= 16777619u; // FNV_prime (32 bit) = 2^24 + 2^8 + 0x93
  }
  return h;
}
static uint64_t ref_fnv64(const std::string& d, uint64_t h) {
  for (unsigned char ch : d) {
    h ^= ch;
    h *= 1099511628211ULL; // FNV_prime (64 bit) = 2^40 + 2^8 + 0xb3
  }
  return h;
}
static uint32_t ref_crc(const std::string& d, uint32_t running = 0) {
  // zlib takes 32-bit lengths per call
  uLong c = running;
  size_t off = 0;
  while (off < d.size()) {
    size_t n = std::min<size_t>(d.size() - off, 1u << 30);
    c = ::crc32(c, reinterpret_cast<const Bytef*>(d.data() + off), static_cast<uInt>(n));
    off += n;
  }
  return static_cast<uint32_t>(c);
}

static const char* len_class(size_t len) {
  return len < 56 ? "len<56" : len < 64 ? "len 56..63" : len <= 300 ? "len 64..300" : len <= 4096 ? "len<=4K" : len <= 65536 ? "len<=64K" : "len<=1M";
}

// the data is handed to phosg at a chosen misalignment inside an exactly sized heap block (ASan sees any over-read)
struct Placed {
  std::vector<char> block;
  const char* p;
  size_t n;
  Placed(const std::string& d, size_t mis) : block(d.size() + mis), p(block.data() + mis), n(d.size()) {
    if (n) memcpy(block.data() + mis, d.data(), n);
  }
};

template <typename H>
static void check_digest(const char* name, const EVP_MD* md, const std::string& d, const Placed& pl, size_t digest_len) {
  std::string exp = evp(md, d.data(), d.size());
  H a(pl.p, pl.n);
  std::string bin = a.bin();
  VCHECK(bin.size() == digest_len, cat("bin-size:", name), name, "::bin() has ", bin.size(), " bytes for a ", d.size(), "-byte input");
  VCHECK(bin == exp, cat("digest:", name), name, " of a ", d.size(), "-byte input is ", lower_hex(bin), " but the standard digest is ", lower_hex(exp));
  std::string hx = a.hex();
  VCHECK(hx.size() == 2 * digest_len && to_lower(hx) == lower_hex(bin), cat("hex:", name), name, "::hex() is '", hx, "' but bin() is ", lower_hex(bin));
  for (char ch : hx) VCHECK((ch >= '0' && ch <= '9') || (ch >= 'a' && ch <= 'f') || (ch >= 'A' && ch <= 'F'), cat("hex:", name), name, "::hex() holds a non-hex character");
  H b(d);
  VCHECK(b.bin() == exp && b.hex() == hx, cat("string-ctor:", name), name, "(std::string) differs from ", name, "(ptr, size) for a ", d.size(), "-byte input");
}

static void run_digest(const Case& c) {
  std::string d = make_data(c);
  size_t mis = c.u(2) & 15;
  Placed pl(d, mis);
  check_digest<phosg::MD5>("MD5", EVP_md5(), d, pl, 16);
  check_digest<phosg::SHA1>("SHA1", EVP_sha1(), d, pl, 20);
  check_digest<phosg::SHA256>("SHA256", EVP_sha256(), d, pl, 32);
  uint32_t crc = phosg::crc32(pl.p, pl.n);
  VCHECK(crc == ref_crc(d), "crc32", "crc32 of a ", d.size(), "-byte input is ", crc, " but zlib gives ", ref_crc(d));
  uint32_t f32 = phosg::fnv1a32(pl.p, pl.n), f32s = phosg::fnv1a32(d);
  VCHECK(f32 == ref_fnv32(d, 0x811C9DC5u) && f32s == f32, "fnv1a32", "fnv1a32 of a ", d.size(), "-byte input is ", f32, " / ", f32s, " (string form) but the recurrence gives ", ref_fnv32(d, 0x811C9DC5u));
  uint64_t f64 = phosg::fnv1a64(pl.p, pl.n), f64s = phosg::fnv1a64(d);
  VCHECK(f64 == ref_fnv64(d, 0xCBF29CE484222325ULL) && f64s == f64, "fnv1a64", "fnv1a64 of a ", d.size(), "-byte input is ", f64, " / ", f64s, " (string form) but the recurrence gives ", ref_fnv64(d, 0xCBF29CE484222325ULL));
  VCHECK(phosg::FNV1A32_START == 0x811C9DC5u && phosg::FNV1A64_START == 0xCBF29CE484222325ULL, "fnv-offset-basis", "the start constants are not the published offset bases");
  if (d.size() >= 56) ctx().nontrivial(mix(mix(d.size(), c.u(1)), c.u(1) >= 4 ? hash_str(d) : 0));
  ctx().cls(cat("digest:", len_class(d.size())));
}

static void run_chain(const Case& c) {
  std::string d = make_data(c);
  size_t split = c.u(4);
  if (split > d.size()) throw std::logic_error("C10: split point outside the input");
  size_t mis = c.u(2) & 15;
  std::string a = d.substr(0, split), b = d.substr(split);
  Placed pa(a, mis), pb(b, (mis * 3 + 1) & 15), pd(d, mis);
  // prefix result as the seed of the suffix == hash of the concatenation
  uint32_t crc_ab = phosg::crc32(pb.p, pb.n, phosg::crc32(pa.p, pa.n));
  VCHECK(crc_ab == ref_crc(d), "crc32-chain", "crc32(b, crc32(a)) is ", crc_ab, " but zlib's crc32(a+b) is ", ref_crc(d), " (|a|=", a.size(), ", |b|=", b.size(), ")");
  VCHECK(phosg::crc32(pd.p, pd.n) == crc_ab, "crc32-chain", "crc32(a+b) differs from crc32(b, crc32(a)) (|a|=", a.size(), ", |b|=", b.size(), ")");
  uint32_t f32 = phosg::fnv1a32(pb.p, pb.n, phosg::fnv1a32(pa.p, pa.n));
  VCHECK(f32 == ref_fnv32(d, 0x811C9DC5u), "fnv1a32-chain", "fnv1a32(b, fnv1a32(a)) is ", f32, " but the recurrence over a+b gives ", ref_fnv32(d, 0x811C9DC5u), " (|a|=", a.size(), ", |b|=", b.size(), ")");
  VCHECK(phosg::fnv1a32(b, phosg::fnv1a32(a)) == f32, "fnv1a32-chain", "the std::string forms chain differently");
  uint64_t f64 = phosg::fnv1a64(pb.p, pb.n, phosg::fnv1a64(pa.p, pa.n));
  VCHECK(f64 == ref_fnv64(d, 0xCBF29CE484222325ULL), "fnv1a64-chain", "fnv1a64(b, fnv1a64(a)) is ", f64, " but the recurrence over a+b gives ", ref_fnv64(d, 0xCBF29CE484222325ULL), " (|a|=", a.size(), ", |b|=", b.size(), ")");
  VCHECK(phosg::fnv1a64(b, phosg::fnv1a64(a)) == f64, "fnv1a64-chain", "the std::string forms chain differently");
  // seeds other than the default: the seed is a running value of the same function
  uint32_t cs = static_cast<uint32_t>(c.u(5));
  VCHECK(phosg::crc32(pd.p, pd.n, cs) == ref_crc(d, cs), "crc32-seed", "crc32(data, seed=", cs, ") is ", phosg::crc32(pd.p, pd.n, cs), " but zlib continues that running value to ", ref_crc(d, cs));
  uint32_t s32 = static_cast<uint32_t>(c.u(6));
  VCHECK(phosg::fnv1a32(pd.p, pd.n, s32) == ref_fnv32(d, s32) && phosg::fnv1a32(d, s32) == ref_fnv32(d, s32), "fnv1a32-seed", "fnv1a32(data, seed=", s32, ") differs from the recurrence started at that seed");
  uint64_t s64 = c.u(7);
  VCHECK(phosg::fnv1a64(pd.p, pd.n, s64) == ref_fnv64(d, s64) && phosg::fnv1a64(d, s64) == ref_fnv64(d, s64), "fnv1a64-seed", "fnv1a64(data, seed=", s64, ") differs from the recurrence started at that seed");
  if (split > 0 && split < d.size()) ctx().nontrivial(mix(mix(d.size(), split), mix(c.u(1), c.u(1) >= 4 ? hash_str(d) : 0)));
  ctx().cls(cat("chain:", len_class(d.size())));
}

// published vectors; n = [index]
struct Vector {
  const char* text;
  const char* md5;
  const char* sha1;
  const char* sha256;
  uint32_t crc;
  uint32_t fnv32;
  uint64_t fnv64;
};
static const Vector kVectors[] = {
    // RFC 1321 A.5, FIPS 180-4 / NIST examples, CRC-32/ISO-HDLC check value, FNV-1a reference vectors (isthe.com test suite)
    {"", "d41d8cd98f00b204e9800998ecf8427e", "da39a3ee5e6b4b0d3255bfef95601890afd80709", "e3b0c44298fc1c149afbf4c8996fb92427ae41e4649b934ca495991b7852b855", 0x00000000u, 0x811c9dc5u, 0xcbf29ce484222325ULL},
    {"a", "0cc175b9c0f1b6a831c399e269772661", "86f7e437faa5a7fce15d1ddcb9eaeaea377667b8", "ca978112ca1bbdcafac231b39a23dc4da786eff8147c4e72b9807785afee48bb", 0xe8b7be43u, 0xe40c292cu, 0xaf63dc4c8601ec8cULL},
    {"abc", "900150983cd24fb0d6963f7d28e17f72", "a9993e364706816aba3e25717850c26c9cd0d89d", "ba7816bf8f01cfea414140de5dae2223b00361a396177a9cb410ff61f20015ad", 0x352441c2u, 0x1a47e90bu, 0xe71fa2190541574bULL},
    {"message digest", "f96b697d7cb7938d525a2f31aaf161d0", "c12252ceda8be8994d5fa0290a47231c1d16aae3", "f7846f55cf23e14eebeab5b4e1550cad5b509e3348fbc4efa3a1413d393cb650", 0x20159d7fu, 0, 0},
    {"abcdefghijklmnopqrstuvwxyz", "c3fcd3d76192e4007dfb496cca67e13b", "32d10c7b8cf96570ca04ce37f2a19d84240d3a89", "71c480df93d6ae2f1efad1447c66c9525e316218cf51fc8d9ed832f2daf18b73", 0x4c2750bdu, 0, 0},
    {"abcdbcdecdefdefgefghfghighijhijkijkljklmklmnlmnomnopnopq", "8215ef0796a20bcaaae116d3876c664a", "84983e441c3bd26ebaae4aa1f95129e5e54670f1", "248d6a61d20638b8e5c026930c3e6039a33ce45964ff2167f6ecedd419db06c1", 0x171a3f5fu, 0, 0},
    {"12345678901234567890123456789012345678901234567890123456789012345678901234567890", "57edf4a22be3c955ac49da2e2107b67a", "50abf5706a150990a08b2c5ea40fa0e585554732", "f371bc4a311f2b009eef952dd83ca80e2b60026c8e935592d0f9c308453c813e", 0x7ca94a72u, 0, 0},
    {"123456789", "25f9e794323b453885f5181f1b624d0b", "f7c3bc1d808e04732adf679965ccc34ca7ae3441", "15e2b0d3c33891ebb0f1ef609ec419420c20e320ce94c65fbc8c3312448eb225", 0xcbf43926u, 0xbb86b11cu, 0x06d5573923c6cdfcULL},
    {"foobar", "3858f62230ac3c915f300c664312c63f", "8843d7f92416211de9ebb963ff4ce28125932878", "c3ab8ff13720e8ad9047dd39466b3c8974e592c2fa383d4a3960714caef0c4f2", 0x9ef61f95u, 0xbf9cf968u, 0x85944171f73967e8ULL},
};
static void run_vectors(const Case& c) {
  const Vector& v = kVectors[c.u(0) % (sizeof(kVectors) / sizeof(kVectors[0]))];
  std::string t = v.text;
  VCHECK(to_lower(phosg::MD5(t).hex()) == v.md5, "vector:MD5", "MD5(\"", t, "\") is ", phosg::MD5(t).hex());
  VCHECK(to_lower(phosg::SHA1(t).hex()) == v.sha1, "vector:SHA1", "SHA1(\"", t, "\") is ", phosg::SHA1(t).hex());
  VCHECK(to_lower(phosg::SHA256(t).hex()) == v.sha256, "vector:SHA256", "SHA256(\"", t, "\") is ", phosg::SHA256(t).hex());
  VCHECK(phosg::crc32(t.data(), t.size()) == v.crc, "vector:crc32", "crc32(\"", t, "\") is ", phosg::crc32(t.data(), t.size()));
  if (v.fnv64) {
    VCHECK(phosg::fnv1a32(t) == v.fnv32, "vector:fnv1a32", "fnv1a32(\"", t, "\") is ", phosg::fnv1a32(t));
    VCHECK(phosg::fnv1a64(t) == v.fnv64, "vector:fnv1a64", "fnv1a64(\"", t, "\") is ", phosg::fnv1a64(t));
  }
  // the references themselves must reproduce the published values (guards the oracle)
  VCHECK(lower_hex(evp(EVP_md5(), t.data(), t.size())) == v.md5 && lower_hex(evp(EVP_sha1(), t.data(), t.size())) == v.sha1 && lower_hex(evp(EVP_sha256(), t.data(), t.size())) == v.sha256 && ref_crc(t) == v.crc,
      "reference-self-test", "the reference implementations disagree with the published vector for \"", t, "\"");
  ctx().nontrivial_case();
}


// ---------------------------------------------------------------- inputs of 2^29 bytes and more
//
// The length field of the MD5/SHA padding is the bit count: at 2^29 bytes it no longer fits 32 bits, so a
// length computed in 32 bits (or split into words wrongly) only shows on inputs this large. The input is a private
// anonymous mapping of zero pages patterned sparsely (one byte per page), so it costs little real memory.
// n = [size, stride_seed]
static void run_huge(const Case& c) {
  uint64_t size = c.u(0);
  if (size < (1ULL << 29) - 64 || size > (1ULL << 29) + (1ULL << 20)) throw std::logic_error("C10: huge size outside the domain");
  void* m = mmap(nullptr, size, PROT_READ | PROT_WRITE, MAP_PRIVATE | MAP_ANONYMOUS | MAP_NORESERVE, -1, 0);
  if (m == MAP_FAILED) throw std::logic_error("C10: cannot map the input");
  struct Unmap {
    void* p;
    size_t n;
    ~Unmap() { munmap(p, n); }
  } unmap{m, size};
  char* p = static_cast<char*>(m);
  for (uint64_t off = c.u(1) % 4096; off < size; off += 4096 * 257) p[off] = static_cast<char>(off >> 12 | 1);
  p[size - 1] = 0x5A;
  std::string e_md5 = evp(EVP_md5(), p, size), e_sha1 = evp(EVP_sha1(), p, size), e_sha256 = evp(EVP_sha256(), p, size);
  std::string a = phosg::MD5(p, size).bin(), b = phosg::SHA1(p, size).bin(), d = phosg::SHA256(p, size).bin();
  VCHECK(a == e_md5, "digest-huge:MD5", "MD5 of a ", size, "-byte input is ", lower_hex(a), " but the standard digest is ", lower_hex(e_md5));
  VCHECK(b == e_sha1, "digest-huge:SHA1", "SHA1 of a ", size, "-byte input is ", lower_hex(b), " but the standard digest is ", lower_hex(e_sha1));
  VCHECK(d == e_sha256, "digest-huge:SHA256", "SHA256 of a ", size, "-byte input is ", lower_hex(d), " but the standard digest is ", lower_hex(e_sha256));
  uint32_t crc = phosg::crc32(p, size);
  uint32_t rc = static_cast<uint32_t>(::crc32(0, reinterpret_cast<const Bytef*>(p), static_cast<uInt>(size)));
  VCHECK(crc == rc, "crc32-huge", "crc32 of a ", size, "-byte input is ", crc, " but zlib gives ", rc);
  ctx().nontrivial(mix(0x48554745, size));
  ctx().cls("huge:>=2^29-bytes");
}
static void enum_huge(Enum& e) {
  // one size per shard slot so the cost spreads; quick: just past 2^29, thorough: also just below and 2^29 exactly
  std::vector<uint64_t> sizes = {(1ULL << 29) + 3};
  if (e.thorough()) {
    sizes.push_back((1ULL << 29) - 1);
    sizes.push_back(1ULL << 29);
    sizes.push_back((1ULL << 29) + 64 * 1024 + 55);
  }
  for (size_t i = 0; i < sizes.size(); i++)
    if (e.mine(i + 1)) e.exec(Case("huge").N(sizes[i]).N(17 * i + 5));
  e.complete(cat(sizes.size(), " inputs around 2^29 bytes (where the bit length of the padding exceeds 32 bits)"));
}

// ---------------------------------------------------------------- concurrent callers
//
// The hash functions are pure: calls running at the same time on different inputs must each return the digest of
// their own input (a shared scratch buffer would make them corrupt each other). n = [threads, len, seed, reps]
static void run_concurrent(const Case& c) {
  uint64_t threads = c.u(0), len = c.u(1), seed = c.u(2), reps = c.u(3);
  if (threads < 2 || threads > 8 || len > (1 << 16) || reps > 2000) throw std::logic_error("C10: concurrent case outside the domain");
  struct Job {
    std::string data, md5, sha1, sha256;
    uint32_t crc, f32;
    uint64_t f64;
    std::string failure;
  };
  std::vector<Job> jobs(threads);
  for (uint64_t t = 0; t < threads; t++) {
    Job& j = jobs[t];
    j.data = vg::expand(seed + t * 7919, len + t);
    j.md5 = evp(EVP_md5(), j.data.data(), j.data.size());
    j.sha1 = evp(EVP_sha1(), j.data.data(), j.data.size());
    j.sha256 = evp(EVP_sha256(), j.data.data(), j.data.size());
    j.crc = ref_crc(j.data);
    j.f32 = ref_fnv32(j.data, 0x811C9DC5u);
    j.f64 = ref_fnv64(j.data, 0xCBF29CE484222325ULL);
  }
  std::atomic<int> ready(0);
  std::vector<std::thread> ts;
  for (uint64_t t = 0; t < threads; t++) {
    ts.emplace_back([&, t] {
      Job& j = jobs[t];
      ready.fetch_add(1);
      while (ready.load() < static_cast<int>(threads)) {
      }
      for (uint64_t r = 0; r < reps && j.failure.empty(); r++) {
        if (phosg::MD5(j.data).bin() != j.md5) j.failure = "MD5";
        else if (phosg::SHA1(j.data).bin() != j.sha1) j.failure = "SHA1";
        else if (phosg::SHA256(j.data).bin() != j.sha256) j.failure = "SHA256";
        else if (phosg::crc32(j.data.data(), j.data.size()) != j.crc) j.failure = "crc32";
        else if (phosg::fnv1a32(j.data) != j.f32) j.failure = "fnv1a32";
        else if (phosg::fnv1a64(j.data) != j.f64) j.failure = "fnv1a64";
      }
    });
  }
  for (auto& t : ts) t.join();
  for (uint64_t t = 0; t < threads; t++)
    VCHECK(jobs[t].failure.empty(), cat("concurrent:", jobs[t].failure), jobs[t].failure, " returned a wrong result for a ", jobs[t].data.size(), "-byte input while ", threads - 1, " other threads were hashing other inputs");
  ctx().nontrivial_case();
  ctx().cls("concurrent-callers");
}
static Case gen_concurrent() {
  uint64_t len = vg::chance(1, 2) ? vg::below(300) : vg::scaled(16384);
  return Case("concurrent").N(2 + vg::below(5)).N(len).N(vg::u64()).N(len > 4096 ? 40 : 300);
}

// ---------------------------------------------------------------- generators

static uint64_t gen_len() {
  switch (vg::below(10)) {
    case 0:
    case 1: return vg::below(301);
    case 2:
    case 3: { // around a block boundary: 64k + {-10..+2}
      uint64_t k = 1 + vg::below(vg::chance(1, 4) ? 1024 : 12);
      return k * 64 - 10 + vg::below(13);
    }
    case 4:
    case 5:
    case 6: return vg::scaled(4096);
    case 7:
    case 8: return vg::scaled(65536);
    default: return ctx().thorough() || vg::chance(1, 4) ? vg::scaled(1u << 20) : vg::scaled(65536);
  }
}
static Case gen_common(const char* name) {
  Case c(name);
  uint64_t len = gen_len();
  uint64_t pattern = vg::pick<uint64_t>({0, 1, 2, 3, 4, 4, 4, 5, 5});
  if (pattern == 5 && len > 4096) pattern = 4; // explicit blobs stay small (they are the replay file)
  uint64_t split = len ? vg::below(len + 1) : 0;
  if (len && vg::chance(1, 3)) { // splits at and around block boundaries
    uint64_t s = (vg::below(len / 64 + 1)) * 64 + vg::below(3);
    if (s >= 1) s -= 1;
    if (s <= len) split = s;
  }
  c.N(len).N(pattern).N(vg::below(16)).N(vg::u64()).N(split).N(vg::chance(1, 4) ? 0 : vg::interesting64() & 0xFFFFFFFFu).N(vg::interesting64() & 0xFFFFFFFFu).N(vg::interesting64());
  if (pattern == 5) c.S(vg::bytes(len));
  return c;
}
static Case gen_digest() { return gen_common("digest"); }
static Case gen_chain() { return gen_common("chain"); }

// ---------------------------------------------------------------- enumerators

static void enum_digest(Enum& e) {
  uint64_t idx = 0;
  uint64_t maxlen = e.thorough() ? 1100 : 600;
  for (uint64_t len = 0; len <= maxlen && !e.stop; len++)
    for (uint64_t pattern = 0; pattern < 4; pattern++, idx++) {
      if (!e.mine(idx)) continue;
      e.exec(Case("digest").N(len).N(pattern).N((len + pattern) & 15).N(0).N(0).N(0).N(0).N(0));
    }
  e.complete(cat("every length 0..", maxlen, " x {zeros, 0xFF, i mod 251, xorshift keyed by the length} (every padding case around the 55/56/63/64-byte boundaries of the first ", maxlen / 64, " blocks)"));
}
static void enum_chain(Enum& e) {
  uint64_t idx = 0;
  for (uint64_t len = 0; len <= 300 && !e.stop; len++) {
    for (uint64_t pattern = 2; pattern < 4; pattern++, idx++) {
      if (!e.mine(idx)) continue;
      for (uint64_t split = 0; split <= len; split++)
        e.exec(Case("chain").N(len).N(pattern).N(split & 15).N(0).N(split).N(0xFFFFFFFFu - static_cast<uint32_t>(len * 2654435761u)).N(static_cast<uint32_t>(split * 40503u + len)).N(mix(len, split)));
    }
  }
  e.complete("every split point of every input of length 0..300 x {i mod 251, xorshift keyed by the length}, with a length/split-derived non-default seed for crc32 / fnv1a32 / fnv1a64");
}
static void enum_vectors(Enum& e) {
  for (uint64_t i = 0; i < sizeof(kVectors) / sizeof(kVectors[0]); i++)
    if (e.mine(i)) e.exec(Case("vectors").N(i));
  e.complete("the published test vectors (RFC 1321 suite, FIPS 180 examples, CRC-32 check value, FNV-1a reference values)");
}

int main(int argc, char** argv) {
  std::vector<SubCheck> checks;
  checks.push_back({"vectors", run_vectors, nullptr, 0, 0, 100, enum_vectors});
  checks.push_back({"digest", run_digest, gen_digest, 100000, 600000, 100, enum_digest});
  checks.push_back({"chain", run_chain, gen_chain, 100000, 600000, 100, enum_chain});
  checks.push_back({"concurrent", run_concurrent, gen_concurrent, 400, 4000, 100, nullptr});
  checks.push_back({"huge", run_huge, nullptr, 0, 0, 100, enum_huge});
  return main_(argc, argv, checks);
}
