// Reference interpreter for the text syntax of phosg::parse_data_string, written from the documented
// constructs (hex pairs, // and /* */ comments, "..." strings with escapes, '...' 16-bit strings, ? mask
// toggle, $ endianness toggle, # ## ### #### decimal integers, % and %% floats).  Shared by the rapidcheck
// harness (harness/c09_data.cc) and the libFuzzer target (fuzz/c09_parse.cc).
//
// ref_parse() is total.  `documented` tells whether the whole text stays inside the documented syntax; when
// it is false (dangling escape, empty or out-of-range numeral, construct between the two digits of a hex
// pair, NUL byte, a hexadecimal float without binary exponent, ...) the result is only a best guess and callers must not compare it with phosg.
#pragma once
#include <stdint.h>
#include <string.h>

#include <charconv>
#include <string>

namespace c09ref {

struct Parsed {
  std::string data;
  std::string mask; // 0xFF = mask enabled, 0x00 = disabled, one per data byte
  bool documented = true;
  std::string why; // first reason for documented == false
  unsigned constructs = 0; // number of non-hex constructs seen (strings, numbers, comments, toggles)
};

inline int hex_value(char ch) {
  if (ch >= '0' && ch <= '9') return ch - '0';
  if (ch >= 'a' && ch <= 'f') return ch - 'a' + 10;
  if (ch >= 'A' && ch <= 'F') return ch - 'A' + 10;
  return -1;
}
inline bool is_digit(char ch) { return ch >= '0' && ch <= '9'; }
inline bool is_alnum(char ch) { return is_digit(ch) || (ch >= 'a' && ch <= 'z') || (ch >= 'A' && ch <= 'Z'); }

class Interp {
public:
  // the text is handled as a C string: nothing after the first NUL byte is looked at (and a NUL is not documented syntax)
  explicit Interp(const std::string& text) : t(text.c_str()) {
    if (t.size() != text.size()) undocumented("NUL byte in text");
  }

  Parsed run() {
    size_t n = t.size();
    while (i < n) {
      char ch = t[i];
      if (ch == '\0') {
        undocumented("NUL byte in text");
        break; // the text is handled as a C string
      }
      if (ch == '/' && i + 1 < n && t[i + 1] == '/') {
        guard_pending("comment");
        out.constructs++;
        size_t nl = t.find('\n', i + 2);
        i = (nl == std::string::npos) ? n : nl + 1;
      } else if (ch == '/' && i + 1 < n && t[i + 1] == '*') {
        guard_pending("comment");
        out.constructs++;
        size_t close = t.find("*/", i + 2);
        if (close == std::string::npos) {
          undocumented("unterminated /* comment");
          i = n;
        } else {
          i = close + 2;
        }
      } else if (ch == '"') {
        guard_pending("string");
        out.constructs++;
        quoted('"', false);
      } else if (ch == '\'') {
        guard_pending("string");
        out.constructs++;
        quoted('\'', true);
      } else if (ch == '?') {
        guard_pending("mask toggle");
        out.constructs++;
        mask_on = !mask_on;
        i++;
      } else if (ch == '$') {
        guard_pending("endianness toggle");
        out.constructs++;
        big = !big;
        i++;
      } else if (ch == '#') {
        guard_pending("integer");
        out.constructs++;
        integer();
      } else if (ch == '%') {
        guard_pending("float");
        out.constructs++;
        floating();
      } else if (hex_value(ch) >= 0) {
        if (pending < 0) {
          pending = hex_value(ch);
        } else {
          emit(static_cast<char>((pending << 4) | hex_value(ch)));
          pending = -1;
        }
        i++;
      } else {
        i++; // anything else separates
      }
    }
    if (pending >= 0) undocumented("odd number of hex digits");
    return out;
  }

private:
  const std::string t;
  size_t i = 0;
  Parsed out;
  bool mask_on = true;
  bool big = false;
  int pending = -1;

  void undocumented(const char* why) {
    if (out.documented) {
      out.documented = false;
      out.why = why;
    }
  }
  void guard_pending(const char* what) {
    if (pending >= 0) undocumented("construct between the two digits of a hex pair");
    (void)what;
  }
  void emit(char b) {
    out.data.push_back(b);
    out.mask.push_back(mask_on ? '\xFF' : '\x00');
  }
  void emit_int(uint64_t v, unsigned bytes) {
    for (unsigned k = 0; k < bytes; k++) {
      unsigned shift = big ? 8 * (bytes - 1 - k) : 8 * k;
      emit(static_cast<char>(v >> shift));
    }
  }

  void quoted(char q, bool wide) {
    size_t n = t.size();
    i++; // opening quote
    while (true) {
      if (i >= n || t[i] == '\0') {
        undocumented("unterminated quoted string");
        return;
      }
      char ch = t[i];
      if (ch == q) {
        i++;
        return;
      }
      if (ch == '\\') {
        if (i + 1 >= n || t[i + 1] == '\0') {
          undocumented("dangling backslash");
          i = n;
          return;
        }
        char e = t[i + 1];
        ch = (e == 'n') ? '\n' : (e == 'r') ? '\r' : (e == 't') ? '\t' : e;
        i += 2;
      } else {
        i++;
      }
      if (wide) {
        if (static_cast<unsigned char>(ch) >= 0x80) undocumented("non-ASCII character in '...'");
        emit_int(static_cast<uint16_t>(static_cast<int16_t>(static_cast<signed char>(ch))), 2);
      } else {
        emit(ch);
      }
    }
  }

  void integer() {
    size_t n = t.size();
    unsigned hashes = 0;
    while (i < n && t[i] == '#' && hashes < 4) {
      i++;
      hashes++;
    }
    unsigned bytes = 1u << (hashes - 1);
    // numeral: [-] (0x hexdigits | decimal digits)
    size_t p = i;
    bool neg = false;
    if (p < n && t[p] == '-') {
      neg = true;
      p++;
    }
    uint64_t mag = 0;
    bool overflow = false;
    size_t digits = 0;
    if (p + 2 < n && t[p] == '0' && (t[p + 1] == 'x' || t[p + 1] == 'X') && hex_value(t[p + 2]) >= 0) {
      p += 2;
      while (p < n && hex_value(t[p]) >= 0) {
        if (mag >> 60) overflow = true;
        mag = (mag << 4) | static_cast<uint64_t>(hex_value(t[p]));
        p++;
        digits++;
      }
    } else {
      size_t first = p;
      while (p < n && is_digit(t[p])) {
        uint64_t d = static_cast<uint64_t>(t[p] - '0');
        if (mag > (UINT64_MAX - d) / 10) overflow = true;
        mag = mag * 10 + d;
        p++;
        digits++;
      }
      if (digits > 1 && t[first] == '0') undocumented("numeral with a leading zero");
      if (digits == 1 && t[first] == '0' && p < n && (t[p] == 'x' || t[p] == 'X')) undocumented("0x without hex digits");
    }
    if (digits == 0) {
      undocumented("# without a numeral");
      emit_int(0, bytes);
      return; // i stays after the # signs
    }
    uint64_t limit_pos = (bytes == 8) ? UINT64_MAX : ((1ULL << (8 * bytes)) - 1);
    uint64_t limit_neg = 1ULL << (8 * bytes - 1);
    if (overflow || (!neg && mag > limit_pos) || (neg && mag > limit_neg)) undocumented("numeral out of range for its width");
    uint64_t v = neg ? (0 - mag) : mag;
    emit_int(v, bytes);
    i = p;
  }

  // floating literal: [+-] digits [. digits] [(e|E) [+-] digits]  (at least one digit in the mantissa), or the C99 / C++17
  // hexadecimal form [+-] 0x hexdigits [. hexdigits] (p|P) [+-] digits (at least one hex digit, binary exponent present).
  // "% is a float, %% is a double": the bytes are those of the IEEE-754 single / double NEAREST to the value the literal
  // denotes (ties to even), whatever the number of digits - i.e. the literal is rounded once, to the width asked for.
  void floating() {
    size_t n = t.size();
    i++;
    bool dbl = false;
    if (i < n && t[i] == '%') {
      dbl = true;
      i++;
    }
    size_t p = i;
    bool neg = false;
    if (p < n && (t[p] == '-' || t[p] == '+')) {
      neg = (t[p] == '-');
      p++;
    }
    size_t m0 = p, mant_digits = 0;
    bool hexfloat = (m0 + 1 < n && t[m0] == '0' && (t[m0 + 1] == 'x' || t[m0 + 1] == 'X'));
    if (hexfloat) {
      p = m0 + 2;
      while (p < n && hex_value(t[p]) >= 0) p++, mant_digits++;
      if (p < n && t[p] == '.') {
        p++;
        while (p < n && hex_value(t[p]) >= 0) p++, mant_digits++;
      }
      bool has_exp = false;
      if (mant_digits > 0 && p < n && (t[p] == 'p' || t[p] == 'P')) {
        size_t q = p + 1;
        if (q < n && (t[q] == '-' || t[q] == '+')) q++;
        if (q < n && is_digit(t[q])) {
          while (q < n && is_digit(t[q])) q++;
          p = q;
          has_exp = true;
        }
      }
      if (!has_exp) {
        // "0x" without digits, or without a binary exponent: where such a literal ends is not settled
        undocumented("hexadecimal float without digits or without a binary exponent");
        emit_int(0, dbl ? 8 : 4);
        i = p;
        return;
      }
    } else {
      while (p < n && is_digit(t[p])) p++, mant_digits++;
      if (p < n && t[p] == '.') {
        p++;
        while (p < n && is_digit(t[p])) p++, mant_digits++;
      }
      if (mant_digits == 0) {
        undocumented("% without a decimal number");
        emit_int(0, dbl ? 8 : 4);
        return;
      }
      if (p < n && (t[p] == 'e' || t[p] == 'E')) {
        size_t q = p + 1;
        if (q < n && (t[q] == '-' || t[q] == '+')) q++;
        if (q < n && is_digit(t[q])) {
          while (q < n && is_digit(t[q])) q++;
          p = q;
        }
      }
    }
    if (p < n && (is_alnum(t[p]) || t[p] == '.')) undocumented("character glued to a float");
    std::string lit = hexfloat ? t.substr(m0 + 2, p - m0 - 2) : t.substr(m0, p - m0);
    std::chars_format fmt = hexfloat ? std::chars_format::hex : std::chars_format::general;
    uint64_t bits = 0;
    unsigned bytes = dbl ? 8 : 4;
    if (dbl) {
      double v = 0;
      auto r = std::from_chars(lit.data(), lit.data() + lit.size(), v, fmt);
      if (r.ec != std::errc() || r.ptr != lit.data() + lit.size()) undocumented("float outside the representable range");
      if (neg) v = -v;
      memcpy(&bits, &v, 8);
    } else {
      float v = 0;
      auto r = std::from_chars(lit.data(), lit.data() + lit.size(), v, fmt);
      if (r.ec != std::errc() || r.ptr != lit.data() + lit.size()) undocumented("float outside the representable range");
      if (neg) v = -v;
      uint32_t b32;
      memcpy(&b32, &v, 4);
      bits = b32;
    }
    emit_int(bits, bytes);
    i = p;
  }
};

inline Parsed ref_parse(const std::string& text) { return Interp(text).run(); }

} // namespace c09ref
