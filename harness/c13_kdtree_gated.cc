// C13, gated build: the same harness with KDTree::emplace among the insertion operations.
// Built and run by oracle/c13_gated.py after its compile probe succeeded.
#define C13_GATED 1
#include "c13_kdtree.cc"
