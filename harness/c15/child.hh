// C15 helpers shared by the scripted child (`--child` mode of the harness binary) and the model in the worker.
//
// Script: ops separated by ';', each a letter followed by comma-separated decimal arguments.
//   R<n>              read exactly n bytes from stdin (stops at EOF)
//   Q<n>,<chunk>,<us> slow reader: n bytes in reads of at most chunk bytes, sleeping us microseconds between reads
//   E                 read stdin to EOF
//   P<chunk>          cat: copy stdin to stdout until EOF with reads of at most chunk bytes
//   W<fd>,<n>,<chunk>,<us>  write n pattern bytes to fd 1 or 2 in chunk-sized writes, pausing us microseconds between them
//   S<ms>             sleep
//   C<fd>             close descriptor fd
//   X<code>           exit(code)
//   K<sig>            die by signal sig
//   I<sig>            ignore signal sig
//   Z                 never exit (pause forever)
//   T                 from here on W writes text instead of pseudo-random bytes: no NUL bytes, full of printf conversion
//                     specifications ("%s%n ... 100% done") - what a real tool's diagnostics can contain
//   G<mask>,<secs>    start a background descendant (fork, no exec) that keeps the inherited descriptors named by
//                     mask (bit 0 = stdin, bit 1 = stdout, bit 2 = stderr) open, closes everything else, writes
//                     nothing and lives for secs seconds - or until the process that started the child (the
//                     harness worker) is gone; the child itself carries on with the next op at once
// Falling off the end of the script is exit(0). Pattern bytes are a function of (stream, offset), so the
// model knows every byte the child writes. After every op that reads stdin (and at exit) the child records
// count and FNV-1a hash of everything it has read in a side file.
#pragma once

#include <errno.h>
#include <fcntl.h>
#include <signal.h>
#include <stdint.h>
#include <stdlib.h>
#include <string.h>
#include <sys/prctl.h>
#include <time.h>
#include <unistd.h>

#include <string>
#include <vector>

namespace c15 {

struct Op {
  char code = 0;
  uint64_t a[4] = {0, 0, 0, 0};
  int n = 0;
};

inline std::vector<Op> parse_script(const std::string& s) {
  std::vector<Op> ops;
  size_t i = 0;
  while (i < s.size()) {
    if (s[i] == ';') {
      i++;
      continue;
    }
    Op op;
    op.code = s[i++];
    while (i < s.size() && s[i] != ';') {
      if (s[i] == ',') {
        i++;
        continue;
      }
      uint64_t v = 0;
      bool any = false;
      while (i < s.size() && s[i] >= '0' && s[i] <= '9') {
        v = v * 10 + (s[i] - '0');
        i++;
        any = true;
      }
      if (!any) {
        op.code = '?';
        i++;
        continue;
      }
      if (op.n < 4) op.a[op.n++] = v;
    }
    ops.push_back(op);
  }
  return ops;
}

inline uint8_t pattern_byte(int stream, uint64_t off) {
  uint64_t x = (off + 1) * 0x9E3779B97F4A7C15ULL + static_cast<uint64_t>(stream) * 0xD1B54A32D192ED03ULL;
  return static_cast<uint8_t>((x >> 56) ^ (x >> 29) ^ off);
}

constexpr char kTextPattern[] = "%s%n%s%s 100% done %999999999d %ls%hhn %s%s%s%s%s%s%s%s\n";
inline void fill_pattern(char* dst, int stream, uint64_t off, size_t n, bool text = false) {
  if (text) {
    constexpr size_t len = sizeof(kTextPattern) - 1;
    for (size_t i = 0; i < n; i++) dst[i] = kTextPattern[(off + i + static_cast<uint64_t>(stream) * 5) % len];
    return;
  }
  for (size_t i = 0; i < n; i++) dst[i] = static_cast<char>(pattern_byte(stream, off + i));
}

inline uint64_t fnv(const void* p, size_t n, uint64_t h) {
  const uint8_t* b = static_cast<const uint8_t*>(p);
  for (size_t i = 0; i < n; i++) {
    h ^= b[i];
    h *= 0x100000001b3ULL;
  }
  return h;
}
constexpr uint64_t kFnvInit = 0xcbf29ce484222325ULL;

struct SideRecord {
  uint64_t magic; // 0xC15C15C15
  uint64_t count; // bytes read from stdin so far
  uint64_t hash; // FNV-1a of them
  uint64_t ops_done;
};
constexpr uint64_t kSideMagic = 0xC15C15C15ULL;

// ---------------------------------------------------------------- the child itself

inline bool child_write_all(int fd, const char* p, size_t n) {
  size_t off = 0;
  while (off < n) {
    ssize_t w = ::write(fd, p + off, n - off);
    if (w < 0) {
      if (errno == EINTR) continue;
      return false;
    }
    off += w;
  }
  return true;
}

[[noreturn]] inline void child_main(const char* script_text, const char* side_path) {
  // die with the worker that started us: no orphan survives a killed or crashed harness
  prctl(PR_SET_PDEATHSIG, SIGKILL);
  if (getppid() == 1) _exit(126);
  std::vector<Op> ops = parse_script(script_text);
  int sfd = ::open(side_path, O_CREAT | O_TRUNC | O_WRONLY | O_CLOEXEC, 0644);
  SideRecord rec = {kSideMagic, 0, kFnvInit, 0};
  auto record = [&] {
    if (sfd >= 0) (void)!::pwrite(sfd, &rec, sizeof(rec), 0);
  };
  record();
  static char buf[1 << 16];
  uint64_t out_off[3] = {0, 0, 0};
  bool text = false;
  for (const Op& op : ops) {
    switch (op.code) {
      case 'T': text = true; break;
      case 'R':
      case 'Q':
      case 'E': {
        uint64_t want = op.code == 'E' ? UINT64_MAX : op.a[0];
        size_t chunk = sizeof(buf);
        if (op.code == 'Q' && op.a[1] && op.a[1] < chunk) chunk = op.a[1];
        while (want > 0) {
          ssize_t r = ::read(0, buf, want < chunk ? want : chunk);
          if (r < 0 && errno == EINTR) continue;
          if (r <= 0) break;
          rec.hash = fnv(buf, r, rec.hash);
          rec.count += r;
          want -= r;
          if (op.code == 'Q' && op.a[2]) usleep(op.a[2]);
        }
        break;
      }
      case 'P': {
        size_t chunk = (op.a[0] && op.a[0] < sizeof(buf)) ? op.a[0] : sizeof(buf);
        for (;;) {
          ssize_t r = ::read(0, buf, chunk);
          if (r < 0 && errno == EINTR) continue;
          if (r <= 0) break;
          rec.hash = fnv(buf, r, rec.hash);
          rec.count += r;
          if (!child_write_all(1, buf, r)) break;
        }
        break;
      }
      case 'W': {
        int fd = op.a[0] == 2 ? 2 : 1;
        uint64_t n = op.a[1];
        size_t chunk = (op.a[2] && op.a[2] < sizeof(buf)) ? op.a[2] : sizeof(buf);
        while (n > 0) {
          size_t k = n < chunk ? n : chunk;
          fill_pattern(buf, fd, out_off[fd], k, text);
          if (!child_write_all(fd, buf, k)) break;
          out_off[fd] += k;
          n -= k;
          if (op.a[3] && n > 0) usleep(op.a[3]);
        }
        break;
      }
      case 'S': usleep(op.a[0] * 1000); break;
      case 'C': ::close(static_cast<int>(op.a[0])); break;
      case 'X':
        rec.ops_done++;
        record();
        _exit(static_cast<int>(op.a[0]));
      case 'K': {
        rec.ops_done++;
        record();
        int sig = static_cast<int>(op.a[0]);
        signal(sig, SIG_DFL);
        sigset_t ss;
        sigemptyset(&ss);
        sigaddset(&ss, sig);
        sigprocmask(SIG_UNBLOCK, &ss, nullptr);
        raise(sig);
        for (;;) pause();
      }
      case 'I': signal(static_cast<int>(op.a[0]), SIG_IGN); break;
      case 'G': {
        pid_t starter = getppid(); // the worker that called run_process / communicate
        pid_t g = fork();
        if (g == 0) {
          // PR_SET_PDEATHSIG is not inherited: this process outlives the child, like a daemon or `cmd &` would
          for (int fd = 0; fd < 3; fd++)
            if (!((op.a[0] >> fd) & 1)) ::close(fd);
          for (int fd = 3; fd < 256; fd++) ::close(fd);
          struct timespec t0, t;
          clock_gettime(CLOCK_MONOTONIC, &t0);
          for (;;) {
            clock_gettime(CLOCK_MONOTONIC, &t);
            if (static_cast<uint64_t>(t.tv_sec - t0.tv_sec) >= op.a[1]) break;
            if (::kill(starter, 0) != 0 && errno == ESRCH) break; // never outlive the case
            usleep(50000);
          }
          _exit(0);
        }
        break;
      }
      case 'Z':
        rec.ops_done++;
        record();
        for (;;) pause();
      default: _exit(125); // malformed script
    }
    rec.ops_done++;
    record();
  }
  _exit(0);
}

} // namespace c15
