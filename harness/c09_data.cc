// C09 - data strings (format_data_string <-> parse_data_string) and hex dumps (format_data / print_data).
#include <math.h>
#include <signal.h>

#include <phosg/Strings.hh>

#include "c09/ref.hh"
#include "verif.hh"

#define LIT(s) std::string(s, sizeof(s) - 1)

using namespace verif;

// Generator cost: one rapidcheck draw per byte is fine (and shrinks well) for short strings; long strings take their bulk
// content from one library-drawn seed (vg::expand), only their length and structure are drawn individually.
namespace fastgen {
inline std::string bytes(size_t len) {
  if (len <= 40) return verif::vg::bytes(len);
  return verif::vg::expand(verif::vg::u64(), len);
}
inline std::string bytes_from(const std::string& alphabet, size_t len) {
  if (len <= 40) return verif::vg::bytes_from(alphabet, len);
  std::string r = verif::vg::expand(verif::vg::u64(), len);
  for (auto& ch : r) ch = alphabet[static_cast<unsigned char>(ch) % alphabet.size()];
  return r;
}
} // namespace fastgen

using std::string;
using std::vector;
typedef unsigned __int128 u128;

struct Watchdog {
  explicit Watchdog(unsigned s) { alarm(s); }
  ~Watchdog() { alarm(0); }
};

// ---------------------------------------------------------------- (a) format_data_string -> parse_data_string

// case: s=[data, mask], n=[format flags, use_mask, via pointer overload]
static void run_roundtrip(const Case& c) {
  const string& data = c.str(0);
  const string& mask = c.str(1);
  uint64_t flags = c.u(0);
  bool use_mask = c.u(1) != 0;
  bool by_pointer = c.u(2) != 0;
  if (use_mask && mask.size() != data.size()) throw std::logic_error("mask size differs from data size");
  string text = by_pointer
      ? phosg::format_data_string(data.data(), data.size(), use_mask ? mask.data() : nullptr, flags)
      : phosg::format_data_string(data, use_mask ? &mask : nullptr, flags);
  bool quoted = !text.empty() && text[0] == '"';
  const char* form = quoted ? "quoted" : "hex";
  if (flags & phosg::FormatDataFlags::HEX_ONLY) VCHECK(!quoted, "hex-only-ignored", "HEX_ONLY produced ", text.substr(0, 60));
  string pmask;
  string back = phosg::parse_data_string(text, &pmask);
  VCHECK(pmask.size() == back.size(), cat("roundtrip-mask-size:", form), "parse_data_string returned ", back.size(), " bytes and ", pmask.size(), " mask bytes for ", text.substr(0, 80));
  if (back != data) {
    size_t k = 0;
    while (k < back.size() && k < data.size() && back[k] == data[k]) k++;
    const char* why = "other";
    if (quoted && data.find('\\') != string::npos) why = "backslash";
    VFAIL(cat("roundtrip-data:", form, ":", why), "data ", hex(data), " formatted as ", text.substr(0, 120), " re-parses as ", hex(back), " (first difference at byte ", k, ")");
  }
  for (size_t k = 0; k < data.size(); k++) {
    bool expect = use_mask ? (mask[k] != 0) : true;
    VCHECK((pmask[k] != 0) == expect, cat("roundtrip-mask:", form), "byte ", k, " of ", hex(data), " with mask ", hex(mask), " comes back ", pmask[k] ? "masked-in" : "masked-out", "; text ", text.substr(0, 120));
  }
  string back2 = phosg::parse_data_string(text);
  VCHECK(back2 == back, "parse-mask-dependence", "parse_data_string returns different data with and without a mask pointer");
  size_t toggles = 0;
  if (use_mask)
    for (size_t k = 0; k < mask.size(); k++) toggles += ((mask[k] != 0) != (k ? (mask[k - 1] != 0) : true));
  bool meta = data.find_first_of("\\\"'?$#%/*<") != string::npos;
  if (meta || toggles >= 2) ctx().nontrivial_case();
  ctx().cls(quoted ? "roundtrip:quoted-form" : "roundtrip:hex-form");
}

// ---------------------------------------------------------------- (b) parse_data_string on documented constructs

static void check_parse_total(const string& text, string& data, string& mask) {
  Watchdog wd(30);
  data = phosg::parse_data_string(text, &mask);
  VCHECK(mask.size() == data.size(), "parse-mask-size", "parse_data_string returned ", data.size(), " bytes and ", mask.size(), " mask bytes");
  string d2 = phosg::parse_data_string(text);
  VCHECK(d2 == data, "parse-mask-dependence", "parse_data_string returns different data with and without a mask pointer");
}

static string first_diff(const string& a, const string& b) {
  size_t k = 0;
  while (k < a.size() && k < b.size() && a[k] == b[k]) k++;
  return cat("first difference at byte ", k, " (sizes ", a.size(), " vs ", b.size(), ")");
}

// which construct of the text produced output byte k (for the failure signature): re-interpret prefixes
static string blame_construct(const string& text, const string& got, const string& want) {
  // classify by the constructs present; precise enough to separate root causes
  size_t k = 0;
  while (k < got.size() && k < want.size() && got[k] == want[k]) k++;
  // find the shortest prefix of the text whose reference output covers byte k
  size_t lo = 0, hi = text.size();
  while (lo < hi) {
    size_t mid = (lo + hi) / 2;
    if (c09ref::ref_parse(text.substr(0, mid)).data.size() > k) hi = mid;
    else lo = mid + 1;
  }
  // scan backwards from the end of that prefix for the construct opener
  size_t end = lo;
  if (text.find("/*/") != string::npos) {
    // root-cause test: "/*/" and "/* /" open the same comment; if phosg is right on the latter, the opener is to blame
    string t2;
    for (size_t p = 0; p < text.size();) {
      if (text.compare(p, 3, "/*/") == 0) {
        t2 += "/* /";
        p += 3;
      } else {
        t2 += text[p++];
      }
    }
    if (c09ref::ref_parse(t2).data == want && phosg::parse_data_string(t2) == want) return "slash-star-slash-comment-opener";
  }
  bool has_block = text.substr(0, end).find("/*") != string::npos;
  bool has_line = text.substr(0, end).find("//") != string::npos;
  for (size_t p = end; p-- > 0;) {
    char ch = text[p];
    if (ch == '#') return "integer";
    if (ch == '%') return "float";
    if (ch == '"') return "dq-string";
    if (ch == '\'') return "sq-string";
    if (end - p > 40) break;
  }
  if (has_block) return "after-block-comment";
  if (has_line) return "after-line-comment";
  return "hex";
}

// case: s=[text, expected data, expected mask]
static void run_grammar(const Case& c) {
  const string& text = c.str(0);
  const string& want = c.str(1);
  const string& want_mask = c.str(2);
  string data, mask;
  check_parse_total(text, data, mask);
  c09ref::Parsed ref = c09ref::ref_parse(text);
  // three views: by-construction expectation, reference interpreter, phosg
  VCHECK(ref.documented, "ORACLE-grammar-generator-left-documented-syntax", ref.why, " in ", text.substr(0, 200));
  VCHECK(ref.data == want && ref.mask == want_mask, "ORACLE-reference-disagrees-with-construction", first_diff(ref.data, want), " text ", hex(text, 200));
  if (data != want) VFAIL(cat("grammar-data:", blame_construct(text, data, want)), "parse_data_string(", hex(text, 300), ") == ", hex(data), " expected ", hex(want), "; ", first_diff(data, want));
  for (size_t k = 0; k < mask.size(); k++) VCHECK((mask[k] != 0) == (want_mask[k] != 0), "grammar-mask", "mask byte ", k, " is ", (int)(unsigned char)mask[k], " for text ", hex(text, 300));
  if (ref.constructs > 0) ctx().nontrivial_case();
}

// case: s=[any text]
static void run_parse_any(const Case& c) {
  const string& text = c.str(0);
  string data, mask;
  check_parse_total(text, data, mask);
  c09ref::Parsed ref = c09ref::ref_parse(text);
  if (!ref.documented) {
    ctx().cls("parse_any:outside-documented-syntax(totality only)");
    return;
  }
  ctx().cls("parse_any:documented-syntax(compared)");
  if (data != ref.data) VFAIL(cat("parse-any-data:", blame_construct(text, data, ref.data)), "parse_data_string(", hex(text, 300), ") == ", hex(data), " reference ", hex(ref.data), "; ", first_diff(data, ref.data));
  for (size_t k = 0; k < mask.size(); k++) VCHECK((mask[k] != 0) == (ref.mask[k] != 0), "parse-any-mask", "mask byte ", k, " differs for text ", hex(text, 300));
  if (ref.constructs > 0) ctx().nontrivial_case();
}

// ---------------------------------------------------------------- (c) hex dumps

namespace F {
using namespace phosg;
const uint64_t COLOR = PrintDataFlags::USE_COLOR, ASCII = PrintDataFlags::PRINT_ASCII, FLOAT = PrintDataFlags::PRINT_FLOAT,
               DOUBLE = PrintDataFlags::PRINT_DOUBLE, REV = PrintDataFlags::REVERSE_ENDIAN_FLOATS, COLLAPSE = PrintDataFlags::COLLAPSE_ZERO_LINES,
               SKIPSEP = PrintDataFlags::SKIP_SEPARATOR, NOCOLOR = PrintDataFlags::DISABLE_COLOR, O8 = PrintDataFlags::OFFSET_8_BITS,
               O16 = PrintDataFlags::OFFSET_16_BITS, O32 = PrintDataFlags::OFFSET_32_BITS, O64 = PrintDataFlags::OFFSET_64_BITS,
               BIG = PrintDataFlags::BIG_ENDIAN_FLOATS, LITTLE = PrintDataFlags::LITTLE_ENDIAN_FLOATS;
} // namespace F

struct Cell {
  char ch;
  bool red, inv;
};

// splits the dump into lines of visible characters with their terminal attributes
static vector<vector<Cell>> tokenize_dump(const string& text, bool color_allowed) {
  vector<vector<Cell>> lines;
  vector<Cell> cur;
  bool red = false, inv = false, bold = false, fg = false;
  for (size_t i = 0; i < text.size(); i++) {
    char ch = text[i];
    if (ch == '\033') {
      VCHECK(color_allowed, "dump-escape-without-color", "escape sequence in a dump without USE_COLOR");
      size_t m = text.find('m', i);
      VCHECK(m != string::npos && text[i + 1] == '[', "dump-escape-malformed", "unterminated escape sequence");
      string params = text.substr(i + 2, m - i - 2);
      // any SGR sequence (ECMA-48): a list of numeric parameters, processed in order. How a dumper spells "highlighted" (bold red here,
      // parameters combined or not, one sequence per cell or per run) is its business: `red` = a foreground colour or bold is active,
      // `inv` = inverse video is active
      {
        std::vector<int> codes;
        size_t q = 0;
        while (q <= params.size()) {
          size_t e = params.find(';', q);
          if (e == string::npos) e = params.size();
          string one = params.substr(q, e - q);
          VCHECK(one.find_first_not_of("0123456789") == string::npos && one.size() <= 3, "dump-escape-malformed", "unexpected escape parameters ", params);
          codes.push_back(one.empty() ? 0 : atoi(one.c_str()));
          q = e + 1;
        }
        for (size_t k = 0; k < codes.size(); k++) {
          int cd = codes[k];
          if (cd == 0) bold = fg = inv = false;
          else if (cd == 1) bold = true;
          else if (cd == 22) bold = false;
          else if (cd == 7) inv = true;
          else if (cd == 27) inv = false;
          else if ((cd >= 30 && cd <= 37) || (cd >= 90 && cd <= 97)) fg = true;
          else if (cd == 39) fg = false;
          else if (cd == 38 && k + 1 < codes.size()) { fg = true; k += (codes[k + 1] == 5) ? 2 : 4; }
          else VFAIL("dump-escape-malformed", "unexpected escape parameters ", params);
        }
        red = bold || fg;
      }
      i = m;
    } else if (ch == '\n') {
      VCHECK(!red && !inv, "dump-escape-unbalanced", "attributes still active at the end of a line");
      lines.push_back(cur);
      cur.clear();
    } else {
      cur.push_back(Cell{ch, red, inv});
    }
  }
  VCHECK(cur.empty(), "dump-last-line-unterminated", "dump does not end with a newline");
  return lines;
}

struct DumpLine {
  uint64_t addr = 0;
  size_t addr_digits = 0;
  int hexv[16]; // -1 blank, else value
  bool hex_red[16];
  char ascii[16];
  bool ascii_red[16], ascii_inv[16];
  string ffield[4], dfield[2];
  bool f_red[4], d_red[2];
};

static string cells_text(const vector<Cell>& l, size_t from, size_t n) {
  string r;
  for (size_t k = from; k < from + n && k < l.size(); k++) r += l[k].ch;
  return r;
}
// the highlight of a cell is that of its visible characters: whether the blanks that separate or pad the cells are inside the
// highlighted run is not something the statement (or a reader of the dump) can tell
static bool uniform_red(const vector<Cell>& l, size_t from, size_t n, bool& red) {
  bool any = false;
  red = false;
  for (size_t k = from; k < from + n; k++) {
    if (l[k].ch == ' ') continue;
    if (!any) {
      red = l[k].red;
      any = true;
    } else if (l[k].red != red) {
      return false;
    }
  }
  if (!any) red = l[from].red;
  return true;
}

// column decoder written from the documented layout:
//   ADDRESS [" |"] 16 x (" XX" | "   ") [" | " 16 chars] [" |" 4 x 13 chars] [" |" 2 x 13 chars]
// (with SKIP_SEPARATOR every " |"/" | " shrinks to one blank)
static DumpLine decode_line(const vector<Cell>& l, uint64_t flags) {
  DumpLine d;
  bool skipsep = flags & F::SKIPSEP;
  size_t p = 0;
  auto upper_hex = [](char ch) { return (ch >= '0' && ch <= '9') ? ch - '0' : (ch >= 'A' && ch <= 'F') ? ch - 'A' + 10 : -1; };
  while (p < l.size() && upper_hex(l[p].ch) >= 0) {
    VCHECK(d.addr_digits < 16, "dump-address-too-long", "address column longer than 16 digits");
    d.addr = (d.addr << 4) | static_cast<uint64_t>(upper_hex(l[p].ch));
    VCHECK(!l[p].red && !l[p].inv, "dump-address-highlighted", "address column carries attributes");
    d.addr_digits++;
    p++;
  }
  VCHECK(d.addr_digits > 0, "dump-address-missing", "line does not start with an upper-case hex address: ", cells_text(l, 0, 30));
  auto expect_text = [&](const char* lit, const char* what) {
    size_t n = strlen(lit);
    VCHECK(p + n <= l.size() && cells_text(l, p, n) == lit, cat("dump-layout:", what), "expected '", lit, "' at column ", p, " of line ", cells_text(l, 0, l.size()));
    for (size_t k = 0; k < n; k++) VCHECK(!l[p + k].red && !l[p + k].inv, cat("dump-layout:", what), "separator carries attributes");
    p += n;
  };
  if (!skipsep) expect_text(" |", "address-separator");
  for (int k = 0; k < 16; k++) {
    VCHECK(p + 3 <= l.size(), "dump-layout:hex-column-short", "line ends inside the hex column: ", cells_text(l, 0, l.size()));
    string cell = cells_text(l, p, 3);
    bool red;
    VCHECK(uniform_red(l, p, 3, red), "dump-highlight-partial-cell", "hex cell ", k, " is partly highlighted");
    VCHECK(!l[p].inv && !l[p + 1].inv && !l[p + 2].inv, "dump-layout:hex-inverse", "inverse video in the hex column");
    if (cell == "   ") {
      d.hexv[k] = -1;
    } else {
      VCHECK(cell[0] == ' ' && upper_hex(cell[1]) >= 0 && upper_hex(cell[2]) >= 0, "dump-layout:hex-cell", "hex cell ", k, " is '", cell, "'");
      d.hexv[k] = upper_hex(cell[1]) * 16 + upper_hex(cell[2]);
    }
    d.hex_red[k] = red;
    p += 3;
  }
  if (flags & F::ASCII) {
    expect_text(skipsep ? " " : " | ", "ascii-separator");
    VCHECK(p + 16 <= l.size(), "dump-layout:ascii-column-short", "line ends inside the ASCII column");
    for (int k = 0; k < 16; k++) {
      d.ascii[k] = l[p].ch;
      d.ascii_red[k] = l[p].red;
      d.ascii_inv[k] = l[p].inv;
      p++;
    }
  }
  auto fields = [&](int count, string* out, bool* red, const char* what) {
    expect_text(skipsep ? " " : " |", what);
    for (int k = 0; k < count; k++) {
      VCHECK(p + 13 <= l.size(), cat("dump-layout:", what, "-short"), "line ends inside the ", what, " column");
      out[k] = cells_text(l, p, 13);
      VCHECK(uniform_red(l, p, 13, red[k]), "dump-highlight-partial-cell", what, " field ", k, " is partly highlighted");
      for (size_t q = p; q < p + 13; q++) VCHECK(!l[q].inv, "dump-layout:float-inverse", "inverse video in a float column");
      p += 13;
    }
  };
  if (flags & F::FLOAT) fields(4, d.ffield, d.f_red, "float");
  if (flags & F::DOUBLE) fields(2, d.dfield, d.d_red, "double");
  VCHECK(p == l.size(), "dump-layout:trailing-text", "unexpected text after the last column: '", cells_text(l, p, l.size() - p), "'");
  return d;
}

static bool is_nan_text(const string& s) { return s.find("nan") != string::npos; }

struct DumpInput {
  string data, prev;
  bool has_prev;
  uint64_t start, flags;
};

static void check_dump_text(const DumpInput& in, const string& text) {
  const string& data = in.data;
  uint64_t flags = in.flags;
  bool color = flags & F::COLOR;
  bool diff = in.has_prev;
  if (data.empty()) {
    VCHECK(text.empty(), "dump-empty-data-prints", "dump of zero bytes printed ", text.size(), " characters");
    return;
  }
  u128 start = in.start, end = start + data.size();
  u128 first_line = start & ~static_cast<u128>(15), last_line = (end - 1) & ~static_cast<u128>(15);
  vector<vector<Cell>> lines = tokenize_dump(text, color);

  // address column width: forced minimum, or the smallest of 2/4/8/16 that holds every line address
  size_t forced = (flags & F::O8) ? 2 : (flags & F::O16) ? 4 : (flags & F::O32) ? 8 : (flags & F::O64) ? 16 : 0;
  auto digits_needed = [](u128 v) {
    size_t n = 1;
    while (v >>= 4) n++;
    return n;
  };
  size_t auto_width = 2;
  while (auto_width < digits_needed(last_line)) auto_width *= 2;

  auto byte_at = [&](u128 a) { return static_cast<uint8_t>(data[static_cast<size_t>(a - start)]); };
  auto prev_at = [&](u128 a) { return static_cast<uint8_t>(in.prev[static_cast<size_t>(a - start)]); };
  auto valid = [&](u128 a) { return a >= start && a < end; };
  auto line_is_zero = [&](u128 la) {
    for (int k = 0; k < 16; k++) {
      if (!valid(la + k)) return false;
      if (byte_at(la + k) != 0) return false;
      if (diff && prev_at(la + k) != 0) return false;
    }
    return true;
  };

  size_t li = 0;
  for (u128 la = first_line; la <= last_line; la += 16) {
    bool interior = (la != first_line) && (la != last_line);
    bool omit = (flags & F::COLLAPSE) && interior && line_is_zero(la);
    DumpLine d;
    bool present = false;
    if (li < lines.size()) {
      d = decode_line(lines[li], flags);
      present = (static_cast<u128>(d.addr) == la);
    }
    if (omit) {
      // "zero-line collapsing omits only all-zero interior lines": such a line MAY be omitted; a dumper that keeps some of them (the
      // first of each run, like hexdump does) omits only what it may. A kept line is decoded and compared like every other line.
      if (!present) continue;
      ctx().cls("dump:collapse keeps an all-zero interior line");
    }
    if (!present) {
      const char* why = (flags & F::COLLAPSE) ? (interior ? (diff ? "dump-collapse-omitted-nonzero-line:prev" : "dump-collapse-omitted-nonzero-line") : "dump-collapse-omitted-edge-line") : "dump-line-missing";
      VFAIL(why, "line for address ", (uint64_t)la, " is missing; next printed line: ", li < lines.size() ? cells_text(lines[li], 0, 24) : string("<end>"));
    }
    li++;
    // address width
    if (forced) {
      VCHECK(d.addr_digits == std::max(forced, digits_needed(la)), "dump-address-width:forced", "address ", (uint64_t)la, " printed with ", d.addr_digits, " digits, OFFSET flag demands ", forced);
    } else {
      VCHECK(d.addr_digits == auto_width, "dump-address-width:auto", "address ", (uint64_t)la, " printed with ", d.addr_digits, " digits; a dump ending at ", (uint64_t)end, " needs ", auto_width);
    }
    // hex + ascii columns
    for (int k = 0; k < 16; k++) {
      u128 a = la + k;
      if (!valid(a)) {
        VCHECK(d.hexv[k] < 0, "dump-hex-outside-range", "cell for address ", (uint64_t)a, " outside the dumped range shows ", d.hexv[k]);
        VCHECK(!d.hex_red[k], "dump-highlight-outside-range", "blank cell highlighted");
        if (flags & F::ASCII) VCHECK(d.ascii[k] == ' ' && !d.ascii_red[k] && !d.ascii_inv[k], "dump-ascii-outside-range", "ASCII cell outside the dumped range is not blank");
        continue;
      }
      uint8_t b = byte_at(a);
      VCHECK(d.hexv[k] == b, d.hexv[k] < 0 ? "dump-hex-missing" : "dump-hex-value", "address ", (uint64_t)a, " holds ", (int)b, " but the dump shows ", d.hexv[k], " (start ", in.start, ", size ", data.size(), ")");
      bool changed = diff && prev_at(a) != b;
      VCHECK(d.hex_red[k] == (color && changed), d.hex_red[k] ? "dump-highlight-unchanged-byte" : "dump-highlight-missing", "hex cell at ", (uint64_t)a, changed ? " differs from" : " equals", " the previous buffer but is ", d.hex_red[k] ? "" : "not ", "highlighted");
      if (flags & F::ASCII) {
        bool printable = (b >= 0x20 && b <= 0x7E);
        VCHECK(d.ascii[k] == (printable ? static_cast<char>(b) : ' '), "dump-ascii-value", "ASCII cell at ", (uint64_t)a, " shows '", d.ascii[k], "' for byte ", (int)b);
        VCHECK(d.ascii_red[k] == (color && changed), d.ascii_red[k] ? "dump-highlight-unchanged-byte" : "dump-highlight-missing", "ASCII cell at ", (uint64_t)a, " highlight is wrong");
        VCHECK(d.ascii_inv[k] == (color && !printable), "dump-ascii-inverse", "ASCII cell at ", (uint64_t)a, " inverse attribute is wrong");
      }
    }
    // float / double columns
    bool big = (flags & F::REV) ? true : (flags & F::BIG) ? true : false; // host is little-endian (asserted in main)
    auto field_check = [&](int count, int width, const string* texts, const bool* reds, const char* what) {
      for (int f = 0; f < count; f++) {
        u128 a0 = la + f * width;
        bool all_valid = valid(a0) && valid(a0 + width - 1);
        if (!all_valid) {
          VCHECK(texts[f] == string(13, ' ') && !reds[f], cat("dump-", what, "-partial-field"), what, " field at ", (uint64_t)a0, " is not fully inside the dumped range but shows '", texts[f], "'");
          continue;
        }
        uint64_t bits = 0, pbits = 0;
        for (int k = 0; k < width; k++) {
          int sh = big ? 8 * (width - 1 - k) : 8 * k;
          bits |= static_cast<uint64_t>(byte_at(a0 + k)) << sh;
          if (diff) pbits |= static_cast<uint64_t>(prev_at(a0 + k)) << sh;
        }
        double v, pv = 0;
        if (width == 4) {
          uint32_t b32 = static_cast<uint32_t>(bits), p32 = static_cast<uint32_t>(pbits);
          float fv, pfv;
          memcpy(&fv, &b32, 4);
          memcpy(&pfv, &p32, 4);
          v = fv;
          pv = pfv;
        } else {
          memcpy(&v, &bits, 8);
          memcpy(&pv, &pbits, 8);
        }
        char exp[64];
        snprintf(exp, sizeof(exp), " %12.5g", v);
        bool same_text = (texts[f] == exp) || (is_nan_text(texts[f]) && is_nan_text(exp) && texts[f].size() == 13);
        VCHECK(same_text, cat("dump-", what, "-value"), what, " field at ", (uint64_t)a0, " shows '", texts[f], "' expected '", exp, "'");
        // "only bytes differing from the previous buffer are highlighted": a field is red iff one of its bytes changed
        bool changed = color && diff && (bits != pbits);
        (void)pv;
        VCHECK(reds[f] == changed, cat("dump-highlight-float-field:", reds[f] ? "unchanged-bytes-highlighted" : "changed-bytes-not-highlighted", isnan(v) ? ":nan" : (v == 0 ? ":zero" : "")), what, " field at ", (uint64_t)a0, " is ", reds[f] ? "" : "not ", "highlighted; bytes ", bits == pbits || !diff ? "equal" : "differ from", " the previous buffer", diff ? "" : " (none given)");
      }
    };
    if (flags & F::FLOAT) field_check(4, 4, d.ffield, d.f_red, "float");
    if (flags & F::DOUBLE) field_check(2, 8, d.dfield, d.d_red, "double");
  }
  VCHECK(li == lines.size(), "dump-extra-lines", lines.size() - li, " unexpected line(s) after address ", (uint64_t)last_line, ": ", li < lines.size() ? cells_text(lines[li], 0, 30) : string());
}

static vector<struct iovec> make_iovs(const char* base, size_t size, const vector<size_t>& cuts) {
  vector<struct iovec> v;
  size_t from = 0;
  for (size_t k = 0; k <= cuts.size(); k++) {
    size_t to = (k < cuts.size()) ? cuts[k] : size;
    struct iovec io;
    io.iov_base = (to > from) ? const_cast<char*>(base + from) : nullptr;
    io.iov_len = to - from;
    v.push_back(io);
    from = to;
  }
  return v;
}

static string via_stream(const std::function<void(FILE*)>& f) {
  char* mem = nullptr;
  size_t len = 0;
  FILE* s = open_memstream(&mem, &len);
  if (!s) throw std::logic_error("open_memstream failed");
  try {
    f(s);
  } catch (...) {
    fclose(s);
    free(mem);
    throw;
  }
  fclose(s);
  string r(mem, len);
  free(mem);
  return r;
}

// case: s=[data, prev], n=[start, flags, has_prev, api, ndata_cuts, cuts..., nprev_cuts, cuts...]
static void run_dump_inner(const Case& c) {
  DumpInput in;
  // exactly-sized heap copies: any read past the buffers is an ASan error
  in.data = c.str(0);
  in.prev = c.str(1);
  in.start = c.u(0);
  in.flags = c.u(1);
  in.has_prev = c.u(2) != 0;
  bool api = c.u(3) != 0;
  size_t pos = 4;
  vector<size_t> dcuts, pcuts;
  size_t nd = c.u(pos++);
  for (size_t k = 0; k < nd; k++) dcuts.push_back(c.u(pos++));
  size_t np = c.u(pos++);
  for (size_t k = 0; k < np; k++) pcuts.push_back(c.u(pos++));
  if (in.has_prev && in.prev.size() != in.data.size()) throw std::logic_error("previous buffer must have the size of the data");
  if (nd > 3 || np > 3 || !std::is_sorted(dcuts.begin(), dcuts.end()) || !std::is_sorted(pcuts.begin(), pcuts.end()) ||
      (nd && dcuts.back() > in.data.size()) || (np && pcuts.back() > in.prev.size())) throw std::logic_error("bad partition");
  if (static_cast<u128>(in.start) + in.data.size() > (static_cast<u128>(1) << 64)) throw std::logic_error("dump beyond the 64-bit address space");
  std::unique_ptr<char[]> dbuf(new char[in.data.size() ? in.data.size() : 1]), pbuf(new char[in.data.size() ? in.data.size() : 1]);
  memcpy(dbuf.get(), in.data.data(), in.data.size());
  if (in.has_prev) memcpy(pbuf.get(), in.prev.data(), in.data.size());
  const void* dp = dbuf.get();
  const void* pp = in.has_prev ? pbuf.get() : nullptr;
  size_t size = in.data.size();

  string base = phosg::format_data(dp, size, in.start, pp, in.flags);
  check_dump_text(in, base);

  // partition independence
  vector<struct iovec> div = make_iovs(dbuf.get(), size, dcuts), piv;
  if (in.has_prev) piv = make_iovs(pbuf.get(), size, pcuts);
  string parted = phosg::format_data(div.data(), div.size(), in.start, in.has_prev ? piv.data() : nullptr, in.has_prev ? piv.size() : 0, in.flags);
  VCHECK(parted == base, "dump-partition-dependence", "dump of ", size, " bytes at ", in.start, " split into ", div.size(), " iovecs (prev ", piv.size(), ") differs from the single-buffer dump");

  if (api) {
    // every public overload forwards to the same core
    string t;
    t = phosg::format_data(div, in.start, in.has_prev ? &piv : nullptr, in.flags);
    VCHECK(t == base, "dump-overload:format_data(vector)", "differs from the single-buffer dump");
    t = phosg::format_data(in.data, in.start, pp, in.flags);
    VCHECK(t == base, "dump-overload:format_data(string)", "differs from the pointer overload");
    {
      string acc;
      phosg::format_data([&](const void* p, size_t n) { acc.append(static_cast<const char*>(p), n); }, div.data(), div.size(), in.start, in.has_prev ? piv.data() : nullptr, in.has_prev ? piv.size() : 0, in.flags);
      VCHECK(acc == base, "dump-overload:format_data(callback)", "differs from the single-buffer dump");
    }
    // print_data decides on colour itself when neither colour flag is given: a memory stream is not a terminal
    t = via_stream([&](FILE* f) { phosg::print_data(f, dp, size, in.start, pp, in.flags); });
    VCHECK(t == base, "dump-overload:print_data(pointer)", "differs from format_data");
    t = via_stream([&](FILE* f) { phosg::print_data(f, in.data, in.start, pp, in.flags); });
    VCHECK(t == base, "dump-overload:print_data(string)", "differs from format_data");
    t = via_stream([&](FILE* f) { phosg::print_data(f, div.data(), div.size(), in.start, in.has_prev ? piv.data() : nullptr, in.has_prev ? piv.size() : 0, in.flags); });
    VCHECK(t == base, "dump-overload:print_data(iovec*)", "differs from format_data");
    t = via_stream([&](FILE* f) { phosg::print_data(f, div, in.start, in.has_prev ? &piv : nullptr, in.flags); });
    VCHECK(t == base, "dump-overload:print_data(vector)", "differs from format_data");
  }

  bool zero_run = false;
  if (in.flags & F::COLLAPSE) {
    u128 st = in.start;
    for (u128 la = (st & ~static_cast<u128>(15)) + 16; la + 32 <= st + size && !zero_run; la += 16) {
      bool z = true;
      for (int k = 0; k < 16 && z; k++) z = in.data[static_cast<size_t>(la + k - st)] == 0;
      zero_run = z;
    }
  }
  if (size && ((in.start & 15) || div.size() > 1 || zero_run)) ctx().nontrivial_case();
  ctx().cls((in.start & 15) ? "dump:unaligned-start" : "dump:aligned-start");
  if (zero_run) ctx().cls("dump:collapsible-zero-run");
  if (in.has_prev && (in.flags & F::COLOR)) ctx().cls("dump:colour-diff");
}

static void run_dump(const Case& c) {
  // Dumps whose last line reaches the top of the 64-bit address space get their own signature: the address arithmetic of
  // the dumper wrapped there (repaired; see known/C09.json).
  bool top = !c.str(0).empty() && (static_cast<u128>(c.u(0)) + c.str(0).size() > (static_cast<u128>(1) << 64) - 16) &&
      (static_cast<u128>(c.u(0)) + c.str(0).size() <= (static_cast<u128>(1) << 64));
  if (!top) {
    run_dump_inner(c);
    return;
  }
  try {
    run_dump_inner(c);
  } catch (const Fail& f) {
    VFAIL("dump-address-wrap-at-2^64", f.sig, ": ", f.msg);
  } catch (const std::logic_error& e) {
    VFAIL("dump-address-wrap-at-2^64", "logic_error: ", e.what());
  }
}

// ---------------------------------------------------------------- (c2) dumps of more than 2^31 / 2^32 bytes
//
// "For any start address", "independent of how the data is split across iovecs" has no size limit: sizes are size_t /
// uint64_t in every signature. A dump of several GiB is cheap to REQUEST because iovecs may alias: thousands of iovecs
// that all point at one block of about 1 MiB. Two ways to look at such a dump without producing gigabytes of text:
//   head   - the callback overload; the callback throws once at least K lines are complete and the output ends with a
//            line end (no terminal guard object is alive between two lines, so nothing else runs during the
//            unwinding). The first K lines must be what the column decoder expects for the first K x 16 addresses,
//            whatever lies behind them.
//   sparse - COLLAPSE_ZERO_LINES over a zero background (one aliased zero block) with a few short islands of non-zero
//            bytes at chosen distances from the start and from the end (around 2^31 and 2^32 in particular): the
//            output is the first line, the last line and the lines that touch an island, all decoded and compared.
//            The dumper still walks every line, so one such case costs seconds; there are only a few of them.
struct BigDump {
  uint64_t start = 0, total = 0, flags = 0;
  bool sparse = false;
  string block; // head: the aliased pattern block; sparse: the aliased zero block
  vector<std::pair<uint64_t, string>> islands; // sparse: offset -> non-zero bytes; sorted, disjoint, inside [0, total)

  uint8_t at(uint64_t off) const {
    if (!sparse) return static_cast<uint8_t>(block[off % block.size()]);
    for (const auto& is : islands)
      if (off >= is.first && off - is.first < is.second.size()) return static_cast<uint8_t>(is.second[off - is.first]);
    return 0;
  }
  void tile(vector<struct iovec>& v, uint64_t len) const {
    while (len) {
      uint64_t n = std::min<uint64_t>(len, block.size());
      v.push_back(iovec{const_cast<char*>(block.data()), static_cast<size_t>(n)});
      len -= n;
    }
  }
  vector<struct iovec> iovs() const {
    vector<struct iovec> v;
    uint64_t pos = 0;
    for (const auto& is : islands) {
      tile(v, is.first - pos);
      v.push_back(iovec{const_cast<char*>(is.second.data()), is.second.size()});
      pos = is.first + is.second.size();
    }
    tile(v, total - pos);
    return v;
  }
};

static string big_where(const BigDump& b, u128 la) {
  // position class of a line for the failure signature
  u128 first = static_cast<u128>(b.start) & ~static_cast<u128>(15);
  u128 from_start = la - first, to_end = static_cast<u128>(b.start) + b.total - la;
  auto cls = [](u128 d) { return d < (static_cast<u128>(1) << 31) ? "<2^31" : (d < (static_cast<u128>(1) << 32) ? "<2^32" : ">=2^32"); };
  return cat("line-", cls(from_start), "-from-start,", cls(to_end), "-to-end");
}

static void check_big_lines(const BigDump& b, const vector<vector<Cell>>& lines, const vector<u128>& addrs) {
  u128 start = b.start, end = start + b.total;
  u128 last_line = (end - 1) & ~static_cast<u128>(15);
  uint64_t flags = b.flags;
  size_t forced = (flags & F::O8) ? 2 : (flags & F::O16) ? 4 : (flags & F::O32) ? 8 : (flags & F::O64) ? 16 : 0;
  auto digits_needed = [](u128 v) {
    size_t n = 1;
    while (v >>= 4) n++;
    return n;
  };
  size_t auto_width = 2;
  while (auto_width < digits_needed(last_line)) auto_width *= 2;
  size_t pl = 0; // index into the printed lines
  for (size_t li = 0; li < addrs.size(); li++, pl++) {
    u128 la = addrs[li];
    string where = big_where(b, la);
    VCHECK(pl < lines.size(), cat("dump-big:line-missing:", where), "the dump of ", b.total, " bytes at ", b.start, " has no line for address ", (uint64_t)la, " (", lines.size(), " lines printed, ", addrs.size(), " expected)");
    DumpLine d = decode_line(lines[pl], flags);
    // with COLLAPSE_ZERO_LINES an all-zero interior line may be omitted, it need not be: lines the dumper kept between two expected
    // ones must be in place, in order and show zeros only (at most 64 of them - nobody keeps gigabytes of zero lines)
    for (size_t kept = 0; (flags & F::COLLAPSE) && static_cast<u128>(d.addr) != la && kept < 64; kept++) {
      u128 ka = d.addr;
      bool ok = (ka % 16 == 0) && ka > (li ? addrs[li - 1] : (static_cast<u128>(b.start) & ~static_cast<u128>(15))) && ka < la;
      for (int k = 0; ok && k < 16; k++) ok = (d.hexv[k] == 0);
      if (!ok) break;
      ctx().cls("bigdump:collapse keeps an all-zero interior line");
      pl++;
      VCHECK(pl < lines.size(), cat("dump-big:line-missing:", where), "the dump of ", b.total, " bytes at ", b.start, " has no line for address ", (uint64_t)la);
      d = decode_line(lines[pl], flags);
    }
    VCHECK(static_cast<u128>(d.addr) == la, cat("dump-big:line-address:", where), "line ", li, " of the dump of ", b.total, " bytes at ", b.start, " is for address ", d.addr, ", expected ", (uint64_t)la);
    VCHECK(d.addr_digits == (forced ? std::max(forced, digits_needed(la)) : auto_width), "dump-big:address-width", "address ", (uint64_t)la, " printed with ", d.addr_digits, " digits");
    for (int k = 0; k < 16; k++) {
      u128 a = la + k;
      if (a < start || a >= end) {
        VCHECK(d.hexv[k] < 0, cat("dump-big:hex-outside-range:", where), "cell for address ", (uint64_t)a, " outside the dumped range shows ", d.hexv[k]);
        if (flags & F::ASCII) VCHECK(d.ascii[k] == ' ', cat("dump-big:ascii-outside-range:", where), "ASCII cell outside the dumped range is not blank");
        continue;
      }
      uint8_t v = b.at(static_cast<uint64_t>(a - start));
      VCHECK(d.hexv[k] == v, cat(d.hexv[k] < 0 ? "dump-big:hex-missing:" : "dump-big:hex-value:", where), "address ", (uint64_t)a, " (offset ", (uint64_t)(a - start), " of ", b.total, " bytes dumped at ", b.start, ") holds ", (int)v, " but the dump shows ", d.hexv[k]);
      if (flags & F::ASCII) {
        bool printable = (v >= 0x20 && v <= 0x7E);
        VCHECK(d.ascii[k] == (printable ? static_cast<char>(v) : ' '), cat("dump-big:ascii-value:", where), "ASCII cell at ", (uint64_t)a, " shows '", d.ascii[k], "' for byte ", (int)v);
      }
    }
  }
  VCHECK(lines.size() == pl, "dump-big:extra-lines", lines.size() - pl, " unexpected line(s) in the dump of ", b.total, " bytes at ", b.start, "; first: ", cells_text(lines[pl], 0, 30));
}

struct StopDump {};

// case: n=[mode (0 head, 1 sparse), block length, total size, start, flags, pattern seed, then
//          head: K;  sparse: entry point (0 format_data(iovec*), 1 callback, 2 format_data(vector), 3 print_data(FILE*, iovec*)), island count, (offset, length)...]
static void run_bigdump(const Case& c) {
  BigDump b;
  bool sparse = c.u(0) != 0;
  uint64_t block_len = c.u(1), seed = c.u(5);
  b.sparse = sparse;
  b.total = c.u(2);
  b.start = c.u(3);
  b.flags = c.u(4);
  if (block_len < 4096 || block_len > (8u << 20) || b.total == 0 || b.total / block_len > 40000) throw std::logic_error("bigdump case outside domain");
  if (static_cast<u128>(b.start) + b.total > (static_cast<u128>(1) << 64)) throw std::logic_error("dump beyond the 64-bit address space");
  if (b.flags & (F::COLOR | F::FLOAT | F::DOUBLE)) throw std::logic_error("bigdump: flag outside domain");
  // exactly-sized heap block: reads past it are ASan errors
  b.block.assign(block_len, '\0');
  if (!sparse)
    for (uint64_t i = 0; i < block_len; i++) b.block[i] = static_cast<char>(1 + ((i * 2654435761ULL + seed) >> 7) % 255);
  u128 first_line = static_cast<u128>(b.start) & ~static_cast<u128>(15);
  u128 last_line = (static_cast<u128>(b.start) + b.total - 1) & ~static_cast<u128>(15);
  Watchdog wd(600);
  if (!sparse) {
    size_t want = c.u(6);
    if (want == 0 || want > 64) throw std::logic_error("bigdump: line count outside domain");
    vector<struct iovec> iv = b.iovs();
    string out;
    size_t nl = 0;
    try {
      phosg::format_data([&](const void* p, size_t n) {
        // how the output is cut into callback calls is the dumper's business (per field, per line, ...): count the
        // line ends wherever they come
        out.append(static_cast<const char*>(p), n);
        nl += static_cast<size_t>(std::count(static_cast<const char*>(p), static_cast<const char*>(p) + n, '\n'));
        if (nl >= want && n && static_cast<const char*>(p)[n - 1] == '\n') throw StopDump();
      }, iv.data(), iv.size(), b.start, nullptr, 0, b.flags);
    } catch (const StopDump&) {
    }
    {
      // keep the first `want` lines (a dumper that hands over several lines per call has delivered more)
      size_t pos = 0, seen = 0;
      while (seen < want && (pos = out.find('\n', pos)) != string::npos) pos++, seen++;
      if (seen == want && pos != string::npos) out.resize(pos);
    }
    vector<u128> addrs;
    for (u128 la = first_line; la <= last_line && addrs.size() < want; la += 16) addrs.push_back(la);
    check_big_lines(b, tokenize_dump(out, false), addrs);
    ctx().cls("bigdump:head");
  } else {
    uint64_t entry = c.u(6), n_islands = c.u(7);
    if (n_islands > 64 || !(b.flags & F::COLLAPSE)) throw std::logic_error("bigdump: sparse case outside domain");
    uint64_t pos = 0;
    for (uint64_t k = 0; k < n_islands; k++) {
      uint64_t off = c.u(8 + 2 * k), len = c.u(9 + 2 * k);
      if (off < pos || len == 0 || len > 4096 || off + len > b.total) throw std::logic_error("bigdump: islands must be sorted, disjoint and inside the data");
      string bytes(len, '\0');
      for (uint64_t i = 0; i < len; i++) bytes[i] = static_cast<char>(1 + (((off + i) * 2654435761ULL + seed) >> 7) % 255);
      b.islands.emplace_back(off, bytes);
      pos = off + len;
    }
    vector<struct iovec> iv = b.iovs();
    string out;
    switch (entry) {
      case 0: out = phosg::format_data(iv.data(), iv.size(), b.start, nullptr, 0, b.flags); break;
      case 1: phosg::format_data([&](const void* p, size_t n) { out.append(static_cast<const char*>(p), n); }, iv.data(), iv.size(), b.start, nullptr, 0, b.flags); break;
      case 2: out = phosg::format_data(iv, b.start, nullptr, b.flags); break;
      case 3: out = via_stream([&](FILE* f) { phosg::print_data(f, iv.data(), iv.size(), b.start, nullptr, 0, b.flags); }); break;
      default: throw std::logic_error("bigdump: entry point outside domain");
    }
    std::set<u128> want_lines = {first_line, last_line};
    for (const auto& is : b.islands)
      for (u128 la = (static_cast<u128>(b.start) + is.first) & ~static_cast<u128>(15); la < static_cast<u128>(b.start) + is.first + is.second.size(); la += 16) want_lines.insert(la);
    check_big_lines(b, tokenize_dump(out, false), vector<u128>(want_lines.begin(), want_lines.end()));
    ctx().cls("bigdump:sparse");
  }
  if (b.total > (1ULL << 31)) ctx().nontrivial_case();
  ctx().cls(b.total <= (1ULL << 31) ? "bigdump:total<=2^31" : (b.total <= (1ULL << 32) ? "bigdump:total<=2^32" : "bigdump:total>2^32"));
}

// ---------------------------------------------------------------- generators

static string gen_mask(size_t len) {
  string m(len, '\0');
  switch (vg::below(5)) {
    case 0: return string(len, '\xFF');
    case 1: return m;
    case 2: {
      // random runs of 1..8 bytes, alternately masked-in (any non-zero value) and masked-out
      string r = fastgen::bytes(len + 1);
      bool on = r[len] & 1;
      size_t i = 0;
      while (i < len) {
        size_t run = 1 + (static_cast<unsigned char>(r[i]) & 7);
        for (size_t k = 0; k < run && i < len; k++, i++) m[i] = on ? static_cast<char>(static_cast<unsigned char>(r[i]) | 1) : 0;
        on = !on;
      }
      return m;
    }
    case 3:
      for (size_t i = 0; i < len; i++) m[i] = (i & 1) ? '\x01' : '\0';
      return m;
    default:
      return fastgen::bytes_from(LIT("\x80\0"), len);
  }
}

static Case gen_roundtrip() {
  size_t len = vg::chance(1, 4) ? vg::scaled(600) : vg::scaled(40);
  string data;
  switch (vg::below(4)) {
    case 0: data = fastgen::bytes(len); break;
    case 1: data = fastgen::bytes_from("\\\"'?$#%/*<>abc 0123\n\r\t~", len); break;
    case 2: {
      // printable only
      data = fastgen::bytes(len);
      for (auto& ch : data) ch = static_cast<char>(0x20 + static_cast<unsigned char>(ch) % 0x5F);
      for (size_t k = vg::below(4); k > 0 && len; k--) data[vg::below(len)] = vg::pick<int>({'\\', '"', '\'', '?', '\n', '\t', '\r'});
      break;
    }
    default: data = fastgen::bytes_from(LIT("\\\"'n?a\n\0"), len); break;
  }
  bool use_mask = vg::coin();
  string mask = use_mask ? gen_mask(len) : string();
  return Case("roundtrip").S(data).S(mask).N(vg::chance(1, 3) ? 1 : 0).N(use_mask).N(vg::chance(1, 4));
}

struct GrammarText {
  string text, data, mask;
  bool mask_on = true, big = false;
  void out(char b) {
    data.push_back(b);
    mask.push_back(mask_on ? '\xFF' : '\x00');
  }
  void out_int(uint64_t v, unsigned bytes) {
    for (unsigned k = 0; k < bytes; k++) out(static_cast<char>(v >> (big ? 8 * (bytes - 1 - k) : 8 * k)));
  }
};

static const string kSeparators = LIT(" \t\n\r,;:_-+.()[]{}|~^=!@&*<>ghijklmnopqrstuvwxyzGHIJKLMNOPQRSTUVWXYZ\x01\x1f\x7f\x80\xfe\xff");

static void gen_separator(GrammarText& g, bool mandatory_safe_first) {
  if (mandatory_safe_first) g.text += vg::pick<int>({' ', '\n', ',', ';', '\t'});
  size_t n = vg::below(4);
  for (size_t k = 0; k < n; k++) {
    if (vg::chance(1, 12)) g.text += "/ ";
    else g.text += kSeparators[vg::below(kSeparators.size())];
  }
}

static string gen_comment_body(bool line) {
  size_t n = vg::below(12);
  string b;
  static const string alphabet = LIT("/*\" '?$#%0189afAF\\x \t<>\r");
  for (size_t k = 0; k < n; k++) b += vg::chance(1, 6) ? static_cast<char>(1 + vg::below(255)) : alphabet[vg::below(alphabet.size())];
  if (line) {
    for (auto& ch : b)
      if (ch == '\n') ch = ' ';
  } else {
    if (vg::chance(1, 4)) b += '\n';
    size_t at;
    while ((at = b.find("*/")) != string::npos) b[at + 1] = '.';
  }
  return b;
}

static void gen_number(GrammarText& g) {
  unsigned hashes = 1 + vg::below(4);
  unsigned bytes = 1u << (hashes - 1);
  uint64_t maxv = (bytes == 8) ? UINT64_MAX : ((1ULL << (8 * bytes)) - 1);
  g.text += string(hashes, '#');
  char buf[40];
  switch (vg::below(3)) {
    case 0: { // non-negative decimal
      uint64_t v = vg::coin() ? (vg::interesting64() & maxv) : vg::below(300) & maxv;
      if (vg::chance(1, 8)) v = maxv;
      snprintf(buf, sizeof(buf), "%llu", (unsigned long long)v);
      g.text += buf;
      g.out_int(v, bytes);
      break;
    }
    case 1: { // negative decimal, magnitude <= 2^(bits-1)
      uint64_t lim = 1ULL << (8 * bytes - 1);
      uint64_t mag = vg::chance(1, 6) ? lim : 1 + (vg::coin() ? vg::below(200) % lim : vg::interesting64() % lim);
      snprintf(buf, sizeof(buf), "-%llu", (unsigned long long)mag);
      g.text += buf;
      g.out_int(0 - mag, bytes);
      break;
    }
    default: { // hexadecimal
      uint64_t v = vg::interesting64() & maxv;
      snprintf(buf, sizeof(buf), vg::coin() ? "0x%llX" : (vg::coin() ? "0x%llx" : "0X%04llx"), (unsigned long long)v);
      g.text += buf;
      g.out_int(v, bytes);
      break;
    }
  }
}

// --- float literals that need correct rounding
//
// "%x" / "%%x" denote the single / double NEAREST to the literal x. Literals printed from a float with 9 / 17 digits never
// put that to the test: they sit in the middle of their rounding interval. The hard literals are the long ones next to a
// rounding boundary: the midpoint between two adjacent singles (doubles) is itself a number with one more mantissa bit, and
// a literal just below / exactly on / just above it must give the lower / the even / the upper neighbour. Expectations are
// built with integer arithmetic only: a neighbour pair is (m, m+1) x 2^e, its midpoint (2m+1) x 2^(e-1); the exact decimal
// expansion of M x 2^E is computed digit by digit (M x 5^-E shifted by -E places for E < 0).

// exact decimal expansion of M * 2^E: `digits` is an integer numeral with `frac` of its digits after the point
struct ExactDecimal {
  string digits;
  size_t frac = 0;
};
static ExactDecimal exact_decimal(uint64_t M, int E) {
  vector<uint8_t> d; // little-endian decimal digits
  for (uint64_t v = M; v; v /= 10) d.push_back(static_cast<uint8_t>(v % 10));
  if (d.empty()) d.push_back(0);
  auto mul = [&](unsigned f) {
    unsigned carry = 0;
    for (auto& x : d) {
      unsigned v = x * f + carry;
      x = static_cast<uint8_t>(v % 10);
      carry = v / 10;
    }
    while (carry) {
      d.push_back(static_cast<uint8_t>(carry % 10));
      carry /= 10;
    }
  };
  ExactDecimal r;
  for (int k = 0; k < E; k++) mul(2);
  for (int k = 0; k < -E; k++) mul(5);
  if (E < 0) r.frac = static_cast<size_t>(-E);
  while (d.size() <= r.frac) d.push_back(0); // at least one digit before the point
  for (size_t k = d.size(); k-- > 0;) r.digits.push_back(static_cast<char>('0' + d[k]));
  return r;
}

// A literal for the exact value `x` moved by less than one unit of its last digit: dir < 0 below, 0 exactly, > 0 above.
// `pad` extra digits are appended (for dir != 0 at least one), `tail` supplies them (any digits; adjusted so that the
// literal really differs from x). style: 0 plain, 1 scientific, 2 plain with a redundant exponent.
static string perturbed_literal(ExactDecimal x, int dir, size_t pad, const string& tail, unsigned style) {
  if (dir < 0) {
    // x - (something < 1 unit in the last place) = (digits - 1) followed by 9..., i.e. any tail that is not all zeros
    size_t k = x.digits.size();
    while (k-- > 0) {
      if (x.digits[k] != '0') {
        x.digits[k]--;
        break;
      }
      x.digits[k] = '9';
    }
  }
  if (dir != 0 && pad == 0) pad = 1;
  for (size_t k = 0; k < pad; k++) {
    char ch = (tail.empty() || dir == 0) ? '0' : static_cast<char>('0' + static_cast<unsigned char>(tail[k % tail.size()]) % 10);
    if (dir < 0 && k + 4 < pad) ch = '9'; // hug the boundary: 999..9xyz
    if (dir > 0 && k + 4 < pad) ch = '0'; // 000..0xyz
    x.digits.push_back(ch);
    x.frac++;
  }
  if (dir != 0 && x.digits.find_first_not_of('0', x.digits.size() - pad) == string::npos) x.digits.back() = '1';
  size_t intlen = x.digits.size() - x.frac;
  string r;
  if (style == 1) {
    size_t f = x.digits.find_first_not_of('0');
    if (f == string::npos) return "0";
    r = x.digits.substr(f, 1);
    if (f + 1 < x.digits.size()) r += "." + x.digits.substr(f + 1);
    long e10 = static_cast<long>(intlen) - 1 - static_cast<long>(f);
    r += cat((f & 1) ? "E" : "e", (e10 >= 0 && (f & 2)) ? "+" : "", e10);
    return r;
  }
  size_t lead = 0;
  while (lead + 1 < intlen && x.digits[lead] == '0') lead++;
  r = x.digits.substr(lead, intlen - lead);
  if (x.frac) r += "." + x.digits.substr(intlen);
  if (style == 2) r += "e0";
  return r;
}

// A hexadecimal literal for (m . extra-bits) x 2^e: `bits` is the binary numeral (mantissa bits then extra bits), the value
// is bits x 2^(e - extra). lead_zero_bits (0..3) shifts the hex digit alignment, int_digits hex digits go before the point.
static string hex_float_literal(const string& bits, long exp2_of_last_bit, unsigned lead_zero_bits, size_t int_digits, bool upper) {
  string b = string(lead_zero_bits, '0') + bits;
  while (b.size() % 4) {
    b += '0';
    exp2_of_last_bit--;
  }
  string h;
  for (size_t k = 0; k < b.size(); k += 4) {
    int v = (b[k] - '0') * 8 + (b[k + 1] - '0') * 4 + (b[k + 2] - '0') * 2 + (b[k + 3] - '0');
    h += (upper ? "0123456789ABCDEF" : "0123456789abcdef")[v];
  }
  if (int_digits > h.size()) int_digits = h.size();
  long e = exp2_of_last_bit + 4 * static_cast<long>(h.size() - int_digits);
  string r = upper ? "0X" : "0x";
  r += h.substr(0, int_digits);
  if (int_digits < h.size() || (lead_zero_bits & 1)) r += "." + h.substr(int_digits);
  r += cat(upper ? "P" : "p", (e >= 0 && (lead_zero_bits & 2)) ? "+" : "", e);
  return r;
}

// One hard literal: neighbours (m, m+1) x 2^e of the single (dbl: double) format, a literal at distance `dir` from their
// midpoint, in decimal or hexadecimal notation; returns the text and the bits the syntax defines.
struct HardFloat {
  string literal;
  uint64_t bits;
};
static HardFloat hard_float(bool dbl, uint64_t m, int e, int dir, bool hexform, size_t pad, const string& tail, unsigned style, bool neg) {
  uint64_t keep = (dir < 0) ? m : (dir > 0) ? m + 1 : ((m & 1) ? m + 1 : m); // exact tie: the even neighbour
  HardFloat r;
  if (dbl) {
    double v = ldexp(static_cast<double>(keep), e); // exact: keep <= 2^53 and the result is representable by the choice of e
    if (neg) v = -v;
    memcpy(&r.bits, &v, 8);
  } else {
    float v = ldexpf(static_cast<float>(keep), e);
    if (neg) v = -v;
    uint32_t b32;
    memcpy(&b32, &v, 4);
    r.bits = b32;
  }
  if (!hexform) {
    r.literal = perturbed_literal(exact_decimal(2 * m + 1, e - 1), dir, pad, tail, style);
  } else {
    // binary numeral of m, then the extra bits: 1000.. (tie), 1000..01 (above), 0111..1 (below)
    string bits;
    for (uint64_t v = m; v; v >>= 1) bits.insert(bits.begin(), static_cast<char>('0' + (v & 1)));
    size_t extra = 1 + std::max<size_t>(pad, dir != 0 ? 1 : 0);
    string x(extra, dir < 0 ? '1' : '0');
    x[0] = dir < 0 ? '0' : '1';
    if (dir != 0) {
      // the last few bits from the tail (they do not change the side of the midpoint), the very last one set
      for (size_t k = 0; k < tail.size() && k + 2 < extra && k < 5; k++) x[extra - 2 - k] = static_cast<char>('0' + (static_cast<unsigned char>(tail[k]) & 1));
      x.back() = '1';
    }
    r.literal = hex_float_literal(bits + x, static_cast<long>(e) - static_cast<long>(extra), style & 3, 1 + (style >> 2) % 3, (style >> 4) & 1);
  }
  if (neg) r.literal = "-" + r.literal;
  return r;
}

// the neighbour pairs of a format: mantissa m (with its leading bit, or below it for subnormals) and exponent e such that
// m x 2^e and (m+1) x 2^e are both finite values of the format
static void gen_neighbours(bool dbl, uint64_t& m, int& e) {
  const int mant = dbl ? 53 : 24, emin = dbl ? -1074 : -149, emax = dbl ? 970 : 103;
  switch (vg::below(6)) {
    case 0: e = emin + static_cast<int>(vg::below(static_cast<uint64_t>(emax - emin + 1))); break; // anywhere, subnormal binade included
    case 1: e = -mant + 1 + static_cast<int>(vg::range(-2, 2)); break; // values around 1
    default: e = -mant + 1 + static_cast<int>(vg::range(-40, 30)); break; // moderate magnitudes: literals of 25..70 digits
  }
  uint64_t top = 1ULL << (mant - 1);
  switch (vg::below(5)) {
    case 0: m = top + vg::below(4); break;
    case 1: m = 2 * top - 1 - vg::below(4); break; // upper neighbour may be the next power of two
    default: m = top + (vg::u64() & (top - 1)); break;
  }
  if (e == emin && vg::coin()) m = 1 + (vg::u64() & (top - 1)) % (top - 1); // subnormal neighbours (m >= 1: the result is never zero)
}

static void gen_hard_float(GrammarText& g) {
  bool dbl = vg::chance(1, 3);
  uint64_t m;
  int e;
  gen_neighbours(dbl, m, e);
  int dir = static_cast<int>(vg::below(3)) - 1;
  bool hexform = vg::chance(1, 3);
  // extra decimal digits / extra bits beyond the midpoint's own expansion (hexadecimal: up to 100 bits, so that the literal also
  // lies within 2^-53 and 2^-64 relative distance of the midpoint)
  size_t pad = vg::chance(1, 4) ? vg::below(3) : 1 + vg::below(hexform ? 100 : 30);
  HardFloat h = hard_float(dbl, m, e, dir, hexform, pad, vg::bytes(6), static_cast<unsigned>(vg::below(hexform ? 32 : 3)), vg::chance(1, 4));
  g.text += dbl ? "%%" : "%";
  g.text += h.literal;
  g.out_int(h.bits, dbl ? 8 : 4);
}

static void gen_float(GrammarText& g) {
  if (vg::chance(1, 3)) {
    gen_hard_float(g);
    return;
  }
  bool dbl = vg::coin();
  g.text += dbl ? "%%" : "%";
  char buf[64];
  if (dbl) {
    double v;
    switch (vg::below(4)) {
      case 0: v = vg::pick<double>({0.0, 1.0, -1.0, 2.5, -2.667, 1e10, 1e-10, 3.141592653589793, 1e300, -1e-300, 65536.0}); break;
      case 1: v = static_cast<double>(vg::range(-100000, 100000)); break;
      case 2: v = static_cast<double>(vg::range(-1000000, 1000000)) / 1000.0; break;
      default: {
        // random finite normal double
        uint64_t bits = vg::u64();
        uint64_t ex = 1 + vg::below(2046);
        bits = (bits & 0x800FFFFFFFFFFFFFULL) | (ex << 52);
        memcpy(&v, &bits, 8);
      }
    }
    if (vg::chance(1, 4)) {
      // the same value with 18..60 significant digits (glibc prints the exact expansion, correctly rounded): still the nearest double
      char lbuf[512];
      snprintf(lbuf, sizeof(lbuf), vg::coin() ? "%.*e" : "%.*g", 17 + static_cast<int>(vg::below(44)), v);
      g.text += lbuf;
    } else {
      snprintf(buf, sizeof(buf), "%.17g", v);
      g.text += buf;
    }
    uint64_t bits;
    memcpy(&bits, &v, 8);
    g.out_int(bits, 8);
  } else {
    float v;
    switch (vg::below(4)) {
      case 0: v = vg::pick<float>({0.0f, 1.0f, -1.0f, 2.5f, -1.667f, 1e10f, 1e-10f, 3.14159274f, 1e38f, -1e-37f, 65536.0f}); break;
      case 1: v = static_cast<float>(vg::range(-100000, 100000)); break;
      case 2: v = static_cast<float>(vg::range(-1000000, 1000000)) / 1000.0f; break;
      default: {
        uint32_t bits = static_cast<uint32_t>(vg::u64());
        uint32_t ex = 1 + static_cast<uint32_t>(vg::below(254));
        bits = (bits & 0x807FFFFFu) | (ex << 23);
        memcpy(&v, &bits, 4);
      }
    }
    if (vg::chance(1, 4)) {
      char lbuf[512];
      snprintf(lbuf, sizeof(lbuf), vg::coin() ? "%.*e" : "%.*g", 9 + static_cast<int>(vg::below(52)), static_cast<double>(v));
      g.text += lbuf;
    } else {
      snprintf(buf, sizeof(buf), "%.9g", static_cast<double>(v));
      g.text += buf;
    }
    uint32_t bits;
    memcpy(&bits, &v, 4);
    g.out_int(bits, 4);
  }
}

static void gen_dq_string(GrammarText& g) {
  g.text += '"';
  size_t n = vg::below(10);
  for (size_t k = 0; k < n; k++) {
    char ch;
    switch (vg::below(5)) {
      case 0: ch = static_cast<char>(1 + vg::below(255)); break;
      case 1: ch = vg::pick<int>({'"', '\\', '\'', '\n', '\r', '\t', '?', '$', '#', '%', '/', '*'}); break;
      default: ch = static_cast<char>(0x20 + vg::below(0x5F)); break;
    }
    if (ch == '"' || ch == '\\') {
      g.text += '\\';
      g.text += ch;
    } else if (ch == '\n' && vg::coin()) {
      g.text += "\\n";
    } else if (ch == '\r' && vg::coin()) {
      g.text += "\\r";
    } else if (ch == '\t' && vg::coin()) {
      g.text += "\\t";
    } else if (ch == '\'' && vg::coin()) {
      g.text += "\\'";
    } else if (vg::chance(1, 10) && ch != 'n' && ch != 'r' && ch != 't') {
      g.text += '\\'; // a backslash before any other character yields that character
      g.text += ch;
    } else {
      g.text += ch;
    }
    g.out(ch);
  }
  g.text += '"';
}

static void gen_sq_string(GrammarText& g) {
  g.text += '\'';
  size_t n = vg::below(8);
  for (size_t k = 0; k < n; k++) {
    char ch = vg::chance(1, 4) ? vg::pick<int>({'\'', '\\', '"', '\n', '\r', '\t', '?', '$', 1, 0x7F}) : static_cast<char>(0x20 + vg::below(0x5F));
    if (ch == '\'' || ch == '\\') {
      g.text += '\\';
      g.text += ch;
    } else if (ch == '\n' && vg::coin()) {
      g.text += "\\n";
    } else if (ch == '\r' && vg::coin()) {
      g.text += "\\r";
    } else if (ch == '\t' && vg::coin()) {
      g.text += "\\t";
    } else {
      g.text += ch;
    }
    g.out_int(static_cast<uint8_t>(ch), 2);
  }
  g.text += '\'';
}

static GrammarText gen_grammar_text(size_t items) {
  GrammarText g;
  static const char* hx = "0123456789abcdefABCDEF";
  for (size_t k = 0; k < items; k++) {
    switch (vg::below(12)) {
      case 0:
      case 1:
      case 2: { // run of hex pairs, sometimes with separators between the pairs or inside a pair
        size_t pairs = 1 + vg::below(5);
        for (size_t p = 0; p < pairs; p++) {
          char a = hx[vg::below(22)], b = hx[vg::below(22)];
          g.text += a;
          if (vg::chance(1, 8)) g.text += vg::pick<int>({' ', '\n', '-', ':'});
          g.text += b;
          g.out(static_cast<char>((c09ref::hex_value(a) << 4) | c09ref::hex_value(b)));
          if (vg::chance(1, 3)) g.text += vg::pick<int>({' ', ' ', ',', '\n', ':'});
        }
        break;
      }
      case 3:
        g.text += "//" + gen_comment_body(true);
        if (k + 1 < items || vg::coin()) g.text += '\n';
        else k = items; // a line comment may run to the end of the text
        break;
      case 4: g.text += "/*" + gen_comment_body(false) + "*/"; break;
      case 5:
      case 6: gen_dq_string(g); break;
      case 7: gen_sq_string(g); break;
      case 8:
        g.text += '?';
        g.mask_on = !g.mask_on;
        break;
      case 9:
        g.text += '$';
        g.big = !g.big;
        break;
      case 10:
        gen_number(g);
        gen_separator(g, true);
        break;
      default:
        gen_float(g);
        gen_separator(g, true);
        break;
    }
    if (vg::chance(1, 2)) gen_separator(g, false);
  }
  return g;
}

static Case gen_grammar() {
  GrammarText g = gen_grammar_text(vg::chance(1, 5) ? vg::scaled(60) : 1 + vg::scaled(10));
  return Case("grammar").S(g.text).S(g.data).S(g.mask);
}

static Case gen_parse_any() {
  string t;
  switch (vg::below(4)) {
    case 0: t = fastgen::bytes_from(LIT("\"'\\/*?$#%-+.0x19aFe \n<>"), vg::scaled(80)); break;
    case 1: t = fastgen::bytes(vg::scaled(200)); break;
    default: {
      t = gen_grammar_text(1 + vg::scaled(12)).text;
      size_t edits = vg::below(4);
      static const string ins = LIT("\"'\\/*?$#%-+.0x9aF \n\0");
      for (size_t k = 0; k < edits && !t.empty(); k++) {
        size_t at = vg::below(t.size());
        switch (vg::below(4)) {
          case 0: t.erase(at, 1 + vg::below(3)); break;
          case 1: t.insert(at, 1, ins[vg::below(ins.size())]); break;
          case 2: t[at] = ins[vg::below(ins.size())]; break;
          default: t.resize(at); break;
        }
      }
    }
  }
  return Case("parse_any").S(t);
}

static const vector<uint64_t>& dump_flag_axes(int axis) {
  static const vector<uint64_t> columns = {0, F::ASCII, F::FLOAT, F::DOUBLE, F::ASCII | F::FLOAT, F::ASCII | F::DOUBLE, F::FLOAT | F::DOUBLE, F::ASCII | F::FLOAT | F::DOUBLE};
  static const vector<uint64_t> endian = {0, F::REV, F::BIG, F::LITTLE};
  static const vector<uint64_t> offset = {0, F::O8, F::O16, F::O32, F::O64};
  return axis == 0 ? columns : axis == 1 ? endian : offset;
}

static string gen_dump_data(size_t len) {
  string d;
  switch (vg::below(4)) {
    case 0: d = fastgen::bytes(len); break;
    case 1: d = fastgen::bytes_from(LIT("\0\0\0\0\0\0\0A~\x7f\x1f \xff"), len); break;
    case 2: d = string(len, '\0'); break;
    default: d = vg::expand(vg::u64(), len); break;
  }
  // plant zero runs (aligned and unaligned, 16..64 bytes)
  for (size_t k = vg::below(4); k > 0 && len >= 16; k--) {
    size_t run = 16 + vg::below(49);
    size_t at = vg::below(len);
    if (vg::coin()) at &= ~static_cast<size_t>(15);
    for (size_t i = at; i < at + run && i < len; i++) d[i] = 0;
  }
  // plant float specials
  if (len >= 8 && vg::chance(1, 4)) {
    static const uint32_t sp[] = {0x7FC00000u, 0xFFC00000u, 0x7F800000u, 0xFF800000u, 0x80000000u, 0x00000001u, 0x3F800000u, 0x0000803Fu};
    size_t at = vg::below(len - 7);
    uint32_t v = sp[vg::below(8)];
    memcpy(&d[at], &v, 4);
  }
  return d;
}

static vector<size_t> gen_cuts(size_t size) {
  vector<size_t> cuts;
  size_t n = vg::below(4);
  for (size_t k = 0; k < n; k++) cuts.push_back(vg::chance(1, 5) ? (vg::coin() ? 0 : size) : vg::below(size + 1));
  std::sort(cuts.begin(), cuts.end());
  return cuts;
}

static Case gen_dump() {
  size_t len = vg::chance(1, 3) ? vg::scaled(600) : vg::scaled(70);
  string data = gen_dump_data(len);
  bool has_prev = vg::chance(1, 2);
  string prev;
  if (has_prev) {
    prev = data;
    switch (vg::below(4)) {
      case 0: break; // identical
      case 1: prev = gen_dump_data(len); break;
      default:
        for (size_t k = vg::below(6); k > 0 && len; k--) prev[vg::below(len)] ^= static_cast<char>(1 + vg::below(255));
    }
  }
  uint64_t flags = vg::pick(dump_flag_axes(0)) | vg::pick(dump_flag_axes(1)) | (vg::chance(1, 3) ? vg::pick(dump_flag_axes(2)) : 0);
  if (vg::chance(1, 2)) flags |= F::COLLAPSE;
  if (vg::chance(1, 4)) flags |= F::SKIPSEP;
  if (vg::chance(1, 2)) flags |= F::COLOR;
  else if (vg::chance(1, 2)) flags |= F::NOCOLOR;
  // start address: the dump may end anywhere up to and including 2^64
  const u128 top = static_cast<u128>(1) << 64;
  uint64_t start;
  switch (vg::below(8)) {
    case 0: start = 0; break;
    case 1: start = vg::below(16); break;
    case 2: start = vg::below(0x10000) & ~15ULL; break;
    case 3: { // end lands on / around an address-width threshold
      uint64_t th = vg::pick<uint64_t>({0x100, 0x10000, 0x100000000ULL});
      int64_t delta = vg::range(-17, 17);
      uint64_t end = th + delta;
      start = (end >= len) ? end - len : 0;
      break;
    }
    case 4: start = vg::pick<uint64_t>({0xF0, 0xFF, 0x100, 0xFFF0, 0xFFFF, 0x10000, 0xFFFFFFF0ULL, 0xFFFFFFFFULL, 0x100000000ULL}) - vg::below(3); break;
    case 5: { // near the top of the address space
      u128 end = top - vg::below(40);
      start = static_cast<uint64_t>(end - len);
      break;
    }
    case 6: start = vg::u64(); break;
    default: start = vg::below(0x1000); break;
  }
  if (static_cast<u128>(start) + len > top) start = static_cast<uint64_t>(top - len);
  Case c("dump");
  c.S(data).S(prev).N(start).N(flags).N(has_prev).N(vg::chance(1, 6));
  vector<size_t> dc = gen_cuts(len);
  c.N(dc.size());
  for (size_t v : dc) c.N(v);
  vector<size_t> pc = has_prev ? gen_cuts(len) : vector<size_t>();
  c.N(pc.size());
  for (size_t v : pc) c.N(v);
  return c;
}

static uint64_t gen_big_flags() {
  uint64_t flags = vg::coin() ? F::ASCII : 0;
  if (vg::chance(1, 4)) flags |= F::SKIPSEP;
  if (vg::chance(1, 2)) flags |= vg::pick(dump_flag_axes(2));
  if (vg::chance(1, 3)) flags |= F::NOCOLOR;
  if (vg::chance(1, 4)) flags |= F::COLLAPSE; // the pattern block has no zero byte: nothing to collapse
  return flags;
}

// head mode only (a sparse case costs seconds; those are enumerated)
static Case gen_bigdump() {
  const uint64_t G31 = 1ULL << 31, G32 = 1ULL << 32;
  uint64_t total;
  switch (vg::below(5)) {
    case 0: total = vg::pick<uint64_t>({G31, G32, G31 + G32, 2 * G32, 3 * G32, 4 * G32 - G31}) + static_cast<uint64_t>(vg::range(-40, 40)); break;
    case 1: total = vg::pick<uint64_t>({G31, G32, G31 + G32, 2 * G32}) + vg::scaled(4u << 20); break;
    case 2: total = G31 - (8u << 20) + vg::below(4 * G32); break; // anywhere from just below 2 GiB to ~18 GiB
    case 3: total = 1 + vg::scaled(G31); break; // the ordinary side of the threshold
    default: total = G31 + 1 + vg::below(7 * G31); break;
  }
  uint64_t block_len = vg::pick<uint64_t>({1u << 20, (1u << 20) + 1, (1u << 20) - 16, 1u << 22, 3u << 19, (1u << 20) + 13});
  const u128 top = static_cast<u128>(1) << 64;
  uint64_t start;
  switch (vg::below(7)) {
    case 0: start = 0; break;
    case 1: start = vg::below(64); break;
    case 2: start = (1ULL << 32) - vg::below(64); break;
    case 3: start = static_cast<uint64_t>(top - total) - (vg::coin() ? 0 : vg::below(64)); break; // ends at / just below 2^64
    case 4: start = (1ULL << 31) + static_cast<uint64_t>(vg::range(-40, 40)); break;
    case 5: start = vg::u64(); break;
    default: start = vg::below(0x100000); break;
  }
  if (static_cast<u128>(start) + total > top) start = static_cast<uint64_t>(top - total);
  return Case("bigdump").N(0).N(block_len).N(total).N(start).N(gen_big_flags()).N(vg::below(1000)).N(1 + vg::below(5));
}

// ---------------------------------------------------------------- enumerators

static void enum_roundtrip(Enum& e) {
  size_t maxlen = e.thorough() ? 6 : 5;
  uint64_t idx = 0;
  for_all_strings(LIT("\\\"'n?a\n\0"), maxlen, [&](const string& s) {
    if (e.mine(idx++)) {
      string alt(s.size(), '\0'), hashed(s.size(), '\0');
      uint64_t h = hash_str(s);
      for (size_t k = 0; k < s.size(); k++) {
        alt[k] = (k & 1) ? '\xFF' : '\0';
        hashed[k] = ((h >> k) & 1) ? '\x01' : '\0';
      }
      e.exec(Case("roundtrip").S(s).S("").N(0).N(0).N(0));
      e.exec(Case("roundtrip").S(s).S("").N(1).N(0).N(1));
      e.exec(Case("roundtrip").S(s).S(alt).N(0).N(1).N(0));
      e.exec(Case("roundtrip").S(s).S(hashed).N(h & 1).N(1).N((h >> 1) & 1));
    }
    return !e.stop;
  });
  // every single byte value and every pair with a metacharacter, all four mask patterns of a pair
  for (int a = 0; a < 256 && !e.stop; a++) {
    if (!e.mine(idx++)) continue;
    for (uint64_t f = 0; f < 2; f++) {
      e.exec(Case("roundtrip").S(string(1, (char)a)).S("").N(f).N(0).N(0));
      for (char b : {'\\', '"', '\'', '?', 'a'})
        for (int m = 0; m < 4; m++) {
          string mask;
          mask += (m & 1) ? '\xFF' : '\0';
          mask += (m & 2) ? '\xFF' : '\0';
          e.exec(Case("roundtrip").S(string(1, (char)a) + b).S(mask).N(f).N(1).N(0));
          e.exec(Case("roundtrip").S(string(1, b) + (char)a).S(mask).N(f).N(1).N(0));
        }
    }
  }
  e.complete(cat("every string of length <= ", maxlen, " over {\\ \" ' n ? a LF NUL} x {no mask, HEX_ONLY, alternating mask, hash-derived mask}; every byte value alone and paired with each metacharacter x 4 masks x both flags"));
}

static void enum_grammar(Enum& e) {
  // each documented construct in isolation and in pairs, with both endiannesses and mask states, expectation by hand
  struct Item {
    const char* text;
    string le, be; // bytes in little / big endian mode
  };
  const vector<Item> items = {
      {"00", LIT("\0"), LIT("\0")},
      {"fF", "\xff", "\xff"},
      {"1 2", "\x12", "\x12"},
      {"#255 ", "\xff", "\xff"},
      {"#-1 ", "\xff", "\xff"},
      {"#-128 ", "\x80", "\x80"},
      {"#0x7f ", "\x7f", "\x7f"},
      {"##258 ", LIT("\x02\x01"), LIT("\x01\x02")},
      {"##-2 ", "\xfe\xff", "\xff\xfe"},
      {"##65535 ", "\xff\xff", "\xff\xff"},
      {"###16909060 ", LIT("\x04\x03\x02\x01"), LIT("\x01\x02\x03\x04")},
      {"###-1 ", "\xff\xff\xff\xff", "\xff\xff\xff\xff"},
      {"###0x80000000 ", LIT("\0\0\0\x80"), LIT("\x80\0\0\0")},
      {"####72623859790382856 ", LIT("\x08\x07\x06\x05\x04\x03\x02\x01"), LIT("\x01\x02\x03\x04\x05\x06\x07\x08")},
      {"####18446744073709551615 ", "\xff\xff\xff\xff\xff\xff\xff\xff", "\xff\xff\xff\xff\xff\xff\xff\xff"},
      {"####-9223372036854775808 ", LIT("\0\0\0\0\0\0\0\x80"), LIT("\x80\0\0\0\0\0\0\0")},
      {"%1 ", LIT("\0\0\x80\x3f"), LIT("\x3f\x80\0\0")},
      {"%-2.5 ", LIT("\0\0\x20\xc0"), LIT("\xc0\x20\0\0")},
      {"%1e10 ", LIT("\xf9\x02\x15\x50"), LIT("\x50\x15\x02\xf9")},
      {"%%1 ", LIT("\0\0\0\0\0\0\xf0\x3f"), LIT("\x3f\xf0\0\0\0\0\0\0")},
      {"%%-0.5 ", LIT("\0\0\0\0\0\0\xe0\xbf"), LIT("\xbf\xe0\0\0\0\0\0\0")},
      {"\"a\\\"b\\\\c\\n\\r\\t\\'\\q?$#%\"", "a\"b\\c\n\r\t'q?$#%", "a\"b\\c\n\r\t'q?$#%"},
      {"\"\"", "", ""},
      {"'a\\'\\n'", LIT("a\0'\0\n\0"), LIT("\0a\0'\0\n")},
      {"// 00 \" ' /* \n", "", ""},
      {"/* 00 \" ' // \n ? $ * / */", "", ""},
      {"/**/", "", ""},
      {"/***/", "", ""},
      {"/*/ 11 */", "", ""},
      {"/ * zz <x> 22", "\x22", "\x22"},
  };
  uint64_t idx = 0;
  for (int big = 0; big < 2; big++)
    for (int moff = 0; moff < 2; moff++)
      for (size_t a = 0; a < items.size() && !e.stop; a++)
        for (size_t b = 0; b <= items.size(); b++) {
          if (!e.mine(idx++)) continue;
          string text = string(big ? "$" : "") + (moff ? "?" : "") + items[a].text;
          string data = big ? items[a].be : items[a].le;
          if (b < items.size()) {
            text += items[b].text;
            data += big ? items[b].be : items[b].le;
          }
          e.exec(Case("grammar").S(text).S(data).S(string(data.size(), moff ? '\0' : '\xFF')));
          // toggles between the two items
          if (b < items.size()) {
            string t2 = string(big ? "$" : "") + (moff ? "?" : "") + items[a].text + "$?" + items[b].text;
            string d2 = (big ? items[a].be : items[a].le);
            string m2(d2.size(), moff ? '\0' : '\xFF');
            const string& second = big ? items[b].le : items[b].be;
            d2 += second;
            m2 += string(second.size(), moff ? '\xFF' : '\0');
            e.exec(Case("grammar").S(t2).S(d2).S(m2));
          }
        }
  // float literals at rounding boundaries: every binade of the single format (the subnormal one included) and a band of
  // double binades x neighbour pairs at the edges of and inside the binade x a long literal just below / exactly on / just
  // above their midpoint x decimal and hexadecimal notation; expected bytes by integer construction (see hard_float)
  size_t hard = 0;
  for (int dbl = 0; dbl < 2; dbl++) {
    const int mant = dbl ? 53 : 24, emin = dbl ? -1074 : -149, emax = dbl ? 970 : 103;
    for (int ex = emin; ex <= emax && !e.stop; ex++) {
      if (dbl && !(ex >= -52 - 80 && ex <= -52 + 80) && (ex - emin) % 64 != 0 && ex != emax) continue;
      if (!e.mine(idx++)) continue;
      const uint64_t top = 1ULL << (mant - 1);
      uint64_t h = mix(static_cast<uint64_t>(ex + 5000), static_cast<uint64_t>(dbl) + 77);
      vector<uint64_t> ms = {top, top + 1, 2 * top - 2, 2 * top - 1, top + (h & (top - 1))};
      if (ex == emin) {
        for (uint64_t sub : {uint64_t(1), uint64_t(2), top - 1, 1 + (h >> 8) % (top - 1)}) ms.push_back(sub);
      }
      for (uint64_t m : ms)
        for (int dir = -1; dir <= 1; dir++)
          for (int hexform = 0; hexform < 2; hexform++) {
            uint64_t h2 = mix(h, m * 8 + static_cast<uint64_t>(dir + 1) * 2 + static_cast<uint64_t>(hexform));
            string tail;
            for (int k = 0; k < 6; k++) tail.push_back(static_cast<char>(h2 >> (8 * k)));
            HardFloat hf = hard_float(dbl, m, ex, dir, hexform, 1 + (h2 >> 48) % (hexform ? 90 : 40), tail, static_cast<unsigned>((h2 >> 56) % (hexform ? 32 : 3)), (h2 >> 40) & 1);
            bool big = (h2 >> 41) & 1;
            string text = string(big ? "$" : "") + (dbl ? "%%" : "%") + hf.literal + ((h2 >> 42) & 1 ? " " : "\n");
            string data;
            unsigned bytes = dbl ? 8 : 4;
            for (unsigned k = 0; k < bytes; k++) data.push_back(static_cast<char>(hf.bits >> (big ? 8 * (bytes - 1 - k) : 8 * k)));
            e.exec(Case("grammar").S(text).S(data).S(string(bytes, '\xFF')));
            hard++;
          }
    }
  }
  (void)hard;
  e.complete(cat("all ", items.size(), " hand-written construct samples alone and in ordered pairs, x little/big endian x mask on/off, with and without toggles between them; "
                 "float literals at rounding boundaries: all 253 binades of the single format (subnormals included) and 190 double binades (values 2^-80..2^80, every 64th "
                 "binade elsewhere) x neighbour pairs at both edges of and inside the binade x a literal of up to 100 extra digits / bits just below, exactly on and just "
                 "above the midpoint x decimal and hexadecimal notation"));
}

static void enum_dump(Enum& e) {
  uint64_t idx = 0;
  // (1) every 1-4-way partition (3 sorted cut points, empty segments included) of small buffers
  size_t maxn = e.thorough() ? 20 : 12;
  for (size_t n = 0; n <= maxn && !e.stop; n++) {
    string data(n, '\0'), prev(n, '\0');
    for (size_t k = 0; k < n; k++) {
      data[k] = static_cast<char>(0x41 + k);
      prev[k] = (k % 3 == 0) ? static_cast<char>(0x61 + k) : data[k];
    }
    for (size_t a = 0; a <= n; a++)
      for (size_t b = a; b <= n; b++)
        for (size_t c3 = b; c3 <= n; c3++) {
          if (!e.mine(idx++)) continue;
          uint64_t start = (n % 3 == 0) ? 0 : (n % 3 == 1) ? 0xFFFFFFFCULL : 9;
          Case c("dump");
          c.S(data).S(prev).N(start).N(F::ASCII | F::FLOAT | F::COLOR).N(1).N(0).N(3).N(a).N(b).N(c3).N(3).N(n - c3).N(n - b).N(n - a);
          e.exec(c);
        }
  }
  // (2) every flag combination on a few data shapes and start addresses
  vector<string> shapes;
  {
    string z80(80, '\0');
    string mixed = z80;
    mixed[0] = 'A';
    mixed[79] = 'Z';
    string mid = z80;
    mid[40] = 1;
    string text;
    for (int k = 0; k < 37; k++) text += static_cast<char>(k * 7 + 3);
    string floats(32, '\0');
    const uint32_t f[8] = {0x3F800000u, 0x7FC00000u, 0x80000000u, 0, 0xC36D6F56u, 0x40C85BA5u, 0xFF800000u, 0x00000001u};
    memcpy(&floats[0], f, 32);
    shapes = {z80, mixed, mid, text, floats};
  }
  const vector<uint64_t> starts = {0, 7, 0xF0, 0xFFFFFFE0ULL - 3};
  const vector<uint64_t> colour_modes = {0, F::COLOR, F::NOCOLOR};
  size_t stride = e.thorough() ? 1 : 3; // quick: every third combination (offset by the shape index)
  uint64_t combo = 0;
  for (size_t si = 0; si < shapes.size() && !e.stop; si++)
    for (uint64_t start : starts)
      for (uint64_t cols : dump_flag_axes(0))
        for (uint64_t en : dump_flag_axes(1))
          for (uint64_t off : dump_flag_axes(2))
            for (uint64_t col : colour_modes)
              for (uint64_t misc = 0; misc < 4; misc++)
                for (int has_prev = 0; has_prev < 2; has_prev++) {
                  combo++;
                  if ((combo + si) % stride) continue;
                  if (!e.mine(idx++)) continue;
                  uint64_t flags = cols | en | off | col | ((misc & 1) ? F::COLLAPSE : 0) | ((misc & 2) ? F::SKIPSEP : 0);
                  string prev = shapes[si];
                  if (has_prev && prev.size() > 20) {
                    prev[3] ^= 0x40;
                    prev[20] ^= 0x01;
                    if (si == 2) prev[57] = 5; // a line that is zero in the data but not in the previous buffer
                  }
                  Case c("dump");
                  c.S(shapes[si]).S(has_prev ? prev : string()).N(start).N(flags).N(has_prev).N((combo % 16) == 0).N(1).N(shapes[si].size() / 3).N(has_prev ? 1 : 0);
                  if (has_prev) c.N(5);
                  e.exec(c);
                }
  // (3) every size 0..48 at every alignment: geometry of the first and last line
  for (size_t n = 0; n <= 48 && !e.stop; n++)
    for (uint64_t al = 0; al < 16; al++) {
      if (!e.mine(idx++)) continue;
      string data(n, '\0');
      for (size_t k = 0; k < n; k++) data[k] = static_cast<char>(k * 5 + al);
      for (uint64_t base : {0ULL, 0xF0ULL, 0xFFF0ULL, 0xFFFFFFF0ULL, 0xFFFFFFFFFFFFFFB0ULL, 0xFFFFFFFFFFFFFFD0ULL, 0xFFFFFFFFFFFFFFF0ULL}) {
        if (static_cast<u128>(base) + al + n > (static_cast<u128>(1) << 64)) continue;
        e.exec(Case("dump").S(data).S("").N(base + al).N(F::ASCII | F::FLOAT | F::DOUBLE | F::COLLAPSE).N(0).N(0).N(0).N(0));
      }
    }
  e.complete(cat("every 1-4-way partition (3 cut points) of buffers of 0..", maxn, " bytes for data and previous buffer; ", e.thorough() ? "every" : "every third", " combination of column/endianness/offset-width/colour/collapse/separator flags x 5 data shapes x 4 start addresses x with/without previous buffer; every size 0..48 at every alignment at 7 base addresses (0, 0xF0, 0xFFF0, 0xFFFFFFF0, 2^64-80, 2^64-48, 2^64-16; dumps ending at or below 2^64)"));
}

static void enum_bigdump(Enum& e) {
  uint64_t idx = 0;
  const uint64_t G31 = 1ULL << 31, G32 = 1ULL << 32, MiB = 1u << 20;
  // (1) head of dumps whose total size sits on, just below and just above 2^31, 2^32 and multiples: the first lines
  vector<uint64_t> totals;
  for (uint64_t base : {G31, G32, G32 + G31, 2 * G32, 3 * G32})
    for (int64_t delta : {-int64_t(MiB), int64_t(-17), int64_t(-16), int64_t(-1), int64_t(0), int64_t(1), int64_t(15), int64_t(16), int64_t(17), int64_t(100), int64_t(MiB), int64_t(700 * MiB + 5)}) totals.push_back(base + static_cast<uint64_t>(delta));
  const vector<uint64_t> flagsets = {F::ASCII | F::O64, 0, F::ASCII | F::SKIPSEP, F::O32 | F::COLLAPSE};
  for (uint64_t total : totals)
    for (unsigned sk = 0; sk < 4 && !e.stop; sk++) {
      if (!e.mine(idx++)) continue;
      uint64_t start = sk == 0 ? 0x1000 : sk == 1 ? 0x1005 : sk == 2 ? G32 - 8 : static_cast<uint64_t>((static_cast<u128>(1) << 64) - total);
      for (uint64_t flags : flagsets) e.exec(Case("bigdump").N(0).N(sk == 1 ? MiB + 1 : MiB).N(total).N(start).N(flags).N(total % 1000).N(3));
    }
  // (2) sparse dumps walked to the end: islands at the start, around 2^31 and 2^32 bytes from the start, around 2^31 and 2^32
  // bytes before the end, and at the very end
  struct Sparse {
    uint64_t total, start, entry;
    bool thorough_only;
  };
  const vector<Sparse> sparse = {
      {G31 + 3 * MiB + 5, 0x1005, 0, false},
      {G32 + G31 + 2 * MiB + 9, G32 - 8, 1, true},
      {G31 - MiB, 0, 2, true}, // the ordinary side
      {G32 + 5 * MiB + 1, 7, 3, true},
      {2 * G32 + 17, static_cast<uint64_t>((static_cast<u128>(1) << 64) - (2 * G32 + 17)), 0, true},
      {G31 + 16, 0, 1, true},
      {G31 + 17, 0, 0, true},
  };
  for (const auto& sp : sparse) {
    if (sp.thorough_only && !e.thorough()) continue;
    if (!e.mine(idx++) || e.stop) continue;
    std::set<uint64_t> offs = {3, 40};
    auto around = [&](uint64_t centre) {
      for (int64_t delta : {int64_t(-33), int64_t(-1), int64_t(16), int64_t(47)}) {
        int64_t o = static_cast<int64_t>(centre) + delta;
        if (o >= 0 && static_cast<uint64_t>(o) + 8 <= sp.total) offs.insert(static_cast<uint64_t>(o));
      }
    };
    for (uint64_t dist : {G31, G32, G31 + G32}) {
      around(dist);
      if (sp.total > dist) around(sp.total - dist);
    }
    around(sp.total / 2);
    if (sp.total > 100) offs.insert(sp.total - 60);
    offs.insert(sp.total - 5);
    Case c("bigdump");
    c.N(1).N(MiB).N(sp.total).N(sp.start).N(F::COLLAPSE | F::ASCII | (sp.entry & 1 ? F::O64 : 0)).N(sp.total % 1000).N(sp.entry);
    vector<std::pair<uint64_t, uint64_t>> isl;
    uint64_t pos = 0;
    for (uint64_t o : offs) {
      if (o < pos) continue;
      uint64_t len = std::min<uint64_t>(5 + o % 23, sp.total - o);
      isl.emplace_back(o, len);
      pos = o + len;
    }
    c.N(isl.size());
    for (const auto& is : isl) c.N(is.first).N(is.second);
    e.exec(c);
  }
  e.complete(cat("head (first 3 lines through the callback overload) of dumps of 2^31, 2^32, 2^32+2^31, 2^33, 3*2^32 bytes -1 MiB, -17, -16, -1, +0, +1, +15, +16, +17, +100, +1 MiB, +700 MiB "
                 "x 4 start addresses (aligned, unaligned, across 2^32, ending at 2^64) x 4 flag sets, built from aliased 1 MiB iovecs; ", e.thorough() ? "7 sparse dumps of 2^31-1 MiB .. 2^33 bytes" : "1 sparse dump of 2^31+3 MiB bytes (thorough: 7, up to 2^33 bytes)",
                 " walked to the end with COLLAPSE_ZERO_LINES: islands at the start, around 2^31 / 2^32 / 2^31+2^32 bytes from the start "
                 "and before the end, in the middle and at the very end, through the iovec, callback, vector and print_data entry points"));
}

int main(int argc, char** argv) {
  {
    uint16_t probe = 1;
    if (*reinterpret_cast<uint8_t*>(&probe) != 1) {
      fprintf(stderr, "c09_data: host is not little-endian; the float-column oracle assumes it\n");
      return 2;
    }
  }
  vector<SubCheck> checks;
  checks.push_back({"roundtrip", run_roundtrip, gen_roundtrip, 60000, 2000000, 100, enum_roundtrip});
  checks.push_back({"grammar", run_grammar, gen_grammar, 60000, 800000, 100, enum_grammar});
  checks.push_back({"parse_any", run_parse_any, gen_parse_any, 40000, 1500000, 100, nullptr});
  checks.push_back({"dump", run_dump, gen_dump, 16000, 600000, 100, enum_dump});
  checks.push_back({"bigdump", run_bigdump, gen_bigdump, 1600, 20000, 100, enum_bigdump});
  return main_(argc, argv, checks);
}
