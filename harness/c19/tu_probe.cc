// C19 - probe program of oracle/c19_two_tu.py: the expect_raises matrix over two translation units (this file and
// harness/c19/other_tu.cc, which both include c19/tu_local.hh and so each own a set of same-named file-local exception
// types), built by the driver with every installed toolchain configuration. UnitTest.hh's expect_raises_fn is a template:
// it is compiled by the CONSUMER's compiler, and how a thrown object is matched against E is decided by that compiler's
// runtime. Prints one line per cell; the driver (Python) holds the hierarchy and decides.
//
//   C <side of E> <E kind> <side of fn> <thrown kind> <entry> <calls> <handler matches 0/1> <same type_info name 0/1> <outcome...>
//   outcome: "pass" | "fail <line> <site-ok 0/1> <what-names-site 0/1>" | "other <type name>"
#include <stdio.h>
#include <string.h>

#include <string>

#include "c19/tu_local.hh"

int main() {
  C19TuApi apis[2] = {local_api(), c19_other_tu_api()};
  printf("M %d %d %d\n", kNumLocalExpected, kNumLocalThrown, kFirstSharedExpected);
  for (int es = 0; es < 2; es++)
    for (int e = 0; e < kNumLocalExpected; e++)
      for (int ts = 0; ts < 2; ts++)
        for (int k = 0; k <= kNumLocalThrown; k++)
          for (int entry = 0; entry < 2; entry++) {
            bool returns = (k == kNumLocalThrown);
            int calls = 0;
            std::function<void()> fn = [&] {
              calls++;
              if (!returns) apis[ts].throw_kind(k);
            };
            const char* explicit_file = "explicit-probe-site.cc";
            const char* file = explicit_file;
            uint64_t line = 5000 + es * 1000 + e * 100 + ts * 10 + k;
            bool matches = !returns && apis[es].handler_matches(e, [&] { apis[ts].throw_kind(k); });
            bool same_name = !returns && e < kFirstSharedExpected && !strcmp(apis[ts].thrown_type_name(k), apis[es].expected_type_name(e));
            printf("C %d %d %d %d %d ", es, e, ts, k, entry);
            try {
              apis[es].expect_kind(e, entry, fn, file, line);
              printf("%d %d %d pass\n", calls, matches, same_name);
            } catch (const phosg::expectation_failed& x) {
              // a class derived from expectation_failed IS-A expectation_failed: the handler above decides
              bool site_ok = x.file && !strcmp(x.file, file) && x.line == line;
              std::string site = std::string(file) + ":" + std::to_string(line);
              bool what_ok = strstr(x.what(), site.c_str()) != nullptr;
              printf("%d %d %d fail %llu %d %d\n", calls, matches, same_name, (unsigned long long)x.line, site_ok, what_ok);
            } catch (const std::exception& x) {
              printf("%d %d %d other %s\n", calls, matches, same_name, typeid(x).name());
            } catch (...) {
              printf("%d %d %d other non-std\n", calls, matches, same_name);
            }
          }
  return 0;
}
