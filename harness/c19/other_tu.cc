// C19 - second translation unit of the harness: its own set of file-local exception types (same names as the ones in
// harness/c19_expect.cc, unrelated types), functions that throw them and expect_raises calls that expect them.
#include "c19/tu_local.hh"

C19TuApi c19_other_tu_api() { return local_api(); }
