// C19 - exception types with INTERNAL linkage, included by BOTH translation units of the harness
// (harness/c19_expect.cc and harness/c19/other_tu.cc).
//
// Everything below sits in an unnamed namespace, so each translation unit gets its own, unrelated set of types that
// happen to have the same names (and the same mangled names): the usual situation of two test files that each define a
// file-local `ParseError`. "E or derives from it" is a statement about TYPES: the `ParseError` of one translation unit
// neither is nor derives from the `ParseError` of the other one, and no `catch (const E&)` handler for one of them
// matches the other. Only the standard bases (std::runtime_error, ...) are shared.
#pragma once

#include <stdint.h>

#include <exception>
#include <functional>
#include <stdexcept>
#include <type_traits>
#include <typeinfo>

#include <phosg/UnitTest.hh>

// what one translation unit offers to the oracle
struct C19TuApi {
  // thrown kinds: 0..kNumLocalThrown-1 (see LocalThrownAt), anything else returns normally
  void (*throw_kind)(int k);
  // expected kinds: 0..kNumLocalExpected-1. entry 0: the expect_raises macro (reports its own file / line), entry 1:
  // expect_raises_fn<E> with the site handed in
  void (*expect_kind)(int e, int entry, const std::function<void()>& fn, const char*& file, uint64_t& line);
  // std::is_convertible<const Thrown_k*, const Expected_e*> as seen INSIDE this translation unit
  bool (*convertible)(int k, int e);
  const char* (*thrown_type_name)(int k); // typeid(...).name()
  const char* (*expected_type_name)(int e);
  // what the toolchain's own exception matching does: runs fn inside try { } catch (const Expected_e&) in this
  // translation unit; true when that handler caught what fn threw
  bool (*handler_matches)(int e, const std::function<void()>& fn);
};

namespace {

using phosg::expect_generic;
using phosg::expect_raises_fn;

struct ParseError : std::runtime_error {
  ParseError() : std::runtime_error("file-local ParseError") {}
};
struct ParseDetail : ParseError {};
struct NotFound : std::out_of_range {
  NotFound() : std::out_of_range("file-local NotFound") {}
};
struct LocalError : std::exception {
  const char* what() const noexcept override { return "file-local LocalError"; }
};
// a class local to an internal-linkage function: also one distinct type per translation unit under one name
inline auto make_in_function() {
  struct InFunction : ParseError {};
  return InFunction();
}
using InFunctionT = decltype(make_in_function());

constexpr int kNumLocalThrown = 5;
constexpr int kNumLocalExpected = 9;
constexpr int kFirstSharedExpected = 5; // expected kinds from here on are the standard bases, common to both translation units

template <int K>
struct LocalThrownAt;
template <>
struct LocalThrownAt<0> { using type = ParseError; };
template <>
struct LocalThrownAt<1> { using type = ParseDetail; };
template <>
struct LocalThrownAt<2> { using type = NotFound; };
template <>
struct LocalThrownAt<3> { using type = LocalError; };
template <>
struct LocalThrownAt<4> { using type = InFunctionT; };

template <int E>
struct LocalExpectedAt { using type = typename LocalThrownAt<E>::type; };
template <>
struct LocalExpectedAt<5> { using type = std::exception; };
template <>
struct LocalExpectedAt<6> { using type = std::runtime_error; };
template <>
struct LocalExpectedAt<7> { using type = std::logic_error; };
template <>
struct LocalExpectedAt<8> { using type = std::out_of_range; };

inline const char* const kLocalThrownNames[kNumLocalThrown] = {"ParseError", "ParseDetail", "NotFound", "LocalError", "InFunction"};
inline const char* const kLocalExpectedNames[kNumLocalExpected] = {"ParseError", "ParseDetail", "NotFound", "LocalError", "InFunction",
    "std::exception", "std::runtime_error", "std::logic_error", "std::out_of_range"};

template <int K = 0>
void local_throw_kind(int k) {
  if constexpr (K < kNumLocalThrown) {
    if (k == K) {
      if constexpr (K == 4) throw make_in_function();
      else throw typename LocalThrownAt<K>::type();
    }
    local_throw_kind<K + 1>(k);
  }
}

template <int E = 0>
void local_expect_kind(int e, int entry, const std::function<void()>& fn, const char*& file, uint64_t& line) {
  if constexpr (E < kNumLocalExpected) {
    if (e == E) {
      using ExpectedT = typename LocalExpectedAt<E>::type;
      if (entry == 0) {
        file = __FILE__;
        line = __LINE__; expect_raises(ExpectedT, fn);
      } else {
        expect_raises_fn<ExpectedT>(file, line, fn);
      }
      return;
    }
    local_expect_kind<E + 1>(e, entry, fn, file, line);
  } else {
    throw std::logic_error("bad expected kind");
  }
}

template <int E = 0>
bool local_handler_matches(int e, const std::function<void()>& fn) {
  if constexpr (E < kNumLocalExpected) {
    if (e == E) {
      try {
        fn();
      } catch (const typename LocalExpectedAt<E>::type&) {
        return true;
      } catch (...) {
      }
      return false;
    }
    return local_handler_matches<E + 1>(e, fn);
  } else {
    throw std::logic_error("bad expected kind");
  }
}

template <int K, int E = 0>
bool local_convertible_row(int e) {
  if constexpr (E < kNumLocalExpected) {
    if (e == E) return std::is_convertible_v<const typename LocalThrownAt<K>::type*, const typename LocalExpectedAt<E>::type*>;
    return local_convertible_row<K, E + 1>(e);
  } else {
    throw std::logic_error("bad expected kind");
  }
}
template <int K = 0>
bool local_convertible(int k, int e) {
  if constexpr (K < kNumLocalThrown) {
    if (k == K) return local_convertible_row<K>(e);
    return local_convertible<K + 1>(k, e);
  } else {
    throw std::logic_error("bad thrown kind");
  }
}

template <int K = 0>
const char* local_thrown_type_name(int k) {
  if constexpr (K < kNumLocalThrown) {
    if (k == K) return typeid(typename LocalThrownAt<K>::type).name();
    return local_thrown_type_name<K + 1>(k);
  } else {
    throw std::logic_error("bad thrown kind");
  }
}
template <int E = 0>
const char* local_expected_type_name(int e) {
  if constexpr (E < kNumLocalExpected) {
    if (e == E) return typeid(typename LocalExpectedAt<E>::type).name();
    return local_expected_type_name<E + 1>(e);
  } else {
    throw std::logic_error("bad expected kind");
  }
}

inline C19TuApi local_api() {
  return C19TuApi{
      [](int k) { local_throw_kind<>(k); },
      [](int e, int entry, const std::function<void()>& fn, const char*& file, uint64_t& line) { local_expect_kind<>(e, entry, fn, file, line); },
      [](int k, int e) { return local_convertible<>(k, e); },
      [](int k) { return local_thrown_type_name<>(k); },
      [](int e) { return local_expected_type_name<>(e); },
      [](int e, const std::function<void()>& fn) { return local_handler_matches<>(e, fn); }};
}

} // namespace

// defined in harness/c19/other_tu.cc
C19TuApi c19_other_tu_api();
