// tree.hh - independent model of a JSON value tree, shared by the C04 and C05 checks.
//
//   jt::Node            plain value tree (no phosg types inside)
//   jt::build(node)     constructs the phosg::JSON value through the public constructors / emplace calls
//   jt::from_json(j)    reads a phosg::JSON back through the public accessors only (is_*, as_*, iteration)
//   jt::diff(a,b,mode)  structural comparison; returns "" or a description of the first difference
//   jt::wire/unwire     byte encoding used on the shim pipe (Python side: oracle/c04_tree.py)
//
// Nothing here calls JSON::parse or JSON::serialize.
#pragma once
#include <math.h>
#include <stdint.h>
#include <stdio.h>
#include <string.h>

#include <algorithm>
#include <stdexcept>
#include <string>
#include <utility>
#include <vector>

#include <phosg/JSON.hh>

namespace jt {

struct Entry;

struct Node {
  enum Kind { NUL = 0,
    BOOL = 1,
    INT = 2,
    FLT = 3,
    STR = 4,
    LIST = 5,
    DICT = 6 };
  Kind k = NUL;
  bool b = false;
  int64_t i = 0;
  double d = 0;
  std::string s;
  std::vector<Node> items; // LIST
  std::vector<Entry> ents; // DICT, unique keys, construction order

  static Node null() { return Node(); }
  static Node boolean(bool v) {
    Node n;
    n.k = BOOL;
    n.b = v;
    return n;
  }
  static Node integer(int64_t v) {
    Node n;
    n.k = INT;
    n.i = v;
    return n;
  }
  static Node real(double v) {
    Node n;
    n.k = FLT;
    n.d = v;
    return n;
  }
  static Node str(std::string v) {
    Node n;
    n.k = STR;
    n.s = std::move(v);
    return n;
  }
  static Node list() {
    Node n;
    n.k = LIST;
    return n;
  }
  static Node dict() {
    Node n;
    n.k = DICT;
    return n;
  }
  bool has_key(const std::string& key) const;
  // adds the entry unless the key is already present (JSON dictionaries have unique keys)
  bool add(const std::string& key, Node v);
  Node();
  Node(const Node&);
  Node(Node&&) noexcept;
  Node& operator=(const Node&);
  Node& operator=(Node&&) noexcept;
  ~Node();
};

struct Entry {
  std::string first;
  Node second;
  Entry() = default;
  Entry(std::string k, Node v) : first(std::move(k)), second(std::move(v)) {}
};

inline Node::Node() = default;
inline Node::Node(const Node&) = default;
inline Node::Node(Node&&) noexcept = default;
inline Node& Node::operator=(const Node&) = default;
inline Node& Node::operator=(Node&&) noexcept = default;
inline Node::~Node() = default;

inline bool Node::has_key(const std::string& key) const {
  for (const auto& e : ents)
    if (e.first == key) return true;
  return false;
}
inline bool Node::add(const std::string& key, Node v) {
  if (has_key(key)) return false;
  ents.emplace_back(key, std::move(v));
  return true;
}

inline const char* kind_name(Node::Kind k) {
  static const char* n[] = {"null", "bool", "int", "float", "string", "list", "dict"};
  return n[k];
}

inline bool key_less(const std::string& a, const std::string& b) {
  // unsigned byte order
  size_t n = std::min(a.size(), b.size());
  int c = n ? memcmp(a.data(), b.data(), n) : 0;
  if (c != 0) return c < 0;
  return a.size() < b.size();
}

inline std::vector<const Entry*> sorted_entries(const Node& n) {
  std::vector<const Entry*> v;
  for (const auto& e : n.ents) v.push_back(&e);
  std::sort(v.begin(), v.end(), [](const auto* a, const auto* b) { return key_less(a->first, b->first); });
  return v;
}

// ---------------------------------------------------------------- phosg <-> model (public API only)

inline phosg::JSON build(const Node& n) {
  switch (n.k) {
    case Node::NUL: return phosg::JSON(nullptr);
    case Node::BOOL: return phosg::JSON(n.b);
    case Node::INT: return phosg::JSON(static_cast<int64_t>(n.i));
    case Node::FLT: return phosg::JSON(n.d);
    case Node::STR: return phosg::JSON(n.s);
    case Node::LIST: {
      phosg::JSON j = phosg::JSON::list();
      for (const auto& c : n.items) j.emplace_back(build(c));
      return j;
    }
    case Node::DICT: {
      phosg::JSON j = phosg::JSON::dict();
      for (const auto& e : n.ents) j.emplace(e.first, build(e.second));
      return j;
    }
  }
  throw std::logic_error("bad node kind");
}

inline Node from_json(const phosg::JSON& j) {
  if (j.is_null()) return Node::null();
  if (j.is_bool()) return Node::boolean(j.as_bool());
  if (j.is_int()) return Node::integer(j.as_int());
  if (j.is_float()) return Node::real(j.as_float());
  if (j.is_string()) return Node::str(j.as_string());
  if (j.is_list()) {
    Node n = Node::list();
    const auto& l = j.as_list();
    n.items.reserve(l.size());
    for (const auto& c : l) n.items.push_back(from_json(*c));
    return n;
  }
  if (j.is_dict()) {
    Node n = Node::dict();
    for (const auto& it : j.as_dict()) n.ents.emplace_back(it.first, from_json(*it.second));
    return n;
  }
  throw std::logic_error("phosg::JSON holds no known alternative");
}

// ---------------------------------------------------------------- comparison

enum NumMode {
  SAME_KIND_SIX_DIGITS, // C04: int stays int (exact), float stays float, floats equal as %.6g text
  NUMERIC_REL_1E9, // C05: exact when both are ints, otherwise |a-b| <= 1e-9 * max(|a|,|b|)
};

inline std::string g6(double v) {
  char b[64];
  snprintf(b, sizeof(b), "%.6g", v);
  return b;
}

inline std::string show_bytes(const std::string& s) {
  std::string r = "\"";
  static const char* hx = "0123456789abcdef";
  for (size_t k = 0; k < s.size() && k < 48; k++) {
    unsigned char c = s[k];
    if (c >= 0x20 && c < 0x7F && c != '\\' && c != '"') r += static_cast<char>(c);
    else {
      r += "\\x";
      r += hx[c >> 4];
      r += hx[c & 15];
    }
  }
  if (s.size() > 48) r += "...";
  return r + "\"";
}

// class of a difference (goes into the failure signature), and the text
struct Diff {
  std::string cls, text;
  bool none() const { return cls.empty(); }
};

// diff_rel: the text of the result starts with the path RELATIVE to the pair compared (built on the way back, only when a
// difference was found: comparing equal trees costs no string work, whatever their depth)
inline Diff diff_rel(const Node& a, const Node& b, NumMode mode) {
  static const std::string path; // relative path of this node: empty
  bool a_num = (a.k == Node::INT || a.k == Node::FLT), b_num = (b.k == Node::INT || b.k == Node::FLT);
  if (mode == NUMERIC_REL_1E9 && a_num && b_num) {
    if (a.k == Node::INT && b.k == Node::INT) {
      if (a.i != b.i) return {"int", path + ": int " + std::to_string(a.i) + " vs " + std::to_string(b.i)};
      return {};
    }
    // b is the reference: a plain integer literal inside the int64 range (INT in the reference) denotes exactly that
    // integer, so the value must come back as an integer - a double cannot hold the 19-digit ones (2^63-1 would
    // silently become 2^63). Numerals with a fraction or exponent are compared numerically.
    if (b.k == Node::INT && a.k == Node::FLT) {
      char buf[200];
      snprintf(buf, sizeof(buf), ": integer literal %lld came back as the float %.17g", static_cast<long long>(b.i), a.d);
      return {"number:int-literal-as-float", path + buf};
    }
    double x = (a.k == Node::INT) ? static_cast<double>(a.i) : a.d;
    double y = (b.k == Node::INT) ? static_cast<double>(b.i) : b.d;
    double m = std::max(fabs(x), fabs(y));
    bool same = (x == y) || (x != x && y != y); // also covers equal infinities (text outside the domain, compared between entry points)
    if (!same && !(fabs(x - y) <= 1e-9 * m)) {
      char buf[200];
      snprintf(buf, sizeof(buf), ": number %.17g (%s) vs %.17g (%s)", x, kind_name(a.k), y, kind_name(b.k));
      return {std::string("number:") + kind_name(a.k) + "-vs-" + kind_name(b.k), path + buf};
    }
    return {};
  }
  if (a.k != b.k) return {std::string("kind:") + kind_name(a.k) + "-vs-" + kind_name(b.k), path + ": " + kind_name(a.k) + " vs " + kind_name(b.k)};
  switch (a.k) {
    case Node::NUL: return {};
    case Node::BOOL:
      if (a.b != b.b) return {"bool", path + ": bool differs"};
      return {};
    case Node::INT:
      if (a.i != b.i) return {"int", path + ": int " + std::to_string(a.i) + " vs " + std::to_string(b.i)};
      return {};
    case Node::FLT:
      if (mode == SAME_KIND_SIX_DIGITS) {
        if (g6(a.d) != g6(b.d)) return {"float", path + ": float " + g6(a.d) + " vs " + g6(b.d)};
      }
      return {};
    case Node::STR:
      if (a.s != b.s) return {"string", path + ": string " + show_bytes(a.s) + " vs " + show_bytes(b.s)};
      return {};
    case Node::LIST: {
      if (a.items.size() != b.items.size()) return {"list-size", path + ": list sizes " + std::to_string(a.items.size()) + " vs " + std::to_string(b.items.size())};
      for (size_t k = 0; k < a.items.size(); k++) {
        Diff d = diff_rel(a.items[k], b.items[k], mode);
        if (!d.none()) {
          d.text = "[" + std::to_string(k) + "]" + d.text;
          return d;
        }
      }
      return {};
    }
    case Node::DICT: {
      if (a.ents.size() != b.ents.size()) return {"dict-size", path + ": dict sizes " + std::to_string(a.ents.size()) + " vs " + std::to_string(b.ents.size())};
      auto sa = sorted_entries(a), sb = sorted_entries(b);
      for (size_t k = 0; k < sa.size(); k++) {
        if (sa[k]->first != sb[k]->first) return {"dict-key", path + ": key " + show_bytes(sa[k]->first) + " vs " + show_bytes(sb[k]->first)};
        Diff d = diff_rel(sa[k]->second, sb[k]->second, mode);
        if (!d.none()) {
          d.text = "{" + show_bytes(sa[k]->first) + "}" + d.text;
          return d;
        }
      }
      return {};
    }
  }
  return {};
}

inline Diff diff(const Node& a, const Node& b, NumMode mode, const std::string& path = "$") {
  Diff d = diff_rel(a, b, mode);
  if (!d.none()) d.text = path + d.text;
  return d;
}

// ---------------------------------------------------------------- wire codec (shim pipe)
//   n | t | f | i<8 bytes LE> | d<8 bytes LE> | s<u32 len><bytes> | l<u32 count>children | m<u32 count>(<u32 len><key>child)*

inline void put_u32(std::string& o, uint32_t v) { o.append(reinterpret_cast<const char*>(&v), 4); }
inline void wire_into(const Node& n, std::string& o) {
  switch (n.k) {
    case Node::NUL: o += 'n'; break;
    case Node::BOOL: o += n.b ? 't' : 'f'; break;
    case Node::INT:
      o += 'i';
      o.append(reinterpret_cast<const char*>(&n.i), 8);
      break;
    case Node::FLT:
      o += 'd';
      o.append(reinterpret_cast<const char*>(&n.d), 8);
      break;
    case Node::STR:
      o += 's';
      put_u32(o, n.s.size());
      o += n.s;
      break;
    case Node::LIST:
      o += 'l';
      put_u32(o, n.items.size());
      for (const auto& c : n.items) wire_into(c, o);
      break;
    case Node::DICT:
      o += 'm';
      put_u32(o, n.ents.size());
      for (const auto& e : n.ents) {
        put_u32(o, e.first.size());
        o += e.first;
        wire_into(e.second, o);
      }
      break;
  }
}
inline std::string wire(const Node& n) {
  std::string o;
  wire_into(n, o);
  return o;
}

struct WireReader {
  const std::string& b;
  size_t p = 0;
  explicit WireReader(const std::string& s) : b(s) {}
  void need(size_t n) const {
    if (b.size() - p < n) throw std::logic_error("wire: truncated");
  }
  uint32_t u32() {
    need(4);
    uint32_t v;
    memcpy(&v, b.data() + p, 4);
    p += 4;
    return v;
  }
  std::string bytes(size_t n) {
    need(n);
    std::string r = b.substr(p, n);
    p += n;
    return r;
  }
  Node node(int depth = 0) {
    if (depth > 2000) throw std::logic_error("wire: too deep");
    need(1);
    char t = b[p++];
    switch (t) {
      case 'n': return Node::null();
      case 't': return Node::boolean(true);
      case 'f': return Node::boolean(false);
      case 'i': {
        need(8);
        int64_t v;
        memcpy(&v, b.data() + p, 8);
        p += 8;
        return Node::integer(v);
      }
      case 'd': {
        need(8);
        double v;
        memcpy(&v, b.data() + p, 8);
        p += 8;
        return Node::real(v);
      }
      case 's': {
        uint32_t n = u32();
        return Node::str(bytes(n));
      }
      case 'l': {
        uint32_t n = u32();
        Node r = Node::list();
        for (uint32_t k = 0; k < n; k++) r.items.push_back(node(depth + 1));
        return r;
      }
      case 'm': {
        uint32_t n = u32();
        Node r = Node::dict();
        for (uint32_t k = 0; k < n; k++) {
          uint32_t kl = u32();
          std::string key = bytes(kl);
          Node c = node(depth + 1);
          r.add(key, std::move(c));
        }
        return r;
      }
    }
    throw std::logic_error("wire: bad tag");
  }
};
inline Node unwire(const std::string& s) {
  WireReader r(s);
  Node n = r.node();
  if (r.p != s.size()) throw std::logic_error("wire: trailing bytes");
  return n;
}

// ---------------------------------------------------------------- statistics helpers

struct Stats {
  size_t nodes = 0, containers = 0, empty_containers = 0, depth = 0;
  bool float_with_exponent = false, nonprintable_byte = false, has_float = false, has_neg_int = false;
};
inline void stats_into(const Node& n, Stats& s, size_t depth = 1) {
  s.nodes++;
  s.depth = std::max(s.depth, depth);
  auto scan = [&](const std::string& t) {
    for (unsigned char c : t)
      if (c < 0x20 || c > 0x7E) s.nonprintable_byte = true;
  };
  switch (n.k) {
    case Node::FLT: {
      s.has_float = true;
      char b[64];
      snprintf(b, sizeof(b), "%g", n.d);
      if (strchr(b, 'e')) s.float_with_exponent = true;
      break;
    }
    case Node::INT:
      if (n.i < 0) s.has_neg_int = true;
      break;
    case Node::STR: scan(n.s); break;
    case Node::LIST:
      s.containers++;
      if (n.items.empty()) s.empty_containers++;
      for (const auto& c : n.items) stats_into(c, s, depth + 1);
      break;
    case Node::DICT:
      s.containers++;
      if (n.ents.empty()) s.empty_containers++;
      for (const auto& e : n.ents) {
        scan(e.first);
        stats_into(e.second, s, depth + 1);
      }
      break;
    default: break;
  }
}

} // namespace jt
