// C17 reference models, written from the property statement and the C standard's strtoull/strtod
// subject-sequence grammar - independent of phosg's Arguments implementation.
#pragma once

#include <stdint.h>
#include <string.h>

#include <charconv>
#include <cmath>
#include <string>
#include <utility>
#include <vector>

namespace c17 {

typedef unsigned __int128 u128;
typedef __int128 i128;

// ---------------------------------------------------------------- token classification

struct RefArgs {
  std::vector<std::string> positional;
  // names in order of first appearance, each with its values in order of appearance
  std::vector<std::pair<std::string, std::vector<std::string>>> named;
  size_t items = 0;

  std::vector<std::string>& values(const std::string& name) {
    for (auto& it : named)
      if (it.first == name) return it.second;
    named.emplace_back(name, std::vector<std::string>());
    return named.back().second;
  }
  const std::vector<std::string>* find(const std::string& name) const {
    for (auto& it : named)
      if (it.first == name) return &it.second;
    return nullptr;
  }
};

// "every token is classified exactly once and in order as a positional argument, a --name[=value]
// option (repeatable) or a group of single-letter flags"
inline RefArgs classify(const std::vector<std::string>& tokens) {
  RefArgs r;
  for (const std::string& t : tokens) {
    bool dash = t.size() >= 1 && t[0] == '-';
    bool ddash = dash && t.size() >= 2 && t[1] == '-';
    if (ddash && t.size() > 2) {
      std::string body = t.substr(2);
      size_t eq = body.find('=');
      if (eq == std::string::npos) {
        r.values(body).push_back("");
      } else {
        r.values(body.substr(0, eq)).push_back(body.substr(eq + 1));
      }
      r.items++;
    } else if (dash && !ddash && t.size() > 1) {
      for (size_t k = 1; k < t.size(); k++) {
        r.values(std::string(1, t[k])).push_back("");
        r.items++;
      }
    } else {
      // plain words, the empty token, "-" and "--"
      r.positional.push_back(t);
      r.items++;
    }
  }
  return r;
}

// ---------------------------------------------------------------- shell tokenisation (portable subset)

// Tokenises `cmd` by the rules on which the POSIX shell and phosg's documented behaviour agree:
// blanks separate words; outside quotes a backslash makes the next character literal; '...' is literal
// (no backslash inside - shells keep it, phosg drops it: not settled by the property); "..." is literal
// except that backslash escapes one of " \ $ `. Returns false when the command line leaves that subset
// (unquoted shell metacharacters, unterminated quotes, other backslash uses inside quotes, NUL bytes) or
// produces an empty word (DESIGN.md section 6 item 5).
inline bool portable_split(const std::string& cmd, std::vector<std::string>& out) {
  out.clear();
  std::string cur;
  bool in_word = false;
  size_t i = 0, n = cmd.size();
  auto meta = [](char c) { return strchr("$&|;<>()*?[]#~{}!`\n\r", c) != nullptr; };
  while (i < n) {
    char c = cmd[i];
    if (c == '\0') return false;
    if (c == ' ' || c == '\t') {
      if (in_word) {
        if (cur.empty()) return false;
        out.push_back(cur);
        cur.clear();
        in_word = false;
      }
      i++;
    } else if (c == '\\') {
      if (i + 1 >= n || cmd[i + 1] == '\n' || cmd[i + 1] == '\0') return false;
      cur += cmd[i + 1];
      in_word = true;
      i += 2;
    } else if (c == '\'') {
      size_t j = i + 1;
      while (j < n && cmd[j] != '\'') {
        if (cmd[j] == '\\' || cmd[j] == '\0') return false;
        cur += cmd[j++];
      }
      if (j >= n) return false;
      in_word = true;
      i = j + 1;
    } else if (c == '"') {
      size_t j = i + 1;
      while (j < n && cmd[j] != '"') {
        if (cmd[j] == '\0') return false;
        if (cmd[j] == '\\') {
          if (j + 1 >= n || !strchr("\"\\$`", cmd[j + 1]) || cmd[j + 1] == '\0') return false;
          cur += cmd[j + 1];
          j += 2;
        } else if (cmd[j] == '$' || cmd[j] == '`') {
          return false;
        } else {
          cur += cmd[j++];
        }
      }
      if (j >= n) return false;
      in_word = true;
      i = j + 1;
    } else {
      if (meta(c)) return false;
      cur += c;
      in_word = true;
      i++;
    }
  }
  if (in_word) {
    if (cur.empty()) return false;
    out.push_back(cur);
  }
  return true;
}

// ---------------------------------------------------------------- integer numerals (strtoull subject sequence)

struct Numeral {
  bool any = false; // a non-empty subject sequence exists (a conversion is performed)
  bool complete = false; // ... and it extends to the end of the text
  bool neg = false;
  bool huge = false; // magnitude >= 2^120 (not representable below; certainly outside every type)
  bool platform = false; // "0b..." with base 0: C23 libraries read a binary numeral, older ones stop after "0"
  u128 mag = 0;
};

inline int digit_value(char c) {
  if (c >= '0' && c <= '9') return c - '0';
  if (c >= 'a' && c <= 'z') return c - 'a' + 10;
  if (c >= 'A' && c <= 'Z') return c - 'A' + 10;
  return 99;
}

// base: 0 (C-literal prefixes), 8, 10 or 16
inline Numeral parse_numeral(const std::string& t, int base) {
  Numeral r;
  size_t i = 0, n = t.size();
  while (i < n && (t[i] == ' ' || (t[i] >= '\t' && t[i] <= '\r'))) i++;
  if (i < n && (t[i] == '+' || t[i] == '-')) {
    r.neg = (t[i] == '-');
    i++;
  }
  if (base == 0 && i + 2 < n && t[i] == '0' && (t[i + 1] == 'b' || t[i + 1] == 'B') && (t[i + 2] == '0' || t[i + 2] == '1')) {
    r.platform = true;
  }
  if ((base == 0 || base == 16) && i + 2 < n && t[i] == '0' && (t[i + 1] == 'x' || t[i + 1] == 'X') && digit_value(t[i + 2]) < 16) {
    i += 2;
    base = 16;
  } else if (base == 0) {
    base = (i < n && t[i] == '0') ? 8 : 10;
  }
  size_t start = i;
  const u128 limit = static_cast<u128>(1) << 120;
  while (i < n && t[i] != '\0' && digit_value(t[i]) < base) {
    if (r.mag >= limit) {
      r.huge = true;
    } else {
      r.mag = r.mag * static_cast<unsigned>(base) + static_cast<unsigned>(digit_value(t[i]));
    }
    i++;
  }
  if (r.mag >= limit) r.huge = true;
  r.any = i > start;
  r.complete = r.any && i == n;
  return r;
}

// type codes: 0..3 = u8 u16 u32 u64, 4..7 = s8 s16 s32 s64
inline unsigned type_bits(uint64_t code) { return 8u << (code & 3); }
inline bool type_signed(uint64_t code) { return code >= 4; }

enum class Expect { VALUE,
  INVALID,
  UNSETTLED };

struct IntExpect {
  Expect kind;
  uint64_t bits; // the value as 64-bit two's complement (VALUE only)
};

// "return the value iff the text is a complete numeral of the requested base that fits the requested
// integer type (for 64-bit targets: any numeral of magnitude below 2^63)"
inline IntExpect expect_int(const Numeral& m, uint64_t code) {
  if (!m.complete) return {Expect::INVALID, 0};
  unsigned bits = type_bits(code);
  uint64_t value = m.neg ? static_cast<uint64_t>(0) - static_cast<uint64_t>(m.mag) : static_cast<uint64_t>(m.mag);
  if (bits == 64) {
    if (!m.huge && m.mag < (static_cast<u128>(1) << 63)) return {Expect::VALUE, value};
    return {Expect::UNSETTLED, 0};
  }
  if (m.huge) return {Expect::INVALID, 0};
  bool fits;
  if (type_signed(code)) {
    u128 lim = static_cast<u128>(1) << (bits - 1);
    fits = m.neg ? (m.mag <= lim) : (m.mag < lim);
  } else {
    fits = m.neg ? (m.mag == 0) : (m.mag < (static_cast<u128>(1) << bits));
  }
  if (!fits) return {Expect::INVALID, 0};
  return {Expect::VALUE, value};
}

// ---------------------------------------------------------------- floating-point literals (strtod subject sequence)

struct FloatLit {
  bool complete = false; // the whole text is optional blanks + one strtod subject sequence
  bool in_range = false; // the value is finite-representable (no overflow / underflow reported by from_chars)
  double value = 0; // sign applied; NaN for nan literals
  bool is_nan = false;
};

inline bool ieq(const std::string& t, size_t i, const char* word) {
  size_t k = 0;
  for (; word[k]; k++) {
    if (i + k >= t.size()) return false;
    char c = t[i + k];
    if (c >= 'A' && c <= 'Z') c = static_cast<char>(c - 'A' + 'a');
    if (c != word[k]) return false;
  }
  return true;
}

inline FloatLit parse_float_literal(const std::string& t) {
  FloatLit r;
  size_t i = 0, n = t.size();
  while (i < n && (t[i] == ' ' || (t[i] >= '\t' && t[i] <= '\r'))) i++;
  bool neg = false;
  if (i < n && (t[i] == '+' || t[i] == '-')) {
    neg = (t[i] == '-');
    i++;
  }
  auto isd = [&](size_t k) { return k < n && t[k] >= '0' && t[k] <= '9'; };
  auto isx = [&](size_t k) { return k < n && t[k] != '\0' && digit_value(t[k]) < 16; };
  if (ieq(t, i, "inf")) {
    size_t e = ieq(t, i, "infinity") ? i + 8 : i + 3;
    r.complete = (e == n);
    r.in_range = true;
    r.value = neg ? -INFINITY : INFINITY;
    return r;
  }
  if (ieq(t, i, "nan")) {
    size_t e = i + 3;
    if (e < n && t[e] == '(') {
      size_t k = e + 1;
      while (k < n && (digit_value(t[k]) < 36 || t[k] == '_')) k++;
      if (k < n && t[k] == ')') e = k + 1;
    }
    r.complete = (e == n);
    r.in_range = true;
    r.is_nan = true;
    r.value = NAN;
    return r;
  }
  size_t begin = i, end = i;
  bool hex = false;
  if (i + 1 < n && t[i] == '0' && (t[i + 1] == 'x' || t[i + 1] == 'X')) {
    // hexadecimal: 0x hexdigits [. hexdigits] | 0x . hexdigits, then optional p [sign] digits
    size_t k = i + 2, nd = 0;
    while (isx(k)) k++, nd++;
    if (k < n && t[k] == '.') {
      size_t k2 = k + 1, nf = 0;
      while (isx(k2)) k2++, nf++;
      if (nd + nf > 0) {
        k = k2;
        nd += nf;
      }
    }
    if (nd > 0) {
      hex = true;
      begin = i + 2;
      end = k;
      if (end < n && (t[end] == 'p' || t[end] == 'P')) {
        size_t k3 = end + 1;
        if (k3 < n && (t[k3] == '+' || t[k3] == '-')) k3++;
        if (isd(k3)) {
          while (isd(k3)) k3++;
          end = k3;
        }
      }
    }
  }
  if (!hex) {
    size_t k = i, nd = 0;
    while (isd(k)) k++, nd++;
    if (k < n && t[k] == '.') {
      size_t k2 = k + 1, nf = 0;
      while (isd(k2)) k2++, nf++;
      if (nd + nf > 0) {
        k = k2;
        nd += nf;
      }
    }
    if (nd == 0) return r; // no subject sequence
    end = k;
    if (end < n && (t[end] == 'e' || t[end] == 'E')) {
      size_t k3 = end + 1;
      if (k3 < n && (t[k3] == '+' || t[k3] == '-')) k3++;
      if (isd(k3)) {
        while (isd(k3)) k3++;
        end = k3;
      }
    }
  }
  r.complete = (end == n);
  if (!r.complete) return r;
  double v = 0;
  auto res = std::from_chars(t.data() + begin, t.data() + end, v, hex ? std::chars_format::hex : std::chars_format::general);
  if (res.ec == std::errc() && res.ptr == t.data() + end) {
    r.in_range = true;
    r.value = neg ? -v : v;
  } else {
    r.in_range = false; // overflow/underflow: what the getter returns there is not settled by the property
  }
  return r;
}

// ---------------------------------------------------------------- 128-bit rendering

inline std::string render(u128 v, int base) {
  if (v == 0) return "0";
  std::string s;
  while (v) {
    unsigned d = static_cast<unsigned>(v % static_cast<unsigned>(base));
    s += static_cast<char>(d < 10 ? '0' + d : 'a' + d - 10);
    v /= static_cast<unsigned>(base);
  }
  return std::string(s.rbegin(), s.rend());
}

} // namespace c17
