// C12 - LRUSet / LRUMap behave as a reference recency list under every operation history.
//
// A case is a whole history. Two instances (A, B) of the container are driven side by side with two
// reference recency lists (std::list, front = most recently used); after EVERY operation both instances are
// compared with their models through the public API (return value, size(), count(), peek()/item_size()) and
// through a read-only walk of the intrusive list (head/tail/prev/next/key are `protected`, a derived probe
// class reads them); at the end both instances are drained with evict_object() which must replay the model
// order, and LeakSanitizer is asked for leaks.
//
// Case encoding: n[0] = mode
//   mode 0: n[1..] = packed operations (one history)
//   mode 1: n[1] = alphabet id, n[2] = number B of free trailing operations (+100: interior no-ops pruned), n[3..] = prefix operations; the
//           case stands for ALL histories prefix + (B operations from the alphabet) - used by the exhaustive
//           enumerator as journal/replay unit.
//   mode 2: n[1] = N, n[2] = seed, n[3] = drain_to: a large-population history derived from these three numbers (replay_bulk): N distinct
//           keys inserted into one container (with touches, re-inserts and a few erases in between), a drain by evict_object() down
//           to drain_to entries (touches / inserts / erases every 16th step), a short tail and a final drain - every eviction and peek
//           compared with the model
// packed operation (decimal digits, most significant first):  value | arg(2) | key%100(2) | (key/100)*4+flag*2+inst(1) | code(2)
// keys are 0..199. arg 0..79 is the size itself; arg 80.. selects an extreme size from kBigSizes (size_t operations) /
// kBigTouch (the ssize_t new_size of touch) - see size_of_arg / touch_of_arg.
#pragma once

#include <sanitizer/lsan_interface.h>

#include <list>
#include <memory>
#include <string>
#include <string_view>
#include <unordered_map>

#include <phosg/LRUMap.hh>
#include <phosg/LRUSet.hh>

#include "verif.hh"
#include "alloc_balance.hh"

namespace c12 {

using namespace verif;

enum Code : unsigned {
  INSERT = 0, // set: insert(k, size)            map: insert(K&&, V&&, size)
  EMPLACE = 1, // emplace(K&&, size)              map: emplace(K&&, V&&, size)
  ERASE = 2,
  TOUCH = 3, // touch(k, arg-1)   (arg 0 -> new_size -1)
  CHANGE_SIZE = 4, // set: change_size(k, arg)      map: change_size(k, arg, flag)
  EVICT = 5,
  PEEK = 6, // set only
  CLEAR = 7,
  SWAP = 8, // inst.swap(other)
  AT = 9, // map: at(k) (non-const)
  ITEM_SIZE = 10, // map
  AT_ASSIGN = 11, // map: at(k) = value
  INSERT_DEF = 12, // insert with the default size argument
  EMPLACE_DEF = 13,
  TOUCH_DEF = 14, // touch(k)
  CS_DEF = 15, // map: change_size(k, arg) (default touch = true)
  INSERT_CREF = 16, // map: insert(const K&, const V&, size)      [only in the gated build]
  AT_CONST = 17, // map: at(k) const                           [only in the gated build]
  INSERT_CREF_DEF = 18, // map: insert(const K&, const V&)            [only in the gated build]
  EMPTY = 19, // map: empty()
  // Arguments that refer INTO the container (all parameters are references): the stored value of the same key or of another key as the
  // value of an insert, the stored key object itself as the key of insert / erase / touch. When the entry referred to is absent the
  // operation falls back to the plain form with a fresh argument.
  INSERT_VSELF = 20, // map: insert(k, at(k), size)  - const K&, const V& form                       [only in the gated build]
  INSERT_VOTHER = 21, // map: insert(k, at(other), size) with other = value % 200                    [only in the gated build]
  INSERT_KSTORED = 22, // set: insert(stored key object of k, size); map: insert(stored key object of k, v, size) [map: gated build]
  ERASE_KSTORED = 23, // erase(stored key object of k)
  TOUCH_KSTORED = 24, // touch(stored key object of k)
  NUM_CODES = 25
};

static const char* kCodeNames[NUM_CODES] = {"insert", "emplace", "erase", "touch", "change_size", "evict_object", "peek", "clear", "swap",
    "at", "item_size", "at_assign", "insert_default_size", "emplace_default_size", "touch_default", "change_size_default_touch",
    "insert_cref", "at_const", "insert_cref_default_size", "empty", "insert_value=at(same key)", "insert_value=at(key value%200)", "insert_key=stored key object",
    "erase_key=stored key object", "touch_key=stored key object"};

struct Step {
  unsigned code, inst, flag, key, arg;
  uint64_t value;
};

inline uint64_t pack(unsigned code, unsigned inst, unsigned flag, unsigned key, unsigned arg, uint64_t value) {
  return code + 100ULL * (inst + 2 * flag + 4 * (key / 100)) + 1000ULL * (key % 100) + 100000ULL * arg + 10000000ULL * value;
}

// sizes are size_t values: besides the small ones the histories use the corners of the type - the first values of the
// upper half (where a detour through a signed type changes the value), the top of the range, and the largest values
// of the lower half
static const unsigned kBigArg = 80;
static const size_t kBigSizes[] = {
    static_cast<size_t>(1) << 63, (static_cast<size_t>(1) << 63) + 1, (static_cast<size_t>(1) << 63) + (static_cast<size_t>(1) << 32),
    static_cast<size_t>(3) << 62, SIZE_MAX - 7, SIZE_MAX - 1, SIZE_MAX, SIZE_MAX / 2, SIZE_MAX / 2 - 1, static_cast<size_t>(1) << 62,
    static_cast<size_t>(1) << 32, (static_cast<size_t>(1) << 32) - 1, static_cast<size_t>(1) << 31};
static const unsigned kNumBigSizes = sizeof(kBigSizes) / sizeof(kBigSizes[0]);
// touch(k, ssize_t new_size): the non-negative extremes (what a negative value other than the default -1 means is not documented)
static const ssize_t kBigTouch[] = {SSIZE_MAX, SSIZE_MAX - 1, static_cast<ssize_t>(1) << 62, static_cast<ssize_t>(1) << 32, static_cast<ssize_t>(1) << 31};
static const unsigned kNumBigTouch = sizeof(kBigTouch) / sizeof(kBigTouch[0]);
inline size_t size_of_arg(unsigned arg) {
  if (arg < kBigArg) return arg;
  if (arg - kBigArg >= kNumBigSizes) throw std::logic_error("C12: size selector outside the table");
  return kBigSizes[arg - kBigArg];
}
inline ssize_t touch_of_arg(unsigned arg) { // arg 0 -> -1 (keep the size)
  if (arg < kBigArg) return static_cast<ssize_t>(arg) - 1;
  if (arg - kBigArg >= kNumBigTouch) throw std::logic_error("C12: touch size selector outside the table");
  return kBigTouch[arg - kBigArg];
}
inline Step unpack(uint64_t w) {
  Step s;
  s.code = w % 100;
  unsigned fi = (w / 100) % 10;
  s.inst = fi & 1;
  s.flag = (fi >> 1) & 1;
  s.key = (w / 1000) % 100 + 100 * (fi >> 2);
  s.arg = (w / 100000) % 100;
  s.value = w / 10000000ULL;
  if (s.code >= NUM_CODES || fi > 7 || s.value > 0xFFFFFFFFULL) throw std::logic_error("C12: malformed operation word");
  return s;
}
inline std::string describe(uint64_t w) {
  Step s = unpack(w);
  std::string big;
  if (s.code == TOUCH && s.arg >= kBigArg && s.arg - kBigArg < kNumBigTouch) big = cat("(new_size ", touch_of_arg(s.arg), ")");
  else if (s.code != TOUCH && s.arg >= kBigArg && s.arg - kBigArg < kNumBigSizes) big = cat("(size ", size_of_arg(s.arg), ")");
  return cat(kCodeNames[s.code], "[", s.inst ? "B" : "A", "](key=", s.key, ",arg=", s.arg, big, ",flag=", s.flag, ",value=", s.value, ")");
}
inline std::string describe_history(const uint64_t* ops, size_t n, size_t upto) {
  std::string r;
  for (size_t i = 0; i < n && i <= upto; i++) r += cat(i ? " ; " : "", "#", i, " ", describe(ops[i]));
  return r;
}

// C12_NO_LINK_WALK=1 switches the structural walk off (sensitivity experiments: is the public-API oracle alone enough?)
inline bool link_walk_enabled() {
  static const bool on = getenv("C12_NO_LINK_WALK") == nullptr;
  return on;
}

// The structural walk reads protected members of the containers (hash map `items` of intrusive `Item`s with prev / next /
// key / size [/ value], `head`, `tail`). They are not part of the public interface: when a tree stores the recency order
// differently the walk (and the aliasing operations that need the stored key object) are compiled out - the public-API
// oracle, the heap balance and the sanitizers remain - and the run says so in its notes.
inline void note_links_unavailable() {
  static bool said = false;
  if (said) return;
  said = true;
  verif::ctx().cls("links:layout-differs-walk-compiled-out");
}

// where in which history a check failed; formatted only when a check fails
struct Where {
  const uint64_t* ops;
  size_t n, i;
  const char* label; // non-null: fixed text instead of a step
};
inline std::ostream& operator<<(std::ostream& o, const Where& w) {
  if (w.label) return o << w.label << " of: " << describe_history(w.ops, w.n, w.n);
  return o << "step #" << w.i << " of: " << describe_history(w.ops, w.n, w.i);
}

// ------------------------------------------------------------------ key / value types

template <typename T>
struct Conv;
template <>
struct Conv<int64_t> {
  static int64_t key(unsigned k) { return static_cast<int64_t>(k) * 7919 - 3; }
  static int64_t value(uint64_t v) { return static_cast<int64_t>(v * 3 + 1); }
  static void prepare() {}
  static unsigned outstanding() { return 0; }
};
template <>
struct Conv<std::string> {
  // even keys fit the small-string buffer, odd keys live on the heap (dangling key pointers become visible)
  static std::string key(unsigned k) { return (k & 1) ? cat("key-", k, "-", std::string(24 + k, static_cast<char>('a' + k % 26))) : cat("k", k); }
  static std::string value(uint64_t v) { return (v & 1) ? cat("value-", v, "-", std::string(20, 'v')) : cat("v", v); }
  static void prepare() {}
  static unsigned outstanding() { return 0; }
};

// A key type of the kind the containers are written for but that is neither an integer nor a std::string: a small struct that OWNS
// a resource (a std::string member: short paths sit in the small-string buffer, long ones on the heap, so a copy is deep and a moved-from
// key is a different - empty - key) with a user-written std::hash specialisation and operator==. The hash is noexcept and cheap, which
// is what makes libstdc++ NOT cache the hash code in the node (it does for std::string): every rehash / erase(iterator) / bucket walk
// calls the hash on the key stored in the node again, so a container that lets that stored key change (moves from it, overwrites it)
// while the node is linked is found out. The hash covers the path only - a legal, weaker hash - so the two keys that share a path and
// differ in `gen` always collide and the equality comparison inside a bucket is exercised.
struct PathKey {
  std::string path;
  uint32_t gen = 0;
  bool operator==(const PathKey& o) const { return gen == o.gen && path == o.path; }
  bool operator!=(const PathKey& o) const { return !(*this == o); }
};

// A key whose copies share ownership (equality and hash are by identity, std::hash<std::shared_ptr> is the standard library's own
// noexcept hash; a moved-from key is the null key). The 200 key objects live in a table that is built before the heap scope of a
// history opens; when the containers of a history are gone every table entry must be the only owner again.
typedef std::shared_ptr<const std::string> SharedKey;

} // namespace c12

namespace std {
template <>
struct hash<c12::PathKey> {
  size_t operator()(const c12::PathKey& k) const noexcept { return std::hash<std::string_view>()(k.path); }
};
} // namespace std

namespace c12 {

template <>
struct Conv<PathKey> {
  // path number p = k/2 (odd p: a heap-allocated path, even p: one that fits the small-string buffer), generation k%2
  static PathKey key(unsigned k) {
    unsigned p = k / 2;
    PathKey r;
    r.path = (p & 1) ? cat("/srv/cache/objects/", std::string(12 + p % 40, static_cast<char>('a' + p % 26)), "/", p, ".bin") : cat("/t/", p);
    r.gen = (k & 1) ? 0x80000000u + k : 0;
    return r;
  }
  static void prepare() {}
  static unsigned outstanding() { return 0; }
};
template <>
struct Conv<SharedKey> {
  static std::vector<SharedKey>& table() {
    static std::vector<SharedKey> t = [] {
      std::vector<SharedKey> v;
      for (unsigned k = 0; k < 200; k++) v.push_back(std::make_shared<const std::string>(cat("object-", k)));
      return v;
    }();
    return t;
  }
  static SharedKey key(unsigned k) { return table().at(k); }
  static void prepare() { table(); }
  // number of key objects that something other than the table still owns
  static unsigned outstanding() {
    unsigned n = 0;
    for (const auto& p : table()) n += p.use_count() != 1;
    return n;
  }
};

// ------------------------------------------------------------------ reference model

struct Entry {
  unsigned key;
  uint64_t value;
  size_t size;
};

struct Model {
  std::list<Entry> l; // front = most recently used, back = least recently used
  // for the non-trivial rule
  bool order_changed = false;

  std::list<Entry>::iterator find(unsigned k) {
    auto it = l.begin();
    while (it != l.end() && it->key != k) ++it;
    return it;
  }
  bool has(unsigned k) { return find(k) != l.end(); }
  // the sum of the entries' sizes; false when it is not representable in size_t (then "size() is the sum" demands nothing)
  bool total(size_t* out) const {
    unsigned __int128 t = 0;
    for (const auto& e : l) t += e.size;
    *out = static_cast<size_t>(t);
    return t <= static_cast<unsigned __int128>(SIZE_MAX);
  }
  void refresh(std::list<Entry>::iterator it) {
    if (it != l.begin()) {
      if (l.size() >= 2) order_changed = true;
      l.splice(l.begin(), l, it);
    }
  }
};

struct Stats {
  bool light = false; // exhaustive blocks: skip the exception-throwing "evict from the drained container" epilogue
  // first step whose post-state is compared in full (size/count/peek/lookups/list walk). The exhaustive enumerator
  // runs every history of every length 1..L, so the state after an earlier step was compared in full when the
  // shorter history (the same deterministic prefix) was enumerated; return values are compared at every step.
  size_t check_from = 0;
  // exhaustive blocks: stop at an operation that is a no-op by the model (touch/change_size/lookup of an absent key,
  // evict/peek on an empty container - all of which throw inside phosg, ~15 us each under ASan) when it is not the
  // last operation: the history is state-equivalent to the shorter history without it, and the no-op itself is
  // compared (return value + unchanged state) where it is the last operation.
  bool prune_noops = false;
  size_t pruned_at = SIZE_MAX;
  bool nontrivial = false;
  unsigned max_live = 0;
  bool big_sizes = false; // an operation carried a size >= 2^31
  uint64_t sum_overflow_states = 0; // compared states in which the sum of sizes exceeded SIZE_MAX (size() not compared)
};

#define C12_OP(step) kCodeNames[(step).code]

// ------------------------------------------------------------------ LRUSet

template <typename K>
struct SetProbe : public phosg::LRUSet<K> {
  // the key object stored in the container for k (nullptr when absent - or when the layout does not expose it)
  const K* stored_key(const K& k) const {
    if constexpr (requires(const SetProbe& c) { static_cast<const K*>(&c.items.find(k)->first); }) {
      auto f = this->items.find(k);
      return f == this->items.end() ? nullptr : &f->first;
    } else {
      note_links_unavailable();
      return nullptr;
    }
  }
  // read-only structural walk: the intrusive list must be exactly the model's recency order
  void verify_links(const Model& m, const char* which, const Where& when) const {
    if (!link_walk_enabled()) return;
    if constexpr (requires(const SetProbe& c) {
                    c.head == c.tail;
                    c.head == &c.items.begin()->second;
                    c.head->prev == c.head->next;
                    c.head->key == &c.items.begin()->first;
                    static_cast<size_t>(c.head->size);
                  }) {
      verify_links_impl(m, which, when);
    } else {
      note_links_unavailable();
    }
  }
  void verify_links_impl(const Model& m, const char* which, const Where& when) const {
    size_t n = m.l.size();
    VCHECK(this->items.size() == n, "links:item-count", which, ": hash map holds ", this->items.size(), " items, model ", n, " after ", when);
    if (n == 0) {
      VCHECK(this->head == nullptr && this->tail == nullptr, "links:empty-head-tail", which, ": head/tail not null in an empty container after ", when);
      return;
    }
    VCHECK(this->head != nullptr && this->tail != nullptr, "links:null-head-tail", which, ": head or tail null with ", n, " items after ", when);
    auto* p = this->head;
    decltype(p) prev = nullptr;
    size_t i = 0;
    for (auto it = m.l.begin(); it != m.l.end(); ++it, ++i) {
      VCHECK(p != nullptr, "links:forward-chain-short", which, ": next chain ends after ", i, " of ", n, " items after ", when);
      VCHECK(p->prev == prev, "links:prev-pointer", which, ": prev pointer of list position ", i, " is wrong after ", when);
      auto f = this->items.find(Conv<K>::key(it->key));
      VCHECK(f != this->items.end(), "links:order", which, ": model key ", it->key, " missing from the hash map after ", when);
      VCHECK(&f->second == p, "links:order", which, ": list position ", i, " is not the item of key ", it->key, " after ", when);
      VCHECK(p->key == &f->first, "links:key-pointer", which, ": item of key ", it->key, " has a key pointer that is not its map key after ", when);
      VCHECK(p->size == it->size, "links:item-size", which, ": item of key ", it->key, " has size ", p->size, " model ", it->size, " after ", when);
      prev = p;
      p = p->next;
    }
    VCHECK(p == nullptr, "links:forward-chain-long", which, ": next chain continues past ", n, " items after ", when);
    VCHECK(this->tail == prev, "links:tail", which, ": tail is not the last list item after ", when);
  }
};

template <typename K>
void check_set_state(SetProbe<K>* inst, Model* model, const Where& when, Stats& st) {
  for (int j = 0; j < 2; j++) {
    const char* which = j ? "B" : "A";
    size_t total;
    if (model[j].total(&total)) VCHECK(inst[j].size() == total, "size-sum", which, ".size() is ", inst[j].size(), " but the entries' sizes sum to ", total, " after ", when);
    else st.sum_overflow_states++;
    VCHECK(inst[j].count() == model[j].l.size(), "count", which, ".count() is ", inst[j].count(), " model ", model[j].l.size(), " after ", when);
    // (peek() on an empty set throws; that is exercised by the explicit PEEK operation - an exception per step
    // and instance would dominate the run time under ASan)
    if (!model[j].l.empty()) {
      auto p = inst[j].peek();
      const Entry& lru = model[j].l.back();
      VCHECK(p.first == Conv<K>::key(lru.key) && p.second == lru.size, "peek-lru", which, ".peek() is not the least recently used entry (model key ", lru.key, " size ", lru.size, ", got size ", p.second, ") after ", when);
    }
    inst[j].verify_links(model[j], which, when);
  }
}

template <typename K>
void replay_set(const uint64_t* ops, size_t n, Stats& st) {
  Conv<K>::prepare();
  alloc_balance::Scope heap;
  {
    SetProbe<K> inst[2];
    Model model[2];
    check_set_state(inst, model, Where{ops, 0, 0, "construction"}, st);
    for (size_t i = 0; i < n; i++) {
      Step s = unpack(ops[i]);
      SetProbe<K>& c = inst[s.inst];
      Model& m = model[s.inst];
      Where here{ops, n, i, nullptr};
      auto when = [&]() -> const Where& { return here; };
      K key = Conv<K>::key(s.key);
      auto it = m.find(s.key);
      bool existed = it != m.l.end();
      if (st.prune_noops && i + 1 < n) {
        bool noop = ((s.code == TOUCH || s.code == TOUCH_DEF || s.code == CHANGE_SIZE) && !existed) || ((s.code == EVICT || s.code == PEEK) && m.l.empty());
        if (noop) {
          st.pruned_at = i;
          return;
        }
      }
      switch (s.code) {
        case INSERT:
        case INSERT_DEF:
        case EMPLACE:
        case EMPLACE_DEF: {
          size_t size = (s.code == INSERT_DEF || s.code == EMPLACE_DEF) ? 0 : size_of_arg(s.arg);
          bool r;
          if (s.code == INSERT) r = c.insert(key, size);
          else if (s.code == INSERT_DEF) r = c.insert(key);
          else if (s.code == EMPLACE) r = c.emplace(std::move(key), size);
          else r = c.emplace(std::move(key));
          VCHECK(r == !existed, cat("return:", C12_OP(s)), "returned ", r, " for a key that ", existed ? "existed" : "was new", " at ", when());
          if (existed) {
            it->size = size;
            m.refresh(it);
          } else {
            m.l.push_front(Entry{s.key, 0, size});
          }
          break;
        }
        case ERASE: {
          bool r = c.erase(key);
          VCHECK(r == existed, "return:erase", "returned ", r, " for a key that ", existed ? "existed" : "did not exist", " at ", when());
          if (existed) {
            if (m.order_changed) st.nontrivial = true;
            m.l.erase(it);
          }
          break;
        }
        case TOUCH:
        case TOUCH_DEF: {
          ssize_t ns = (s.code == TOUCH_DEF) ? -1 : touch_of_arg(s.arg);
          bool r = (s.code == TOUCH_DEF) ? c.touch(key) : c.touch(key, ns);
          VCHECK(r == existed, "return:touch", "returned ", r, " for a key that ", existed ? "existed" : "did not exist", " at ", when());
          if (existed) {
            if (ns >= 0) it->size = static_cast<size_t>(ns);
            m.refresh(it);
          }
          break;
        }
        case CHANGE_SIZE: {
          bool r = c.change_size(key, size_of_arg(s.arg));
          VCHECK(r == existed, "return:change_size", "returned ", r, " for a key that ", existed ? "existed" : "did not exist", " at ", when());
          if (existed) it->size = size_of_arg(s.arg); // LRUSet::change_size is not documented to touch
          break;
        }
        case EVICT: {
          if (m.l.empty()) {
            bool threw = false;
            try {
              c.evict_object();
            } catch (const std::out_of_range&) {
              threw = true;
            }
            VCHECK(threw, "evict-empty", "evict_object() on an empty set did not throw out_of_range at ", when());
          } else {
            auto r = c.evict_object();
            const Entry& lru = m.l.back();
            VCHECK(r.first == Conv<K>::key(lru.key) && r.second == lru.size, "evict-lru", "evict_object() did not return the least recently used entry (model key ", lru.key, " size ", lru.size, ", got size ", r.second, ") at ", when());
            if (m.order_changed) st.nontrivial = true;
            m.l.pop_back();
          }
          break;
        }
        case PEEK: {
          // peek is compared after every step anyway; here it is an explicit operation of the history
          if (!m.l.empty()) {
            auto r = c.peek();
            VCHECK(r.first == Conv<K>::key(m.l.back().key) && r.second == m.l.back().size, "peek-lru", "peek() is not the least recently used entry at ", when());
          } else {
            bool threw = false;
            try {
              c.peek();
            } catch (const std::out_of_range&) {
              threw = true;
            }
            VCHECK(threw, "peek-empty", "peek() on an empty set did not throw out_of_range at ", when());
          }
          break;
        }
        case INSERT_KSTORED: {
          size_t size = size_of_arg(s.arg);
          const K* sk = c.stored_key(key);
          bool r = c.insert(sk ? *sk : key, size);
          VCHECK(r == !existed, cat("return:", C12_OP(s)), "returned ", r, " for a key that ", existed ? "existed" : "was new", " at ", when());
          if (existed) {
            it->size = size;
            m.refresh(it);
          } else {
            m.l.push_front(Entry{s.key, 0, size});
          }
          break;
        }
        case ERASE_KSTORED: {
          const K* sk = c.stored_key(key);
          bool r = c.erase(sk ? *sk : key);
          VCHECK(r == existed, "return:erase", "returned ", r, " for a key that ", existed ? "existed" : "did not exist", " at ", when());
          if (existed) {
            if (m.order_changed) st.nontrivial = true;
            m.l.erase(it);
          }
          break;
        }
        case TOUCH_KSTORED: {
          const K* sk = c.stored_key(key);
          bool r = c.touch(sk ? *sk : key);
          VCHECK(r == existed, "return:touch", "returned ", r, " for a key that ", existed ? "existed" : "did not exist", " at ", when());
          if (existed) m.refresh(it);
          break;
        }
        case CLEAR:
          c.clear();
          m.l.clear();
          break;
        case SWAP:
          c.swap(inst[1 - s.inst]);
          std::swap(model[0].l, model[1].l);
          std::swap(model[0].order_changed, model[1].order_changed);
          break;
        default:
          throw std::logic_error(cat("C12: operation ", kCodeNames[s.code], " does not exist on LRUSet"));
      }
      st.max_live = std::max<unsigned>(st.max_live, std::max(model[0].l.size(), model[1].l.size()));
      if (s.arg >= kBigArg) st.big_sizes = true;
      if (i >= st.check_from) check_set_state(inst, model, here, st);
    }
    // final drain: evict_object must replay the model order, oldest first
    for (int j = 0; j < 2; j++) {
      const char* which = j ? "B" : "A";
      size_t k = 0;
      while (!model[j].l.empty()) {
        auto r = inst[j].evict_object();
        const Entry& lru = model[j].l.back();
        VCHECK(r.first == Conv<K>::key(lru.key) && r.second == lru.size, "drain-order", "final drain of ", which, ": eviction #", k, " is not the model's least recently used entry (model key ", lru.key, " size ", lru.size, ", got size ", r.second, ") after: ", describe_history(ops, n, n));
        model[j].l.pop_back();
        k++;
        size_t total;
        bool representable = model[j].total(&total);
        VCHECK((!representable || inst[j].size() == total) && inst[j].count() == model[j].l.size(), "drain-size", "final drain of ", which, ": size()/count() wrong after eviction #", k);
      }
      if (!st.light) {
        bool threw = false;
        try {
          inst[j].evict_object();
        } catch (const std::out_of_range&) {
          threw = true;
        }
        VCHECK(threw, "evict-empty", "evict_object() on the drained set ", which, " did not throw out_of_range");
      }
      inst[j].verify_links(model[j], which, Where{ops, n, n, "final drain"});
    }
  }
  // both containers and both models are destroyed: every block allocated since `heap` must be gone
  VCHECK(!heap.leaked(), "leak", heap.excess(), " heap block(s) allocated during the history are still live after the containers were destroyed and LeakSanitizer reports a leak, after: ", describe_history(ops, n, n));
  VCHECK(Conv<K>::outstanding() == 0, "key-copy-outlives-container", Conv<K>::outstanding(), " shared key object(s) still have an owner besides the key table after the containers were destroyed, after: ", describe_history(ops, n, n));
}

// ------------------------------------------------------------------ LRUMap

template <typename K, typename V>
struct MapProbe : public phosg::LRUMap<K, V> {
  const K* stored_key(const K& k) const {
    if constexpr (requires(const MapProbe& c) { static_cast<const K*>(&c.items.find(k)->first); }) {
      auto f = this->items.find(k);
      return f == this->items.end() ? nullptr : &f->first;
    } else {
      note_links_unavailable();
      return nullptr;
    }
  }
  void verify_links(const Model& m, const char* which, const Where& when) const {
    if (!link_walk_enabled()) return;
    if constexpr (requires(const MapProbe& c) {
                    c.head == c.tail;
                    c.head == &c.items.begin()->second;
                    c.head->prev == c.head->next;
                    c.head->key == &c.items.begin()->first;
                    static_cast<size_t>(c.head->size);
                    c.head->value == c.head->value;
                  }) {
      verify_links_impl(m, which, when);
    } else {
      note_links_unavailable();
    }
  }
  void verify_links_impl(const Model& m, const char* which, const Where& when) const {
    size_t n = m.l.size();
    VCHECK(this->items.size() == n, "links:item-count", which, ": hash map holds ", this->items.size(), " items, model ", n, " after ", when);
    if (n == 0) {
      VCHECK(this->head == nullptr && this->tail == nullptr, "links:empty-head-tail", which, ": head/tail not null in an empty container after ", when);
      return;
    }
    VCHECK(this->head != nullptr && this->tail != nullptr, "links:null-head-tail", which, ": head or tail null with ", n, " items after ", when);
    auto* p = this->head;
    decltype(p) prev = nullptr;
    size_t i = 0;
    for (auto it = m.l.begin(); it != m.l.end(); ++it, ++i) {
      VCHECK(p != nullptr, "links:forward-chain-short", which, ": next chain ends after ", i, " of ", n, " items after ", when);
      VCHECK(p->prev == prev, "links:prev-pointer", which, ": prev pointer of list position ", i, " is wrong after ", when);
      auto f = this->items.find(Conv<K>::key(it->key));
      VCHECK(f != this->items.end(), "links:order", which, ": model key ", it->key, " missing from the hash map after ", when);
      VCHECK(&f->second == p, "links:order", which, ": list position ", i, " is not the item of key ", it->key, " after ", when);
      VCHECK(p->key == &f->first, "links:key-pointer", which, ": item of key ", it->key, " has a key pointer that is not its map key after ", when);
      VCHECK(p->size == it->size, "links:item-size", which, ": item of key ", it->key, " has size ", p->size, " model ", it->size, " after ", when);
      VCHECK(p->value == Conv<V>::value(it->value), "links:item-value", which, ": item of key ", it->key, " does not hold the last stored value after ", when);
      prev = p;
      p = p->next;
    }
    VCHECK(p == nullptr, "links:forward-chain-long", which, ": next chain continues past ", n, " items after ", when);
    VCHECK(this->tail == prev, "links:tail", which, ": tail is not the last list item after ", when);
  }
};

template <typename K, typename V>
void check_map_state(MapProbe<K, V>* inst, Model* model, unsigned nkeys, const Where& when, Stats& st) {
  for (int j = 0; j < 2; j++) {
    const char* which = j ? "B" : "A";
    size_t total;
    if (model[j].total(&total)) VCHECK(inst[j].size() == total, "size-sum", which, ".size() is ", inst[j].size(), " but the entries' sizes sum to ", total, " after ", when);
    else st.sum_overflow_states++;
    VCHECK(inst[j].count() == model[j].l.size(), "count", which, ".count() is ", inst[j].count(), " model ", model[j].l.size(), " after ", when);
    VCHECK(inst[j].empty() == model[j].l.empty(), "empty", which, ".empty() is ", inst[j].empty(), " with ", model[j].l.size(), " model entries after ", when);
    // item_size is the one lookup that is documented not to touch: ask it for every key of the history
    // (absent keys throw; they are exercised by the explicit ITEM_SIZE / AT operations)
    (void)nkeys;
    for (auto it = model[j].l.begin(); it != model[j].l.end(); ++it) {
      try {
        size_t sz = inst[j].item_size(Conv<K>::key(it->key));
        VCHECK(sz == it->size, "lookup:item_size", which, ".item_size(key ", it->key, ") is ", sz, " model ", it->size, " after ", when);
      } catch (const std::out_of_range&) {
        VFAIL("lookup:item_size-missing", which, ".item_size(key ", it->key, ") threw out_of_range for a present key after ", when);
      }
    }
    inst[j].verify_links(model[j], which, when);
  }
}

template <typename K, typename V>
void replay_map(const uint64_t* ops, size_t n, Stats& st) {
  unsigned nkeys = 0;
  for (size_t i = 0; i < n; i++) nkeys = std::max(nkeys, unpack(ops[i]).key + 1);
  Conv<K>::prepare();
  alloc_balance::Scope heap;
  {
    MapProbe<K, V> inst[2];
    Model model[2];
    check_map_state(inst, model, nkeys, Where{ops, 0, 0, "construction"}, st);
    for (size_t i = 0; i < n; i++) {
      Step s = unpack(ops[i]);
      MapProbe<K, V>& c = inst[s.inst];
      Model& m = model[s.inst];
      Where here{ops, n, i, nullptr};
      auto when = [&]() -> const Where& { return here; };
      K key = Conv<K>::key(s.key);
      V value = Conv<V>::value(s.value);
      auto it = m.find(s.key);
      bool existed = it != m.l.end();
      if (st.prune_noops && i + 1 < n) {
        bool keyed_lookup = s.code == TOUCH || s.code == TOUCH_DEF || s.code == CHANGE_SIZE || s.code == CS_DEF || s.code == AT || s.code == AT_ASSIGN || s.code == AT_CONST || s.code == ITEM_SIZE;
        if ((keyed_lookup && !existed) || (s.code == EVICT && m.l.empty())) {
          st.pruned_at = i;
          return;
        }
      }
      switch (s.code) {
        case INSERT:
        case INSERT_DEF:
        case INSERT_CREF:
        case INSERT_CREF_DEF: {
          size_t size = (s.code == INSERT_DEF || s.code == INSERT_CREF_DEF) ? 1 : size_of_arg(s.arg);
          bool r;
          if (s.code == INSERT) r = c.insert(std::move(key), std::move(value), size);
          else if (s.code == INSERT_DEF) r = c.insert(std::move(key), std::move(value));
#ifdef C12_GATED
          else if (s.code == INSERT_CREF) {
            const K& ck = key;
            const V& cv = value;
            r = c.insert(ck, cv, size);
            VCHECK(key == Conv<K>::key(s.key) && value == Conv<V>::value(s.value), "insert-cref-modified-argument", "insert(const K&, const V&) changed its arguments at ", when());
          } else {
            const K& ck = key;
            const V& cv = value;
            r = c.insert(ck, cv);
          }
#else
          else throw std::logic_error("C12: insert(const K&, const V&) is only exercised by the gated build");
#endif
          VCHECK(r == !existed, cat("return:", C12_OP(s)), "returned ", r, " for a key that ", existed ? "existed" : "was new", " at ", when());
          if (existed) {
            it->size = size;
            it->value = s.value;
            m.refresh(it);
          } else {
            m.l.push_front(Entry{s.key, s.value, size});
          }
          break;
        }
        case EMPLACE:
        case EMPLACE_DEF: {
          size_t size = (s.code == EMPLACE_DEF) ? 1 : size_of_arg(s.arg);
          bool r = (s.code == EMPLACE) ? c.emplace(std::move(key), std::move(value), size) : c.emplace(std::move(key), std::move(value));
          VCHECK(r == !existed, cat("return:", C12_OP(s)), "returned ", r, " for a key that ", existed ? "existed" : "was new", " at ", when());
          // emplace on an existing key changes nothing (value, size and recency stay)
          if (!existed) m.l.push_front(Entry{s.key, s.value, size});
          break;
        }
        case ERASE: {
          bool r = c.erase(key);
          VCHECK(r == existed, "return:erase", "returned ", r, " for a key that ", existed ? "existed" : "did not exist", " at ", when());
          if (existed) {
            if (m.order_changed) st.nontrivial = true;
            m.l.erase(it);
          }
          break;
        }
        case TOUCH:
        case TOUCH_DEF: {
          ssize_t ns = (s.code == TOUCH_DEF) ? -1 : touch_of_arg(s.arg);
          bool r = (s.code == TOUCH_DEF) ? c.touch(key) : c.touch(key, ns);
          VCHECK(r == existed, "return:touch", "returned ", r, " for a key that ", existed ? "existed" : "did not exist", " at ", when());
          if (existed) {
            if (ns >= 0) it->size = static_cast<size_t>(ns);
            m.refresh(it);
          }
          break;
        }
        case CHANGE_SIZE:
        case CS_DEF: {
          bool touch = (s.code == CS_DEF) ? true : (s.flag != 0);
          size_t new_size = size_of_arg(s.arg);
          bool r = (s.code == CS_DEF) ? c.change_size(key, new_size) : c.change_size(key, new_size, touch);
          VCHECK(r == existed, "return:change_size", "returned ", r, " for a key that ", existed ? "existed" : "did not exist", " at ", when());
          if (existed) {
            it->size = new_size;
            if (touch) m.refresh(it);
          }
          break;
        }
        case AT:
        case AT_ASSIGN:
        case AT_CONST: {
          try {
            if (s.code == AT) {
              V& r = c.at(key);
              VCHECK(existed, "lookup:at-absent", "at() returned for an absent key at ", when());
              VCHECK(r == Conv<V>::value(it->value), "lookup:at-value", "at() did not return the last stored value of key ", s.key, " at ", when());
            } else if (s.code == AT_ASSIGN) {
              c.at(key) = value;
              VCHECK(existed, "lookup:at-absent", "at() returned for an absent key at ", when());
              it->value = s.value;
            } else {
#ifdef C12_GATED
              const phosg::LRUMap<K, V>& cc = c;
              const V& r = cc.at(key);
              VCHECK(existed, "lookup:at-absent", "at() const returned for an absent key at ", when());
              VCHECK(r == Conv<V>::value(it->value), "lookup:at-value", "at() const did not return the last stored value of key ", s.key, " at ", when());
#else
              throw std::logic_error("C12: at() const is only exercised by the gated build");
#endif
            }
            m.refresh(it);
          } catch (const std::out_of_range&) {
            VCHECK(!existed, "lookup:at-missing", "at() threw out_of_range for a present key at ", when());
          }
          break;
        }
        case ITEM_SIZE: {
          try {
            size_t r = c.item_size(key);
            VCHECK(existed && r == it->size, "lookup:item_size", "item_size() returned ", r, " at ", when());
          } catch (const std::out_of_range&) {
            VCHECK(!existed, "lookup:item_size-missing", "item_size() threw out_of_range for a present key at ", when());
          }
          break;
        }
        case EVICT: {
          if (m.l.empty()) {
            bool threw = false;
            try {
              c.evict_object();
            } catch (const std::out_of_range&) {
              threw = true;
            }
            VCHECK(threw, "evict-empty", "evict_object() on an empty map did not throw out_of_range at ", when());
          } else {
            auto r = c.evict_object();
            const Entry& lru = m.l.back();
            VCHECK(r.key == Conv<K>::key(lru.key) && r.size == lru.size, "evict-lru", "evict_object() did not return the least recently used entry (model key ", lru.key, " size ", lru.size, ", got size ", r.size, ") at ", when());
            VCHECK(r.value == Conv<V>::value(lru.value), "evict-value", "evict_object() did not return the last stored value of key ", lru.key, " at ", when());
            if (m.order_changed) st.nontrivial = true;
            m.l.pop_back();
          }
          break;
        }
        case INSERT_VSELF:
        case INSERT_VOTHER:
        case INSERT_KSTORED: {
#ifdef C12_GATED
          size_t size = size_of_arg(s.arg);
          // the value argument: a reference to the value stored under the same key / under another key (obtained through at(), which
          // refreshes that entry first), or a fresh local; the key argument: the stored key object or a local
          unsigned src_key = (s.code == INSERT_VSELF) ? s.key : static_cast<unsigned>(s.value % 200);
          const V* src = nullptr;
          uint64_t src_value = s.value;
          if (s.code != INSERT_KSTORED) {
            auto sit = m.find(src_key);
            try {
              src = &c.at(Conv<K>::key(src_key));
              VCHECK(sit != m.l.end(), "lookup:at-absent", "at() returned for an absent key at ", when());
              src_value = sit->value;
              m.refresh(sit);
            } catch (const std::out_of_range&) {
              VCHECK(sit == m.l.end(), "lookup:at-missing", "at() threw out_of_range for a present key at ", when());
            }
          }
          const K* sk = (s.code == INSERT_KSTORED) ? c.stored_key(key) : nullptr;
          const K& ck = sk ? *sk : key;
          const V& cv = src ? *src : value;
          bool r = c.insert(ck, cv, size);
          VCHECK(r == !existed, cat("return:", C12_OP(s)), "returned ", r, " for a key that ", existed ? "existed" : "was new", " at ", when());
          it = m.find(s.key);
          if (existed) {
            it->size = size;
            it->value = src_value;
            m.refresh(it);
          } else {
            m.l.push_front(Entry{s.key, src_value, size});
          }
          break;
#else
          throw std::logic_error("C12: insert(const K&, const V&) with arguments inside the container is only exercised by the gated build");
#endif
        }
        case ERASE_KSTORED: {
          const K* sk = c.stored_key(key);
          bool r = c.erase(sk ? *sk : key);
          VCHECK(r == existed, "return:erase", "returned ", r, " for a key that ", existed ? "existed" : "did not exist", " at ", when());
          if (existed) {
            if (m.order_changed) st.nontrivial = true;
            m.l.erase(it);
          }
          break;
        }
        case TOUCH_KSTORED: {
          const K* sk = c.stored_key(key);
          bool r = c.touch(sk ? *sk : key);
          VCHECK(r == existed, "return:touch", "returned ", r, " for a key that ", existed ? "existed" : "did not exist", " at ", when());
          if (existed) m.refresh(it);
          break;
        }
        case EMPTY:
          VCHECK(c.empty() == m.l.empty(), "empty", "empty() is ", c.empty(), " at ", when());
          break;
        case CLEAR:
          c.clear();
          m.l.clear();
          break;
        case SWAP:
          c.swap(inst[1 - s.inst]);
          std::swap(model[0].l, model[1].l);
          std::swap(model[0].order_changed, model[1].order_changed);
          break;
        default:
          throw std::logic_error(cat("C12: operation ", kCodeNames[s.code], " does not exist on LRUMap"));
      }
      st.max_live = std::max<unsigned>(st.max_live, std::max(model[0].l.size(), model[1].l.size()));
      if (s.arg >= kBigArg) st.big_sizes = true;
      if (i >= st.check_from) check_map_state(inst, model, nkeys, here, st);
    }
    for (int j = 0; j < 2; j++) {
      const char* which = j ? "B" : "A";
      size_t k = 0;
      while (!model[j].l.empty()) {
        auto r = inst[j].evict_object();
        const Entry& lru = model[j].l.back();
        VCHECK(r.key == Conv<K>::key(lru.key) && r.size == lru.size, "drain-order", "final drain of ", which, ": eviction #", k, " is not the model's least recently used entry (model key ", lru.key, " size ", lru.size, ", got size ", r.size, ") after: ", describe_history(ops, n, n));
        VCHECK(r.value == Conv<V>::value(lru.value), "drain-value", "final drain of ", which, ": eviction #", k, " does not carry the last stored value of key ", lru.key, " after: ", describe_history(ops, n, n));
        model[j].l.pop_back();
        k++;
        size_t total;
        bool representable = model[j].total(&total);
        VCHECK((!representable || inst[j].size() == total) && inst[j].count() == model[j].l.size(), "drain-size", "final drain of ", which, ": size()/count() wrong after eviction #", k);
      }
      if (!st.light) {
        bool threw = false;
        try {
          inst[j].evict_object();
        } catch (const std::out_of_range&) {
          threw = true;
        }
        VCHECK(threw, "evict-empty", "evict_object() on the drained map ", which, " did not throw out_of_range");
      }
      inst[j].verify_links(model[j], which, Where{ops, n, n, "final drain"});
    }
  }
  // both containers and both models are destroyed: every block allocated since `heap` must be gone
  VCHECK(!heap.leaked(), "leak", heap.excess(), " heap block(s) allocated during the history are still live after the containers were destroyed and LeakSanitizer reports a leak, after: ", describe_history(ops, n, n));
  VCHECK(Conv<K>::outstanding() == 0, "key-copy-outlives-container", Conv<K>::outstanding(), " shared key object(s) still have an owner besides the key table after the containers were destroyed, after: ", describe_history(ops, n, n));
}

// ------------------------------------------------------------------ large populations (mode 2)

// The hash table under the containers grows through rehashes as entries arrive and keeps its bucket array as they leave; the recency
// list must be the model's order whatever the table does. A bulk history puts N (thousands of) distinct keys into one container and
// then drains it with evict_object(): EVERY eviction (and, on the set, every peek() after it) is compared with the model, size() and
// count() after every operation, the link walk at the phase boundaries and every 2048 operations. The model keeps an index next
// to the list so that a history of 12,000 entries costs tens of milliseconds.
template <typename Probe, typename K, typename V, bool IsMap>
void replay_bulk(uint64_t N, uint64_t seed, uint64_t drain_to, Stats& st) {
  if (N < 1 || N > 40000 || drain_to > N) throw std::logic_error("C12: bulk case outside the domain");
  Conv<K>::prepare();
  alloc_balance::Scope heap;
  {
    Probe c;
    std::list<Entry> l; // front = most recently used
    std::unordered_map<unsigned, std::list<Entry>::iterator> index;
    size_t total = 0;
    uint64_t step = 0;
    unsigned next_key = 0;
    const char* phase = "build-up";
    const char* last = "construction"; // formatted only when a clause fails
    unsigned last_key = 0;
    auto where = [&]() { return cat(phase, " phase, operation #", step, " (", last, " key ", last_key, ") of the bulk history N=", N, " seed=", seed, " drain_to=", drain_to, " with ", l.size(), " live entries"); };
    auto rnd = [&](uint64_t salt) { return mix(mix(seed, step), salt); };
    auto check_counts = [&]() {
      VCHECK(c.size() == total, "bulk:size-sum", "size() is ", c.size(), " but the entries' sizes sum to ", total, " after ", where());
      VCHECK(c.count() == l.size(), "bulk:count", "count() is ", c.count(), " model ", l.size(), " after ", where());
      if constexpr (!IsMap) {
        if (!l.empty()) {
          auto p = c.peek();
          VCHECK(p.first == Conv<K>::key(l.back().key) && p.second == l.back().size, "bulk:peek-lru", "peek() is not the least recently used entry (model key ", l.back().key, " size ", l.back().size, ", got size ", p.second, ") after ", where());
        }
      } else {
        VCHECK(c.empty() == l.empty(), "bulk:empty", "empty() is ", c.empty(), " after ", where());
        if (!l.empty()) {
          size_t sz = c.item_size(Conv<K>::key(l.back().key));
          VCHECK(sz == l.back().size, "bulk:item_size", "item_size of the least recently used key is ", sz, " model ", l.back().size, " after ", where());
        }
      }
      st.max_live = std::max<unsigned>(st.max_live, l.size());
    };
    auto walk = [&]() {
      Model mm;
      mm.l = l;
      std::string w = where();
      c.verify_links(mm, "A", Where{nullptr, 0, 0, w.c_str()});
    };
    auto insert_key = [&](unsigned k, uint64_t h) { // new or existing
      K key = Conv<K>::key(k);
      size_t size = h % 4;
      auto f = index.find(k);
      bool existed = f != index.end();
      bool r, refreshes = true;
      unsigned form = (h >> 8) % 3;
      if constexpr (!IsMap) {
        last = form == 0 ? "insert" : form == 1 ? "emplace" : "insert_default_size";
        last_key = k;
        if (form == 0) r = c.insert(key, size);
        else if (form == 1) r = c.emplace(std::move(key), size);
        else {
          r = c.insert(key);
          size = 0;
        }
      } else {
        V value = Conv<V>::value(step);
        last = form == 0 ? "insert" : form == 1 ? "emplace" : "insert_default_size";
        last_key = k;
        if (form == 0) r = c.insert(std::move(key), std::move(value), size);
        else if (form == 1) {
          r = c.emplace(std::move(key), std::move(value), size);
          refreshes = false; // emplace on an existing key changes nothing
        } else {
          r = c.insert(std::move(key), std::move(value));
          size = 1;
        }
      }
      VCHECK(r == !existed, "bulk:return:insert", "returned ", r, " for a key that ", existed ? "existed" : "was new", " at ", where());
      if (existed) {
        if (refreshes) {
          total = total - f->second->size + size;
          f->second->size = size;
          f->second->value = step;
          l.splice(l.begin(), l, f->second);
        }
      } else {
        l.push_front(Entry{k, step, size});
        index[k] = l.begin();
        total += size;
      }
    };
    auto touch_key = [&](unsigned k) {
      last = "touch";
      last_key = k;
      auto f = index.find(k);
      bool r = c.touch(Conv<K>::key(k));
      VCHECK(r == (f != index.end()), "bulk:return:touch", "returned ", r, " at ", where());
      if (f != index.end()) l.splice(l.begin(), l, f->second);
    };
    auto erase_key = [&](unsigned k) {
      last = "erase";
      last_key = k;
      auto f = index.find(k);
      bool r = c.erase(Conv<K>::key(k));
      VCHECK(r == (f != index.end()), "bulk:return:erase", "returned ", r, " at ", where());
      if (f != index.end()) {
        total -= f->second->size;
        l.erase(f->second);
        index.erase(f);
      }
    };
    auto evict = [&]() {
      last = "evict_object, model's least recently used";
      const Entry lru = l.back();
      last_key = lru.key;
      auto r = c.evict_object();
      if constexpr (!IsMap) {
        VCHECK(r.first == Conv<K>::key(lru.key) && r.second == lru.size, "bulk:evict-lru", "evict_object() did not return the least recently used entry (model key ", lru.key, " size ", lru.size, ", got size ", r.second, ") at ", where());
      } else {
        VCHECK(r.key == Conv<K>::key(lru.key) && r.size == lru.size, "bulk:evict-lru", "evict_object() did not return the least recently used entry (model key ", lru.key, " size ", lru.size, ", got size ", r.size, ") at ", where());
        VCHECK(r.value == Conv<V>::value(lru.value), "bulk:evict-value", "evict_object() did not return the last stored value of key ", lru.key, " at ", where());
      }
      total -= lru.size;
      index.erase(lru.key);
      l.pop_back();
    };
    auto side_operation = [&]() {
      uint64_t h = rnd(0x51DE);
      unsigned k = static_cast<unsigned>((h >> 16) % std::max(next_key, 1u));
      switch (h % 8) {
        case 0:
        case 1:
        case 2: touch_key(k); break;
        case 3:
        case 4: insert_key(k, h >> 24); break; // probably an existing key: a re-insert
        case 5: insert_key(next_key++, h >> 24); break;
        default: erase_key(k); break;
      }
    };
    // build-up: N new keys; after every 8th a touch / re-insert, after every 32nd an erase of an earlier key
    for (uint64_t i = 0; i < N; i++) {
      step++;
      insert_key(next_key++, rnd(1));
      check_counts();
      if (rnd(2) % 8 == 0) {
        step++;
        unsigned k = static_cast<unsigned>(rnd(3) % next_key);
        if (rnd(4) % 4 == 0) erase_key(k);
        else if (rnd(4) % 4 == 1) insert_key(k, rnd(5));
        else touch_key(k);
        check_counts();
      }
      if (step % 2048 == 0) walk();
    }
    walk();
    // drain by eviction, every eviction compared; every 16th step something else happens too
    phase = "drain";
    while (l.size() > drain_to) {
      step++;
      evict();
      check_counts();
      if (step % 16 == 0) {
        step++;
        side_operation();
        check_counts();
      }
      if (step % 2048 == 0) walk();
    }
    walk();
    // tail: the container is used on after the drain
    phase = "tail";
    for (unsigned i = 0; i < 24; i++) {
      step++;
      side_operation();
      check_counts();
    }
    walk();
    phase = "final drain";
    while (!l.empty()) {
      step++;
      evict();
      check_counts();
    }
    walk();
    bool threw = false;
    try {
      c.evict_object();
    } catch (const std::out_of_range&) {
      threw = true;
    }
    VCHECK(threw, "evict-empty", "evict_object() on the drained container did not throw out_of_range after a bulk history");
  }
  VCHECK(!heap.leaked(), "leak", heap.excess(), " heap block(s) allocated during the bulk history N=", N, " seed=", seed, " are still live after the container was destroyed and LeakSanitizer reports a leak");
  st.nontrivial = true; // touches and re-inserts reorder thousands of entries before the evictions
}
typedef void (*BulkFn)(uint64_t, uint64_t, uint64_t, Stats&);

// ------------------------------------------------------------------ exhaustive alphabets

// position-dependent value: the operation at history position p stores value p+1, so "last stored value" is observable
struct Alphabet {
  const char* name;
  bool is_map;
  std::vector<uint64_t> shapes; // packed with value 0
};

inline std::vector<Alphabet> make_alphabets(bool gated) {
  std::vector<Alphabet> a;
  auto keyed = [](std::vector<uint64_t>& v, unsigned code, unsigned arg, unsigned flag = 0) {
    for (unsigned k = 0; k < 3; k++) v.push_back(pack(code, 0, flag, k, arg, 0));
  };
  {
    Alphabet s{"set-core", false, {}};
    keyed(s.shapes, INSERT, 2);
    keyed(s.shapes, EMPLACE, 1);
    keyed(s.shapes, ERASE, 0);
    keyed(s.shapes, TOUCH, 0);
    s.shapes.push_back(pack(EVICT, 0, 0, 0, 0, 0));
    s.shapes.push_back(pack(SWAP, 0, 0, 0, 0, 0));
    a.push_back(s); // 14 shapes
    Alphabet x{"set-extended", false, s.shapes};
    keyed(x.shapes, INSERT, 0);
    keyed(x.shapes, TOUCH, 2); // touch(k, new_size = 1)
    keyed(x.shapes, CHANGE_SIZE, 2);
    x.shapes.push_back(pack(CLEAR, 0, 0, 0, 0, 0));
    a.push_back(x); // 24 shapes
  }
  {
    Alphabet s{"map-core", true, {}};
    unsigned ins = gated ? INSERT_CREF : INSERT;
    unsigned at = gated ? AT_CONST : AT;
    keyed(s.shapes, ins, 2);
    keyed(s.shapes, EMPLACE, 1);
    keyed(s.shapes, ERASE, 0);
    keyed(s.shapes, at, 0);
    keyed(s.shapes, CHANGE_SIZE, 0, 0); // change_size(k, 0, touch=false)
    s.shapes.push_back(pack(EVICT, 0, 0, 0, 0, 0));
    s.shapes.push_back(pack(SWAP, 0, 0, 0, 0, 0));
    a.push_back(s); // 17 shapes
    Alphabet x{"map-extended", true, s.shapes};
    keyed(x.shapes, ins, 0);
    keyed(x.shapes, TOUCH, 0);
    keyed(x.shapes, TOUCH, 2);
    keyed(x.shapes, CHANGE_SIZE, 2, 1); // change_size(k, 2, touch=true)
    x.shapes.push_back(pack(CLEAR, 0, 0, 0, 0, 0));
    if (gated) keyed(x.shapes, INSERT, 1);
    a.push_back(x); // 30 (33 gated) shapes
  }
  // sizes at the corners of size_t / ssize_t on new and on existing keys (indices 4 = set, 5 = map): 2^63 (arg 80), 2^63+1 (81),
  // SIZE_MAX (86); touch with SSIZE_MAX (arg 80 of the touch table); small sizes to come back from
  {
    Alphabet s{"set-extreme-sizes", false, {}};
    keyed(s.shapes, INSERT, 1);
    keyed(s.shapes, INSERT, kBigArg + 6);
    keyed(s.shapes, EMPLACE, kBigArg + 0);
    keyed(s.shapes, EMPLACE, 2);
    keyed(s.shapes, TOUCH, kBigArg + 0);
    keyed(s.shapes, CHANGE_SIZE, kBigArg + 1);
    s.shapes.push_back(pack(EVICT, 0, 0, 0, 0, 0));
    s.shapes.push_back(pack(CLEAR, 0, 0, 0, 0, 0));
    a.push_back(s); // 20 shapes
    Alphabet m{"map-extreme-sizes", true, {}};
    keyed(m.shapes, gated ? INSERT_CREF : INSERT, 1);
    keyed(m.shapes, INSERT, kBigArg + 6);
    keyed(m.shapes, EMPLACE, kBigArg + 0);
    keyed(m.shapes, TOUCH, kBigArg + 0);
    keyed(m.shapes, CHANGE_SIZE, kBigArg + 1, 0);
    keyed(m.shapes, CHANGE_SIZE, 2, 1);
    m.shapes.push_back(pack(EVICT, 0, 0, 0, 0, 0));
    m.shapes.push_back(pack(CLEAR, 0, 0, 0, 0, 0));
    a.push_back(m); // 20 shapes
  }
  return a;
}

inline uint64_t with_value(uint64_t shape, size_t position) { return shape + 10000000ULL * (position + 1); }

inline uint64_t history_hash(const uint64_t* ops, size_t n, uint64_t salt) {
  uint64_t h = salt;
  for (size_t i = 0; i < n; i++) h = mix(h, ops[i]);
  return h;
}

// ------------------------------------------------------------------ one container variant = one subcheck

typedef void (*ReplayFn)(const uint64_t*, size_t, Stats&);

struct Variant {
  std::string name;
  bool is_map;
  ReplayFn replay;
  unsigned core_alpha, ext_alpha; // indices into make_alphabets()
  BulkFn bulk = nullptr; // large-population histories (mode 2); key types whose key number k may be any unsigned
};

inline bool leak_check() { return __lsan_do_recoverable_leak_check() != 0; }

// runs every completion of a block; calls on_fail(full history) for each failing history; returns histories run.
// prune: skip histories with an interior no-op (see Stats::prune_noops); *pruned receives their number.
template <typename OnFail>
uint64_t run_block(const Variant& v, const Alphabet& al, const std::vector<uint64_t>& prefix, unsigned free_ops, bool prune, uint64_t salt, uint64_t* pruned, OnFail&& on_fail) {
  std::vector<uint64_t> ops(prefix);
  size_t P = prefix.size();
  ops.resize(P + free_ops);
  std::vector<size_t> idx(free_ops, 0);
  uint64_t count = 0;
  size_t A = al.shapes.size();
  auto power = [A](unsigned k) {
    uint64_t r = 1;
    while (k--) r *= A;
    return r;
  };
  while (true) {
    for (unsigned f = 0; f < free_ops; f++) ops[P + f] = with_value(al.shapes[idx[f]], P + f);
    Stats st;
    st.light = true;
    st.check_from = ops.size() - 1;
    st.prune_noops = prune;
    try {
      v.replay(ops.data(), ops.size(), st);
      if (st.pruned_at == SIZE_MAX) {
        count++;
        if (st.nontrivial) ctx().nontrivial(history_hash(ops.data(), ops.size(), salt));
      }
    } catch (const Fail&) {
      count++;
      if (!on_fail(ops)) return count;
    }
    unsigned f = free_ops;
    if (st.pruned_at != SIZE_MAX) {
      if (st.pruned_at < P) {
        if (pruned) *pruned += power(free_ops); // the prefix itself holds the no-op: the whole block is equivalent to shorter histories
        return count;
      }
      // every history sharing ops[0..pruned_at] is skipped: advance the odometer at that digit
      f = static_cast<unsigned>(st.pruned_at - P) + 1;
      if (pruned) *pruned += power(free_ops - f);
      for (unsigned g = f; g < free_ops; g++) idx[g] = 0;
    }
    bool wrapped = true;
    while (f > 0) {
      f--;
      if (++idx[f] < A) {
        wrapped = false;
        break;
      }
      idx[f] = 0;
    }
    if (wrapped) return count;
  }
}

inline std::function<void(const Case&)> make_run(const Variant& v, bool gated) {
  return [v, gated](const Case& c) {
    uint64_t mode = c.u(0);
    if (mode == 0) {
      Stats st;
      v.replay(c.n.data() + 1, c.n.size() - 1, st);
      if (st.nontrivial) ctx().nontrivial_case();
      ctx().cls(cat(v.name, ":ops<=", c.n.size() <= 9 ? "8" : c.n.size() <= 41 ? "40" : c.n.size() <= 151 ? "150" : "400"));
      ctx().cls(cat(v.name, ":max-live-keys=", st.max_live >= 60 ? std::string("60+") : st.max_live >= 6 ? std::string("6..59") : cat(st.max_live)));
      if (st.big_sizes) ctx().cls(cat(v.name, ":extreme-sizes"));
      if (st.sum_overflow_states) ctx().cls(cat(v.name, ":states-with-unrepresentable-sum(size()-not-compared)"), st.sum_overflow_states);
    } else if (mode == 1) {
      auto alphabets = make_alphabets(gated);
      const Alphabet& al = alphabets.at(c.u(1));
      if (al.is_map != v.is_map) throw std::logic_error("C12: alphabet does not match the container");
      unsigned free_ops = c.u(2) % 100;
      bool prune = c.u(2) >= 100;
      std::vector<uint64_t> prefix(c.n.begin() + 3, c.n.end());
      run_block(v, al, prefix, free_ops, prune, hash_str(v.name), nullptr, [&](const std::vector<uint64_t>& ops) {
        // re-run to obtain the failure (the block is the replay unit; the message names the history)
        Stats st;
        st.light = true;
        st.check_from = ops.size() - 1;
        v.replay(ops.data(), ops.size(), st);
        return false;
      });
    } else if (mode == 2) {
      if (!v.bulk || c.n.size() != 4) throw std::logic_error("C12: bulk histories are not available for this container type");
      Stats st;
      v.bulk(c.u(1), c.u(2), c.u(3), st);
      ctx().nontrivial_case();
      ctx().cls(cat(v.name, ":bulk:max-live-entries", st.max_live < 2358 ? "<2358" : st.max_live <= 5087 ? "=2358..5087" : st.max_live <= 10273 ? "=5088..10273" : ">10273"));
      ctx().cls(cat(v.name, ":bulk:drain-to", c.u(3) == 0 ? "=0" : c.u(3) * 16 < c.u(1) ? "<N/16" : ">=N/16"));
    } else {
      throw std::logic_error("C12: unknown case mode");
    }
  };
}

// the bulk cases every run contains (quick: three populations; thorough: six)
inline void enumerate_bulk(Enum& e, const Variant& v, uint64_t& block_index) {
  if (!v.bulk) return;
  static const uint64_t plan[6][3] = {{2600, 1, 40}, {5400, 2, 3}, {11000, 3, 500}, {2358, 4, 0}, {7000, 5, 400}, {16000, 6, 900}};
  for (unsigned k = 0; k < (e.thorough() ? 6u : 3u) && !e.stop; k++) {
    if (!e.mine(block_index++)) continue;
    e.exec(Case(v.name).N(2).N(plan[k][0]).N(plan[k][1]).N(plan[k][2]));
  }
}

// exhaustive: every history of length 1..L over the alphabet (both instances observed after every step, drained at the end)
inline void enumerate_alphabet(Enum& e, const Variant& v, bool gated, unsigned alpha_id, unsigned L, bool prune, uint64_t& block_index) {
  auto alphabets = make_alphabets(gated);
  const Alphabet& al = alphabets.at(alpha_id);
  size_t A = al.shapes.size();
  uint64_t salt = hash_str(v.name);
  for (unsigned len = 1; len <= L && !e.stop; len++) {
    unsigned free_ops = std::min<unsigned>(len, 3);
    unsigned P = len - free_ops;
    std::vector<size_t> idx(P, 0);
    std::vector<uint64_t> prefix(P);
    bool done = false;
    while (!done && !e.stop) {
      if (e.mine(block_index++)) {
        for (unsigned p = 0; p < P; p++) prefix[p] = with_value(al.shapes[idx[p]], p);
        Case blk(v.name);
        blk.N(1).N(alpha_id).N(free_ops + (prune ? 100 : 0));
        for (uint64_t w : prefix) blk.N(w);
        e.journal_block(blk);
        uint64_t pruned = 0;
        uint64_t cnt = run_block(v, al, prefix, free_ops, prune, salt, &pruned, [&](const std::vector<uint64_t>& ops) {
          Case single(v.name);
          single.N(0);
          for (uint64_t w : ops) single.N(w);
          e.exec_light(single);
          e.x.count(static_cast<uint64_t>(-1)); // exec_light counted this history a second time
          return !e.stop;
        });
        e.x.count(cnt);
        if (pruned) e.x.exclude("exhaustive history with a throwing no-op (absent-key touch/change_size/lookup, evict on empty) before its last operation: state-equivalent to the shorter history, the no-op is compared where it is last", pruned);
      }
      // next prefix
      unsigned p = P;
      done = true;
      while (p > 0) {
        p--;
        if (++idx[p] < A) {
          done = false;
          break;
        }
        idx[p] = 0;
      }
    }
  }
}

// ------------------------------------------------------------------ random histories

inline Case gen_history(const Variant& v, bool gated) {
  // one history in 600 is a large-population history (mode 2): 2,400..12,000 keys, drained to a small rest
  if (v.bulk && vg::chance(1, 600)) {
    uint64_t N = vg::chance(3, 4) ? 2400 + vg::below(3000) : 2400 + vg::below(9601);
    uint64_t rest = vg::pick<uint64_t>({0, 1, 2, 17, N / 64, N / 32, N / 20, N / 10, N / 3});
    return Case(v.name).N(2).N(N).N(vg::below(1000000)).N(rest);
  }
  Case c(v.name);
  c.N(0);
  // history length: scaled by rapidcheck's size so that shrinking shortens it; a fifth of the cases are long
  uint64_t maxlen = vg::chance(1, 5) ? 400 : (vg::chance(1, 2) ? 12 : 60);
  uint64_t len = 1 + vg::scaled(maxlen - 1);
  unsigned nkeys = vg::chance(1, 12) ? 40 : 1 + vg::below(8);
  bool two = vg::chance(1, 2); // operations on the second instance too
  // a quarter of the histories draw a fifth of their sizes from the corners of size_t / ssize_t
  bool extreme = vg::chance(1, 4);
  static const unsigned sizes[4] = {0, 1, 2, 7};
  uint64_t pos = 0;
  // one history in 40 runs over a large key universe (60..200 keys): a build-up phase puts 60..min(nkeys,150) distinct keys into
  // ONE instance (the hash table grows through several rehashes; nothing in this phase removes an entry), then the usual
  // mix - with clear() twice as likely - continues on that state over the whole universe
  if (vg::chance(1, 40)) {
    nkeys = 60 + vg::below(141);
    unsigned target = 60 + vg::below(std::min<unsigned>(nkeys, 150) - 59);
    unsigned start = vg::below(nkeys), step = vg::pick<unsigned>({1, 211, 223}); // primes > 200: i*step mod nkeys is a permutation
    unsigned inst = two ? vg::below(2) : 0;
    for (unsigned fresh = 0; fresh < target;) {
      unsigned code, key, arg = sizes[vg::below(4)], flag = 0;
      if (extreme && vg::chance(1, 5)) arg = kBigArg + vg::below(kNumBigSizes);
      unsigned r = vg::below(100);
      if (r < 85) {
        key = (start + fresh * step) % nkeys;
        fresh++;
        code = vg::pick<unsigned>({INSERT, INSERT, EMPLACE, v.is_map ? INSERT_DEF : EMPLACE_DEF});
        if (v.is_map && gated && code == INSERT && vg::coin()) code = INSERT_CREF;
      } else {
        // an operation on a key that is probably present: re-insert, touch, change_size, lookup
        key = (start + vg::below(std::max(fresh, 1u)) * step) % nkeys;
        code = vg::pick<unsigned>({INSERT, EMPLACE, TOUCH_DEF, CHANGE_SIZE, v.is_map ? AT : PEEK});
        if (code == CHANGE_SIZE && v.is_map) flag = vg::below(2);
      }
      c.N(pack(code, inst, flag, key, arg, ++pos));
    }
    len = 1 + vg::scaled(150);
  }
  bool wide = nkeys >= 60;
  for (uint64_t i = 0; i < len; i++) {
    unsigned inst = two ? vg::below(2) : 0;
    unsigned key = vg::below(nkeys);
    unsigned size = sizes[vg::below(4)];
    if (extreme && vg::chance(1, 5)) size = kBigArg + vg::below(kNumBigSizes);
    uint64_t value = ++pos;
    unsigned code, arg = size, flag = 0;
    unsigned r = vg::below(100);
    if (wide && vg::chance(1, 40)) r = 93; // CLEAR on either container
    if (vg::chance(1, 14)) {
      // an argument that refers into the container itself
      if (!v.is_map) code = vg::pick<unsigned>({INSERT_KSTORED, INSERT_KSTORED, ERASE_KSTORED, TOUCH_KSTORED});
      else if (gated) code = vg::pick<unsigned>({INSERT_VSELF, INSERT_VSELF, INSERT_VOTHER, INSERT_VOTHER, INSERT_KSTORED, ERASE_KSTORED, TOUCH_KSTORED});
      else code = vg::pick<unsigned>({ERASE_KSTORED, TOUCH_KSTORED});
      if (code == INSERT_VOTHER) value = vg::below(nkeys);
    } else if (!v.is_map) {
      if (r < 22) code = INSERT;
      else if (r < 32) code = EMPLACE;
      else if (r < 35) code = INSERT_DEF;
      else if (r < 38) code = EMPLACE_DEF;
      else if (r < 52) code = ERASE;
      else if (r < 66) { code = TOUCH; arg = (extreme && vg::chance(1, 5)) ? kBigArg + vg::below(kNumBigTouch) : vg::pick<unsigned>({0, 0, 1, 2, 3, 8}); }
      else if (r < 70) code = TOUCH_DEF;
      else if (r < 78) code = CHANGE_SIZE;
      else if (r < 90) code = EVICT;
      else if (r < 93) code = PEEK;
      else if (r < 95) code = CLEAR;
      else code = SWAP;
    } else {
      if (r < 14) code = INSERT;
      else if (r < 20) code = gated ? INSERT_CREF : INSERT;
      else if (r < 28) code = EMPLACE;
      else if (r < 30) code = gated ? INSERT_CREF_DEF : INSERT_DEF;
      else if (r < 32) code = EMPLACE_DEF;
      else if (r < 44) code = ERASE;
      else if (r < 52) { code = TOUCH; arg = (extreme && vg::chance(1, 5)) ? kBigArg + vg::below(kNumBigTouch) : vg::pick<unsigned>({0, 0, 1, 2, 3, 8}); }
      else if (r < 54) code = TOUCH_DEF;
      else if (r < 61) { code = CHANGE_SIZE; flag = vg::below(2); }
      else if (r < 63) code = CS_DEF;
      else if (r < 70) code = AT;
      else if (r < 75) code = gated ? AT_CONST : AT;
      else if (r < 79) code = AT_ASSIGN;
      else if (r < 81) code = ITEM_SIZE;
      else if (r < 91) code = EVICT;
      else if (r < 92) code = EMPTY;
      else if (r < 94) code = CLEAR;
      else code = SWAP;
    }
    c.N(pack(code, inst, flag, key, arg, value));
  }
  return c;
}

} // namespace c12
