// Per-case leak attribution that is cheap enough for millions of cases.
//
// __lsan_do_recoverable_leak_check() stops the world and walks every chunk of the allocator (20-400 ms in a long
// running shard), so it cannot run after every history. Instead the sanitizer allocator's malloc/free hooks keep
// a count of live heap blocks; a scope around the lifetime of the containers under test must end with the count
// it started with. Only when the count is off is LeakSanitizer asked (it is the authority: blocks that are still
// reachable - lazily initialised library caches - are not leaks).
#pragma once

#include <stdint.h>

#if defined(__has_feature)
#if __has_feature(address_sanitizer)
#define ALLOC_BALANCE_ASAN 1
#endif
#endif

#ifdef ALLOC_BALANCE_ASAN
#include <sanitizer/allocator_interface.h>
#include <sanitizer/lsan_interface.h>
#endif

namespace alloc_balance {

inline volatile int64_t& live_blocks() {
  static volatile int64_t n = 0;
  return n;
}
inline void on_malloc(const volatile void*, size_t) { live_blocks() = live_blocks() + 1; }
inline void on_free(const volatile void* p) {
  if (p) live_blocks() = live_blocks() - 1;
}
inline bool install() {
#ifdef ALLOC_BALANCE_ASAN
  static int installed = __sanitizer_install_malloc_and_free_hooks(on_malloc, on_free);
  return installed > 0;
#else
  return false; // a build without the sanitizer allocator (throughput flavor): the scope never reports
#endif
}

inline uint64_t& lsan_passes() { // how often the count was off and LeakSanitizer had to decide (diagnostic)
  static uint64_t n = 0;
  return n;
}

struct Scope {
  int64_t start;
  Scope() {
    install();
    start = live_blocks();
  }
  // true when blocks allocated inside the scope are still live AND LeakSanitizer confirms that some are unreachable
  bool leaked() const {
    if (live_blocks() == start) return false;
    lsan_passes()++;
#ifdef ALLOC_BALANCE_ASAN
    return __lsan_do_recoverable_leak_check() != 0;
#else
    return false;
#endif
  }
  int64_t excess() const { return live_blocks() - start; }
};

} // namespace alloc_balance
