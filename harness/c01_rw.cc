// C01 - typed binary writer/reader round-trip with exact big/little-endian byte layout.
//
// Subchecks
//   seq    a sequence of typed appends / positional writes / blocks / C strings / lines through
//          StringWriter and BufferWriter, compared byte for byte with an independent encoder, then
//          read back through StringReader (sequential get_*, peeks, a permutation of pget_*) and
//          compared with an independent decoder and with the values written.
//   g2448  the read-only 24/48-bit accessors (u/s, b/l, get/pget) over byte buffers at every offset.
//   bits   BitWriter (write / truncate / reset) against a bit-list model, BitReader read/pread/skip/go.
#include "c01/codec.hh"

// ---------------------------------------------------------------- seq

// Case layout: n[0] = read-order seed, n[1] = flags (bits 0-1: reader constructor), then triples
// [kind, value, aux]:
//   kind < 0x80 : scalar, bits 0-3 type, bits 4-5 form, bit 6 positional (aux = absolute offset)
//   0x100 block   aux = blob index, value bit0: write(const string&) instead of write(ptr,size)
//   0x101 cstr    aux = blob index (no NUL inside): write(text) + put_u8(0), read with get_cstr
//   0x102 line    aux = blob index (no '\n' inside), value bit0: terminator "\r\n" instead of "\n"
//   0x103 extend_by(value, fill = aux)
//   0x104 extend_to(size() + value, fill = aux)
enum : uint64_t { K_BLOCK = 0x100, K_CSTR = 0x101, K_LINE = 0x102, K_EXTBY = 0x103, K_EXTTO = 0x104 };
enum { FK_SCALAR, FK_BLOCK, FK_CSTR, FK_LINE, FK_RAW };

struct Field {
  int kind;
  size_t off, len;
  unsigned type = 0, form = 0;
  uint64_t bits = 0; // scalar: value handed to the writer
  std::string text; // block / cstr / line: content handed to the writer
  bool crlf = false;
  bool clobbered = false;
  bool in_layout = true; // part of the sequential read plan
  bool positional = false;
};

static std::string bytes_of(const std::vector<uint8_t>& m, size_t off, size_t len) {
  return std::string(reinterpret_cast<const char*>(m.data()) + off, len);
}

static void run_seq(const Case& c) {
  if (c.n.size() < 2 || (c.n.size() - 2) % 3 != 0) throw std::logic_error("seq: malformed case");
  uint64_t order_seed = c.u(0), flags = c.u(1);
  size_t nops = (c.n.size() - 2) / 3;

  std::vector<uint8_t> m; // model of the StringWriter buffer
  std::vector<Field> fields;
  StringWriter sw;
  std::set<uint64_t> kinds_used;
  bool has_explicit_multibyte = false;

  auto clobber = [&](size_t off, size_t len) {
    for (auto& f : fields) {
      if (f.off < off + len && off < f.off + f.len) f.clobbered = true;
    }
  };

  for (size_t k = 0; k < nops; k++) {
    uint64_t kind = c.u(2 + 3 * k), value = c.u(3 + 3 * k), aux = c.u(4 + 3 * k);
    kinds_used.insert(kind);
    if (kind < 0x80) {
      unsigned type = kind & 15, form = (kind >> 4) & 3;
      bool positional = (kind >> 6) & 1;
      if (!valid_scalar(type, form)) throw std::logic_error("seq: bad scalar kind");
      unsigned w = kWidth[type];
      if (w > 1 && form != F_NATIVE) has_explicit_multibyte = true;
      uint8_t enc[8];
      ref_encode(enc, w, form_is_big(form), value & width_mask(w));
      Field f{FK_SCALAR, 0, w};
      f.type = type;
      f.form = form;
      f.bits = value;
      if (!positional) {
        f.off = m.size();
        m.insert(m.end(), enc, enc + w);
        do_put(sw, type, form, value);
        ctx().cls(cat("op:put_", kFormName[form][0] ? kFormName[form] : "native"));
      } else {
        size_t off = aux, S = m.size();
        f.positional = true;
        if (off > S + 4096) throw std::logic_error("seq: positional offset outside the generated domain");
        clobber(off, w);
        if (off + w > S) m.resize(off + w, 0);
        memcpy(m.data() + off, enc, w);
        do_pput(sw, off, type, form, value);
        f.off = off;
        if (off >= S) {
          if (off > S) {
            Field gap{FK_RAW, S, off - S};
            fields.push_back(gap);
          }
          ctx().cls("op:pput-past-end");
        } else if (off + w > S) {
          Field tail{FK_RAW, S, off + w - S};
          f.in_layout = false;
          fields.push_back(f);
          fields.push_back(tail);
          ctx().cls("op:pput-straddling-end");
          VCHECK(sw.size() == m.size(), "size-after-op", "StringWriter::size() is ", sw.size(), " after op #", k, ", model has ", m.size());
          continue;
        } else {
          f.in_layout = false;
          ctx().cls("op:pput-inside");
        }
      }
      fields.push_back(f);
    } else if (kind == K_BLOCK || kind == K_CSTR || kind == K_LINE) {
      const std::string& text = c.str(aux);
      Field f{kind == K_BLOCK ? FK_BLOCK : kind == K_CSTR ? FK_CSTR : FK_LINE, m.size(), text.size()};
      f.text = text;
      if (kind == K_BLOCK) {
        if (value & 1) sw.write(text);
        else sw.write(text.data(), text.size());
        m.insert(m.end(), text.begin(), text.end());
        ctx().cls("op:block");
      } else if (kind == K_CSTR) {
        if (text.find('\0') != std::string::npos) throw std::logic_error("seq: NUL inside a C string");
        sw.write(text);
        sw.put_u8(0);
        m.insert(m.end(), text.begin(), text.end());
        m.push_back(0);
        f.len += 1;
        ctx().cls("op:cstr");
      } else {
        if (text.find('\n') != std::string::npos) throw std::logic_error("seq: newline inside a line");
        f.crlf = value & 1;
        std::string full = text + (f.crlf ? "\r\n" : "\n");
        sw.write(full);
        m.insert(m.end(), full.begin(), full.end());
        f.len = full.size();
        ctx().cls("op:line");
      }
      fields.push_back(f);
    } else if (kind == K_EXTBY || kind == K_EXTTO) {
      if (value > 4096) throw std::logic_error("seq: extension outside the generated domain");
      Field f{FK_RAW, m.size(), static_cast<size_t>(value)};
      if (kind == K_EXTBY) sw.extend_by(value, static_cast<char>(aux));
      else sw.extend_to(m.size() + value, static_cast<char>(aux));
      m.insert(m.end(), value, static_cast<uint8_t>(aux));
      fields.push_back(f);
      ctx().cls("op:extend");
    } else {
      throw std::logic_error("seq: unknown op kind");
    }
    VCHECK(sw.size() == m.size(), "size-after-op", "StringWriter::size() is ", sw.size(), " after op #", k, ", model has ", m.size());
  }

  // (1) exact byte layout
  {
    const std::string& out = sw.str();
    VCHECK(out.size() == m.size(), "layout-size", "str().size() is ", out.size(), ", independent encoder produced ", m.size());
    for (size_t i = 0; i < m.size(); i++) {
      if (static_cast<uint8_t>(out[i]) != m[i]) {
        // name the (latest) field that owns the byte
        std::string owner = "?";
        for (const auto& f : fields) {
          if (i < f.off || i >= f.off + f.len) continue;
          owner = f.kind == FK_SCALAR ? cat(f.positional ? "pput_" : "put_", scalar_name(f.type, f.form)) : f.kind == FK_RAW ? "fill" : "text";
        }
        VFAIL(cat("layout:", owner), "byte ", i, " of str() is ", (unsigned)static_cast<uint8_t>(out[i]), ", independent encoder has ", (unsigned)m[i], "; str()=", hex(out), " model=", hex(bytes_of(m, 0, m.size())));
      }
    }
  }

  // (1b) BufferWriter: appends go to its own cursor, positional writes never move it; buffer of the model's size
  {
    size_t N = m.size();
    std::vector<uint8_t> bm(N, 0);
    std::unique_ptr<uint8_t[]> raw(new uint8_t[N]);
    memset(raw.get(), 0, N);
    BufferWriter bw(raw.get(), N);
    size_t cur = 0;
    for (size_t k = 0; k < nops; k++) {
      uint64_t kind = c.u(2 + 3 * k), value = c.u(3 + 3 * k), aux = c.u(4 + 3 * k);
      if (kind < 0x80) {
        unsigned type = kind & 15, form = (kind >> 4) & 3, w = kWidth[type];
        uint8_t enc[8];
        ref_encode(enc, w, form_is_big(form), value & width_mask(w));
        if ((kind >> 6) & 1) {
          memcpy(bm.data() + aux, enc, w); // aux + w <= N by construction of N
          do_pput(bw, aux, type, form, value);
        } else {
          memcpy(bm.data() + cur, enc, w);
          cur += w;
          do_put(bw, type, form, value);
        }
      } else if (kind == K_BLOCK || kind == K_CSTR || kind == K_LINE) {
        std::string full = c.str(aux);
        if (kind == K_CSTR) full.push_back('\0');
        if (kind == K_LINE) full += (value & 1) ? "\r\n" : "\n";
        memcpy(bm.data() + cur, full.data(), full.size());
        if (value & 2) bw.write(full.data(), full.size());
        else bw.write(full);
        cur += full.size();
      }
      // extend_* has no BufferWriter counterpart
    }
    for (size_t i = 0; i < N; i++) {
      VCHECK(raw[i] == bm[i], "bufferwriter-layout", "byte ", i, " written through BufferWriter is ", (unsigned)raw[i], ", independent encoder has ", (unsigned)bm[i]);
    }
  }

  // (2)(3) read back
  std::string data = sw.str();
  std::shared_ptr<std::string> shared;
  std::unique_ptr<StringReader> rp;
  switch (flags & 3) {
    case 0: rp.reset(new StringReader(data)); break;
    case 1: rp.reset(new StringReader(data.data(), data.size())); break;
    case 2:
      shared = std::make_shared<std::string>(data);
      rp.reset(new StringReader(shared));
      break;
    default: rp.reset(new StringReader(data, 0)); break;
  }
  StringReader& r = *rp;
  VCHECK(r.size() == m.size() && r.where() == 0 && r.remaining() == m.size(), "reader-init", "fresh reader: size ", r.size(), " where ", r.where());
  VCHECK(r.all() == data, "reader-all", "all() differs from the data");

  uint64_t sel_state = order_seed ^ 0xC01;
  for (const auto& f : fields) {
    if (!f.in_layout) continue;
    uint64_t sel = splitmix(sel_state);
    VCHECK(r.where() == f.off, "cursor", "cursor is ", r.where(), " before the field at ", f.off);
    VCHECK(r.eof() == false || f.len == 0, "eof-early", "eof() before the end");
    switch (f.kind) {
      case FK_SCALAR: {
        bool big = form_is_big(f.form);
        std::string nm = reader_name(f.type, big);
        uint64_t expect = ref_decode(m.data() + f.off, f.len, big, kSigned[f.type]);
        if (sel & 1) {
          uint64_t peeked = call_get(r, f.type, big, false);
          VCHECK(r.where() == f.off, cat("peek-advanced:get_", nm), "get_", nm, "(false) moved the cursor to ", r.where());
          VCHECK(peeked == expect, cat("decode:get_", nm), "get_", nm, "(false) at ", f.off, " returned ", peeked, ", independent decoder ", expect);
        }
        if (f.len > 1 && (sel & 2)) {
          // the other byte order at the same place
          uint64_t other = call_get(r, f.type, !big, false);
          uint64_t eo = ref_decode(m.data() + f.off, f.len, !big, kSigned[f.type]);
          VCHECK(other == eo, cat("decode:get_", reader_name(f.type, !big)), "get_", reader_name(f.type, !big), "(false) at ", f.off, " returned ", other, ", independent decoder ", eo);
        }
        uint64_t got = call_get(r, f.type, big, true);
        VCHECK(got == expect, cat("decode:get_", nm), "get_", nm, " at ", f.off, " returned ", got, ", independent decoder ", expect);
        if (!f.clobbered) {
          VCHECK(got == written_ext(f.type, f.bits), cat("roundtrip:", scalar_name(f.type, f.form)), "put_", scalar_name(f.type, f.form), "(", written_ext(f.type, f.bits), ") read back with get_", nm, " as ", got);
        }
        VCHECK(r.where() == f.off + f.len, cat("advance:get_", nm), "get_", nm, " moved the cursor from ", f.off, " to ", r.where());
        break;
      }
      case FK_CSTR:
      case FK_LINE:
        if (!f.clobbered) {
          if (f.kind == FK_CSTR) {
            if (sel & 1) {
              std::string p = r.get_cstr(false);
              VCHECK(p == f.text && r.where() == f.off, "cstr-peek", "get_cstr(false) returned ", hex(p), " cursor ", r.where());
            }
            std::string s = r.get_cstr();
            VCHECK(s == f.text, "roundtrip:cstr", "get_cstr returned ", hex(s), " expected ", hex(f.text));
            VCHECK(r.where() == f.off + f.text.size() + 1, "advance:get_cstr", "get_cstr moved the cursor from ", f.off, " to ", r.where(), " for a string of ", f.text.size());
            VCHECK(r.pget_cstr(f.off) == f.text, "roundtrip:pget_cstr", "pget_cstr differs");
          } else {
            std::string expect = f.text + (f.crlf ? "\r" : "");
            if (!expect.empty() && expect.back() == '\r') expect.pop_back();
            if (sel & 1) {
              std::string p = r.get_line(false);
              VCHECK(p == expect && r.where() == f.off, "line-peek", "get_line(false) returned ", hex(p), " cursor ", r.where());
            }
            std::string s = r.get_line();
            VCHECK(s == expect, "roundtrip:line", "get_line returned ", hex(s), " expected ", hex(expect));
            VCHECK(r.where() == f.off + f.len, "advance:get_line", "get_line moved the cursor from ", f.off, " to ", r.where(), " for a line of ", f.len, " bytes incl. terminator");
          }
          break;
        }
        [[fallthrough]];
      case FK_BLOCK:
      case FK_RAW: {
        std::string expect = bytes_of(m, f.off, f.len);
        std::string got;
        const char* how = "";
        try {
        switch (sel % 7) {
          case 0:
            how = "read";
            got = r.read(f.len);
            break;
          case 1:
            how = "readx";
            got = r.readx(f.len);
            break;
          case 2: {
            how = "read(void*)";
            std::unique_ptr<char[]> b(new char[f.len]);
            size_t rd = r.read(b.get(), f.len);
            VCHECK(rd == f.len, "block-read-count", "read(void*, ", f.len, ") returned ", rd);
            got.assign(b.get(), f.len);
            break;
          }
          case 3: {
            how = "readx(void*)";
            std::unique_ptr<char[]> b(new char[f.len]);
            r.readx(b.get(), f.len);
            got.assign(b.get(), f.len);
            break;
          }
          case 4: {
            how = "getv";
            const void* p = r.getv(f.len);
            got.assign(reinterpret_cast<const char*>(p), f.len);
            break;
          }
          case 5: {
            how = "peek+skip";
            const char* p = r.peek(f.len);
            got.assign(p, f.len);
            VCHECK(r.where() == f.off, "peek-advanced:peek", "peek moved the cursor");
            r.skip(f.len);
            break;
          }
          default: {
            how = "read(false)+skip_if";
            got = r.read(f.len, false);
            VCHECK(r.where() == f.off, "peek-advanced:read", "read(n,false) moved the cursor");
            bool ok = r.skip_if(expect.data(), expect.size());
            VCHECK(ok, "skip_if", "skip_if on matching bytes returned false");
            break;
          }
        }
        } catch (const std::out_of_range& ex) {
          VFAIL(cat("in-range-read-throws:", how), how, " of ", f.len, " bytes at ", f.off, " of ", m.size(), " threw out_of_range: ", ex.what());
        }
        VCHECK(got == expect, cat("decode:block"), how, " of ", f.len, " bytes at ", f.off, " returned ", hex(got), " expected ", hex(expect));
        if (f.kind == FK_BLOCK && !f.clobbered) VCHECK(got == f.text, "roundtrip:block", how, " returned ", hex(got), " written ", hex(f.text));
        VCHECK(r.where() == f.off + f.len, cat("advance:", how), how, " moved the cursor from ", f.off, " to ", r.where(), " for ", f.len, " bytes");
        break;
      }
    }
  }
  VCHECK(r.where() == m.size() && r.eof() && r.remaining() == 0, "cursor-end", "after reading every field the cursor is ", r.where(), " of ", m.size());

  // positional reads in a permuted order: every accessor of the field's width, plus the 24/48-bit ones
  std::vector<size_t> order(fields.size());
  for (size_t i = 0; i < order.size(); i++) order[i] = i;
  uint64_t ps = order_seed;
  for (size_t i = order.size(); i > 1; i--) std::swap(order[i - 1], order[splitmix(ps) % i]);
  for (size_t idx : order) {
    const Field& f = fields[idx];
    if (f.kind == FK_SCALAR) {
      for (unsigned t = 0; t < T_COUNT; t++) {
        if (kWidth[t] != f.len) continue;
        for (int big = 0; big < (f.len > 1 ? 2 : 1); big++) {
          uint64_t got = call_pget(r, t, big, f.off);
          uint64_t expect = ref_decode(m.data() + f.off, f.len, big, kSigned[t]);
          VCHECK(got == expect, cat("decode:pget_", reader_name(t, big)), "pget_", reader_name(t, big), "(", f.off, ") returned ", got, ", independent decoder ", expect);
          if (!f.clobbered && t == f.type && static_cast<bool>(big) == form_is_big(f.form)) {
            VCHECK(got == written_ext(f.type, f.bits), cat("roundtrip:p", scalar_name(f.type, f.form)), (f.positional ? "pput_" : "put_"), scalar_name(f.type, f.form), "(", written_ext(f.type, f.bits), ") read back with pget_", reader_name(t, big), " as ", got);
          }
        }
      }
    } else {
      std::string expect = bytes_of(m, f.off, f.len);
      VCHECK(r.pread(f.off, f.len) == expect, "decode:pread", "pread(", f.off, ",", f.len, ") differs");
      VCHECK(r.preadx(f.off, f.len) == expect, "decode:preadx", "preadx(", f.off, ",", f.len, ") differs");
      VCHECK(memcmp(r.pgetv(f.off, f.len), expect.data(), f.len) == 0, "decode:pgetv", "pgetv(", f.off, ",", f.len, ") differs");
    }
    if (f.off + 3 <= m.size()) {
      const uint8_t* p = m.data() + f.off;
      VCHECK(r.pget_u24b(f.off) == ref_decode(p, 3, true, false), "decode:pget_u24b", "at ", f.off);
      VCHECK(r.pget_u24l(f.off) == ref_decode(p, 3, false, false), "decode:pget_u24l", "at ", f.off);
      VCHECK(to_ext(r.pget_s24b(f.off)) == ref_decode(p, 3, true, true), "decode:pget_s24b", "at ", f.off);
      VCHECK(to_ext(r.pget_s24l(f.off)) == ref_decode(p, 3, false, true), "decode:pget_s24l", "at ", f.off);
    }
    if (f.off + 6 <= m.size()) {
      const uint8_t* p = m.data() + f.off;
      VCHECK(r.pget_u48b(f.off) == ref_decode(p, 6, true, false), "decode:pget_u48b", "at ", f.off);
      VCHECK(r.pget_u48l(f.off) == ref_decode(p, 6, false, false), "decode:pget_u48l", "at ", f.off);
      VCHECK(to_ext(r.pget_s48b(f.off)) == ref_decode(p, 6, true, true), "decode:pget_s48b", "pget_s48b(", f.off, ") returned ", r.pget_s48b(f.off), " independent decoder ", (int64_t)ref_decode(p, 6, true, true));
      VCHECK(to_ext(r.pget_s48l(f.off)) == ref_decode(p, 6, false, true), "decode:pget_s48l", "pget_s48l(", f.off, ") returned ", r.pget_s48l(f.off), " independent decoder ", (int64_t)ref_decode(p, 6, false, true));
    }
  }
  VCHECK(r.where() == m.size(), "pget-moved-cursor", "positional reads moved the cursor to ", r.where());

  // reset() empties the writer
  sw.reset();
  VCHECK(sw.size() == 0 && sw.str().empty(), "reset", "reset() left ", sw.size(), " bytes");

  if (kinds_used.size() >= 2 && has_explicit_multibyte) ctx().nontrivial_case();
  ctx().cls(nops <= 4 ? "seq:ops<=4" : nops <= 16 ? "seq:ops<=16" : "seq:ops<=48");
}

// ---------------------------------------------------------------- g2448

// case: s[0] = buffer; every offset, every accessor that fits
static void run_g2448(const Case& c) {
  const std::string& buf = c.str(0);
  const uint8_t* p = reinterpret_cast<const uint8_t*>(buf.data());
  StringReader r(buf.data(), buf.size());
  bool top = false;
  for (size_t off = 0; off < buf.size(); off++) {
    for (int k = 0; k < 8; k++) {
      const WideAcc& a = kWide[k];
      if (off + a.w > buf.size()) continue;
      uint64_t expect = ref_decode(p + off, a.w, a.big, a.sgn);
      uint64_t pg = wide_pget(r, k, off);
      VCHECK(pg == expect, cat("value:pget_", a.name), "pget_", a.name, "(", off, ") over ", hex(buf.substr(off, a.w)), " returned ", (int64_t)pg, " (0x", std::hex, pg, std::dec, "), independent decoder ", (int64_t)expect);
      r.go(off);
      uint64_t pk = wide_get(r, k, false);
      VCHECK(r.where() == off, cat("peek-advanced:get_", a.name), "get_", a.name, "(false) moved the cursor to ", r.where());
      VCHECK(pk == expect, cat("value:get_", a.name), "get_", a.name, "(false) at ", off, " returned ", (int64_t)pk, ", independent decoder ", (int64_t)expect);
      uint64_t g = wide_get(r, k, true);
      VCHECK(g == expect, cat("value:get_", a.name), "get_", a.name, " at ", off, " over ", hex(buf.substr(off, a.w)), " returned ", (int64_t)g, ", independent decoder ", (int64_t)expect);
      VCHECK(r.where() == off + a.w, cat("advance:get_", a.name), "get_", a.name, " moved the cursor from ", off, " to ", r.where());
      if (p[off + (a.big ? 0 : a.w - 1)] & 0x80) top = true;
    }
  }
  if (top && buf.size() >= 6) ctx().nontrivial_case();
}

// ---------------------------------------------------------------- bits

// case: s[0] = bit values (one byte each, 0/1) consumed by the write ops;
//       n = [flags, K, op_1..op_K (writer phase), read ops...]; op = (code << 32) | arg
//   writer phase: 0 write `arg` bits, 1 truncate(arg), 2 reset
//   reader phase: 3 read(size = arg & 0xFF, advance = bit 8), 4 pread(off = arg >> 8, size = arg & 0xFF),
//                 5 skip(arg), 6 go(arg)    (run() clips sizes/offsets so that every read stays inside the data)
static std::string pack_bits(const std::vector<uint8_t>& bits) {
  std::string out((bits.size() + 7) / 8, '\0');
  for (size_t i = 0; i < bits.size(); i++) {
    if (bits[i]) out[i / 8] = static_cast<char>(static_cast<uint8_t>(out[i / 8]) + (128 >> (i % 8)));
  }
  return out;
}
static uint64_t ref_bits(const std::vector<uint8_t>& bits, size_t off, unsigned n) {
  unsigned __int128 v = 0;
  for (unsigned k = 0; k < n; k++) v = v * 2 + bits[off + k];
  return static_cast<uint64_t>(v);
}

static void run_bits(const Case& c) {
  uint64_t flags = c.u(0), K = c.u(1);
  if (c.n.size() < 2 + K) throw std::logic_error("bits: malformed case");
  const std::string& src = c.str(0);
  size_t src_pos = 0;
  std::vector<uint8_t> bits;
  BitWriter w;
  VCHECK(w.size() == 0 && w.str().empty(), "writer-init", "fresh BitWriter not empty");
  bool truncated_unaligned = false, wrote_after_truncate = false;
  for (uint64_t k = 0; k < K; k++) {
    uint64_t op = c.u(2 + k), code = op >> 32, arg = op & 0xFFFFFFFFULL;
    if (code == 0) {
      for (uint64_t j = 0; j < arg; j++) {
        if (src_pos >= src.size()) throw std::logic_error("bits: ran out of bit values");
        bool b = src[src_pos++] & 1;
        w.write(b);
        bits.push_back(b);
      }
      if (truncated_unaligned && arg) wrote_after_truncate = true;
    } else if (code == 1) {
      if (arg > bits.size()) {
        bool threw = false;
        try {
          w.truncate(arg);
        } catch (const std::logic_error&) {
          threw = true;
        }
        VCHECK(threw, "truncate-extends", "truncate(", arg, ") on ", bits.size(), " bits did not throw logic_error");
      } else {
        w.truncate(arg);
        bits.resize(arg);
        if (arg % 8) truncated_unaligned = true;
      }
    } else if (code == 2) {
      w.reset();
      bits.clear();
    } else {
      throw std::logic_error("bits: bad writer op");
    }
    VCHECK(w.size() == bits.size(), "bit-count", "size() is ", w.size(), " after op #", k, ", model has ", bits.size(), " bits");
    std::string expect = pack_bits(bits);
    VCHECK(w.str() == expect, code == 1 ? "packing:truncate" : "packing:write", "str() is ", hex(w.str()), " after op #", k, ", MSB-first packing of the bit list is ", hex(expect));
  }

  // reader over the packed bytes
  std::string data = w.str();
  std::shared_ptr<std::string> shared;
  std::unique_ptr<BitReader> rp;
  switch (flags & 3) {
    case 0: rp.reset(new BitReader(data)); break;
    case 1: rp.reset(new BitReader(data.data(), data.size() * 8)); break;
    case 2:
      shared = std::make_shared<std::string>(data);
      rp.reset(new BitReader(shared));
      break;
    default: rp.reset(new BitReader(data, 0)); break;
  }
  BitReader& r = *rp;
  VCHECK(r.size() == data.size() * 8 && r.where() == 0, "reader-init", "BitReader over ", data.size(), " bytes has size ", r.size());
  r.truncate(bits.size());
  VCHECK(r.size() == bits.size() && r.remaining() == bits.size(), "reader-truncate", "size ", r.size(), " after truncate(", bits.size(), ")");
  {
    bool threw = false;
    try {
      r.truncate(bits.size() + 1);
    } catch (const std::invalid_argument&) {
      threw = true;
    }
    VCHECK(threw && r.size() == bits.size(), "reader-truncate-extends", "truncate beyond the size did not throw invalid_argument");
  }
  size_t cur = 0, total = bits.size();
  unsigned reads = 0;
  for (size_t k = 2 + K; k < c.n.size(); k++) {
    uint64_t op = c.u(k), code = op >> 32, arg = op & 0xFFFFFFFFULL;
    if (code == 3) {
      unsigned size = arg & 0xFF;
      bool adv = (arg >> 8) & 1;
      if (size > 64) {
        bool threw = false;
        try {
          r.read(size, adv);
        } catch (const std::logic_error&) {
          threw = true;
        }
        VCHECK(threw && r.where() == cur, "read-over-64", "read(", size, ") did not throw logic_error");
        continue;
      }
      if (size > total - cur) size = total - cur;
      uint64_t got = r.read(size, adv);
      uint64_t expect = ref_bits(bits, cur, size);
      VCHECK(got == expect, "bit-read", "read(", size, ") at bit ", cur, " returned ", got, " expected ", expect);
      if (adv) cur += size;
      VCHECK(r.where() == cur, "bit-advance", "read(", size, ",", adv, ") left the cursor at ", r.where(), " expected ", cur);
      reads++;
    } else if (code == 4) {
      unsigned size = arg & 0xFF;
      size_t off = arg >> 8;
      if (size > 64) size = 64;
      if (off > total) off = total;
      if (size > total - off) size = total - off;
      uint64_t got = r.pread(off, size);
      uint64_t expect = ref_bits(bits, off, size);
      VCHECK(got == expect, "bit-pread", "pread(", off, ",", size, ") returned ", got, " expected ", expect);
      VCHECK(r.where() == cur, "bit-pread-moved", "pread moved the cursor");
      reads++;
    } else if (code == 5) {
      size_t by = arg;
      if (by > total - cur) by = total - cur;
      r.skip(by);
      cur += by;
      VCHECK(r.where() == cur, "bit-skip", "skip(", by, ") left the cursor at ", r.where());
    } else if (code == 6) {
      size_t to = arg;
      if (to > total) to = total;
      r.go(to);
      cur = to;
      VCHECK(r.where() == cur, "bit-go", "go(", to, ") left the cursor at ", r.where());
    } else {
      throw std::logic_error("bits: bad reader op");
    }
    VCHECK(r.remaining() == total - cur && r.eof() == (cur >= total), "bit-remaining", "remaining() ", r.remaining(), " eof ", r.eof(), " at ", cur, " of ", total);
  }
  // single-bit default read of everything
  r.go(0);
  for (size_t i = 0; i < total; i++) {
    uint64_t b = r.read();
    VCHECK(b == bits[i], "bit-read", "read() at bit ", i, " returned ", b);
  }
  VCHECK(r.eof() && r.where() == total, "bit-eof", "not at the end after reading every bit");
  if (total >= 9 && reads >= 2) ctx().nontrivial_case();
  if (wrote_after_truncate) ctx().cls("bits:write-after-unaligned-truncate");
  ctx().cls(total <= 8 ? "bits:<=8" : total <= 64 ? "bits:<=64" : "bits:>64");
}

// ---------------------------------------------------------------- generators

static uint64_t gen_scalar_bits(unsigned type) {
  unsigned w = kWidth[type];
  uint64_t mask = width_mask(w);
  if (type == T_F32) {
    uint64_t r22 = vg::u64() & 0x3FFFFF;
    switch (vg::below(10)) {
      case 0: return 0x7FC00000ULL | r22 | (vg::coin() ? 0x80000000ULL : 0); // quiet NaN, random payload
      case 1: return 0x7F800000ULL | (r22 ? r22 : 1) | (vg::coin() ? 0x80000000ULL : 0); // signalling NaN
      case 2: return vg::pick<uint64_t>({0x00000000, 0x80000000, 0x7F800000, 0xFF800000}); // +-0, +-inf
      case 3: return (vg::u64() & 0x007FFFFF) | (vg::coin() ? 0x80000000ULL : 0); // denormal
      case 4: return vg::pick<uint64_t>({0x3F800000, 0xBF800000, 0x7F7FFFFF, 0x00800000, 0x00000001, 0x807FFFFF});
      default: return vg::u64() & mask;
    }
  }
  if (type == T_F64) {
    uint64_t r51 = vg::u64() & 0x7FFFFFFFFFFFFULL;
    uint64_t sign = vg::coin() ? 0x8000000000000000ULL : 0;
    switch (vg::below(10)) {
      case 0: return 0x7FF8000000000000ULL | r51 | sign;
      case 1: return 0x7FF0000000000000ULL | (r51 ? r51 : 1) | sign;
      case 2: return vg::pick<uint64_t>({0, 0x8000000000000000ULL, 0x7FF0000000000000ULL, 0xFFF0000000000000ULL});
      case 3: return (vg::u64() & 0x000FFFFFFFFFFFFFULL) | sign;
      case 4: return vg::pick<uint64_t>({0x3FF0000000000000ULL, 0xBFF0000000000000ULL, 0x7FEFFFFFFFFFFFFFULL, 0x0010000000000000ULL, 1ULL});
      default: return vg::u64();
    }
  }
  uint64_t top = 1ULL << (8 * w - 1);
  switch (vg::below(7)) {
    case 0: return vg::pick<uint64_t>({0, 1, mask, mask - 1, top, top - 1, top + 1, 0x7F, 0x80, 0xFF}) & mask;
    case 1: return 1ULL << vg::below(8 * w);
    case 2: return ~(1ULL << vg::below(8 * w)) & mask;
    case 3: return vg::pick<uint64_t>({0x8080808080808080ULL, 0x7F7F7F7F7F7F7F7FULL, 0x0102030405060708ULL, 0xF1E2D3C4B5A69788ULL, 0x00FF00FF00FF00FFULL, 0xFF00FF00FF00FF00ULL, 0x80000000000000FFULL}) & mask;
    case 4: return vg::interesting64() & mask;
    default: return vg::u64() & mask;
  }
}

static uint64_t gen_scalar_kind() {
  unsigned type = vg::below(T_COUNT);
  unsigned form = kWidth[type] == 1 ? F_NATIVE : vg::below(4);
  return type | (form << 4);
}

static Case gen_seq() {
  Case c("seq");
  c.N(vg::u64()).N(vg::below(4));
  uint64_t nops = 1 + vg::scaled(47);
  size_t size = 0;
  for (uint64_t k = 0; k < nops; k++) {
    uint64_t pick = vg::below(100);
    if (pick < 50) {
      uint64_t kind = gen_scalar_kind();
      c.N(kind).N(gen_scalar_bits(kind & 15)).N(0);
      size += kWidth[kind & 15];
    } else if (pick < 75) {
      uint64_t kind = gen_scalar_kind();
      unsigned w = kWidth[kind & 15];
      size_t off;
      switch (vg::below(4)) {
        case 0: off = size ? vg::below(size) : 0; break; // anywhere inside (may straddle)
        case 1: off = size >= w ? size - w + vg::below(w + 1) : vg::below(size + 1); break; // ending at or straddling the end
        case 2: off = size; break; // exactly at the end
        default: off = size + vg::below(65); break; // up to 64 past the end
      }
      c.N(kind | 0x40).N(gen_scalar_bits(kind & 15)).N(off);
      if (off + w > size) size = off + w;
    } else if (pick < 83) {
      std::string b = vg::bytes(vg::below(20));
      c.N(K_BLOCK).N(vg::below(4)).N(c.s.size());
      c.S(b);
      size += b.size();
    } else if (pick < 89) {
      std::string t = vg::bytes_from(std::string("ab\r\n\x01\xff z", 8), vg::below(12));
      c.N(K_CSTR).N(vg::below(4)).N(c.s.size());
      c.S(t);
      size += t.size() + 1;
    } else if (pick < 95) {
      std::string t = vg::bytes_from(std::string("ab\r\0\xff z", 7), vg::below(12));
      if (vg::chance(1, 3)) t += '\r';
      uint64_t v = vg::below(4);
      c.N(K_LINE).N(v).N(c.s.size());
      c.S(t);
      size += t.size() + ((v & 1) ? 2 : 1);
    } else {
      uint64_t n = vg::below(20);
      c.N(vg::coin() ? K_EXTBY : K_EXTTO).N(n).N(vg::pick<uint64_t>({0, 0, 0xFF, 0x41, 0x0A}));
      size += n;
    }
  }
  return c;
}

static Case gen_g2448() {
  Case c("g2448");
  size_t len = 6 + vg::below(19);
  std::string b;
  switch (vg::below(4)) {
    case 0: b = vg::bytes_from(std::string("\x00\x01\x7f\x80\xff\xfe", 6), len); break;
    case 1: {
      // a single set bit walking through the buffer
      b.assign(len, '\0');
      b[vg::below(len)] = static_cast<char>(1 << vg::below(8));
      break;
    }
    default: b = vg::bytes(len); break;
  }
  c.S(b);
  return c;
}

static Case gen_bits() {
  Case c("bits");
  c.N(vg::below(4));
  uint64_t K = 1 + vg::scaled(11);
  std::vector<uint64_t> ops;
  std::string src;
  size_t total = 0;
  for (uint64_t k = 0; k < K; k++) {
    uint64_t pick = vg::below(10);
    if (pick < 7 || total == 0) {
      uint64_t n = vg::chance(1, 4) ? vg::below(70) : vg::below(20);
      ops.push_back((0ULL << 32) | n);
      uint64_t mode = vg::below(4);
      for (uint64_t j = 0; j < n; j++) src.push_back(static_cast<char>(mode == 0 ? 1 : mode == 1 ? 0 : vg::below(2)));
      total += n;
    } else if (pick < 9) {
      uint64_t to = vg::chance(1, 8) ? total + 1 + vg::below(8) : vg::below(total + 1);
      ops.push_back((1ULL << 32) | to);
      if (to <= total) total = to;
    } else {
      ops.push_back(2ULL << 32);
      total = 0;
    }
  }
  c.N(ops.size());
  for (uint64_t o : ops) c.N(o);
  c.S(src);
  uint64_t R = vg::scaled(12);
  for (uint64_t k = 0; k < R; k++) {
    switch (vg::below(8)) {
      case 0:
      case 1:
      case 2:
      case 3: {
        uint64_t size = vg::chance(1, 20) ? 65 + vg::below(100) : vg::chance(1, 4) ? vg::pick<uint64_t>({0, 1, 7, 8, 9, 63, 64}) : vg::below(65);
        c.N((3ULL << 32) | size | (vg::chance(3, 4) ? 0x100 : 0));
        break;
      }
      case 4:
      case 5: c.N((4ULL << 32) | (vg::below(total + 1) << 8) | vg::below(65)); break;
      case 6: c.N((5ULL << 32) | vg::below(20)); break;
      default: c.N((6ULL << 32) | vg::below(total + 2)); break;
    }
  }
  return c;
}

// ---------------------------------------------------------------- enumerators

// every value of every 16-bit (and 8-bit) accessor pair, appended and positional, plus boundary values of the wider ones
static void enum_seq(Enum& e) {
  uint64_t idx = 0;
  std::vector<uint64_t> kinds;
  for (unsigned type = 0; type < T_COUNT; type++)
    for (unsigned form = 0; form < 4; form++)
      if (valid_scalar(type, form)) kinds.push_back(type | (form << 4));
  // 8/16-bit: all values; appended in quick, appended + positional (past the end, with a zero gap) in thorough
  for (uint64_t kind : kinds) {
    unsigned w = kWidth[kind & 15];
    if (w > 2) continue;
    uint64_t count = 1ULL << (8 * w);
    for (uint64_t blk = 0; blk < count && !e.stop; blk += 256, idx++) {
      if (!e.mine(idx)) continue;
      for (uint64_t v = blk; v < blk + 256 && v < count; v++) {
        e.exec(Case("seq").N(v * 7).N(v & 3).N(kind).N(v).N(0));
        if (e.thorough()) e.exec(Case("seq").N(v * 7).N(v & 3).N(kind | 0x40).N(v).N(v % 5));
      }
    }
  }
  // wider types: boundary bit patterns
  for (uint64_t kind : kinds) {
    unsigned w = kWidth[kind & 15];
    if (w <= 2) continue;
    if (!e.mine(idx++)) continue;
    std::vector<uint64_t> vals = {0, width_mask(w)};
    for (unsigned b = 0; b < 8 * w; b++) {
      vals.push_back(1ULL << b);
      vals.push_back((1ULL << b) - 1);
      vals.push_back(~(1ULL << b) & width_mask(w));
    }
    for (unsigned k = 0; k < w; k++) vals.push_back(0x80ULL << (8 * k));
    vals.push_back(0x0102030405060708ULL & width_mask(w));
    vals.push_back(0xF1E2D3C4B5A69788ULL & width_mask(w));
    for (uint64_t v : vals) {
      e.exec(Case("seq").N(v).N(v & 3).N(kind).N(v).N(0));
      e.exec(Case("seq").N(v).N(v & 3).N(kind).N(~v).N(0).N(kind | 0x40).N(v).N(w + (v % 3)));
    }
  }
  // empty blocks / zero-length extensions / empty strings at the very end and in the middle, through every read form
  for (uint64_t seed = 0; seed < 64 && !e.stop; seed++) {
    if (!e.mine(idx++)) continue;
    e.exec(Case("seq").N(seed).N(seed & 3).N(K_BLOCK).N(seed & 1).N(0).S(""));
    e.exec(Case("seq").N(seed).N(seed & 3).N(T_U16 | (F_BIG << 4)).N(0x8001).N(0).N(K_BLOCK).N(seed & 1).N(0).S(""));
    e.exec(Case("seq").N(seed).N(seed & 3).N(K_BLOCK).N(0).N(0).N(T_U32 | (F_LITTLE << 4)).N(0x80000001).N(0).N(K_EXTBY).N(0).N(0).S(""));
    e.exec(Case("seq").N(seed).N(seed & 3).N(K_CSTR).N(0).N(0).N(K_LINE).N(seed & 1).N(0).S(""));
  }
  e.complete(cat("every value of the 8- and 16-bit put_* forms (u8 s8 u16 s16 x native/r/b/l) appended", e.thorough() ? " and written positionally past the end" : "",
      "; all single-bit, 2^k-1, inverted single-bit and byte-sign patterns of the 32/64-bit and float forms appended and positional; empty blocks, empty strings and zero-length extensions at the end of the buffer through every block read form"));
}

static void enum_g2448(Enum& e) {
  // all 2^24 three-byte buffers through the 24-bit accessors, hot loop, one journal entry per 2^16 block
  const uint64_t blocks = 256;
  for (uint64_t b = 0; b < blocks && !e.stop; b++) {
    if (!e.mine(b)) continue;
    uint8_t buf[3];
    buf[0] = static_cast<uint8_t>(b);
    buf[1] = buf[2] = 0;
    e.journal_block(Case("g2448").S(std::string(reinterpret_cast<char*>(buf), 3)));
    for (uint32_t lo = 0; lo < 65536; lo++) {
      buf[1] = static_cast<uint8_t>(lo >> 8);
      buf[2] = static_cast<uint8_t>(lo);
      StringReader r(buf, 3);
      bool ok = true;
      for (int k = 0; k < 4 && ok; k++) {
        uint64_t expect = ref_decode(buf, 3, kWide[k].big, kWide[k].sgn);
        ok = (wide_pget(r, k, 0) == expect);
        r.go(0);
        ok = ok && (wide_get(r, k, true) == expect) && (r.where() == 3);
      }
      if (!ok) {
        e.exec_light(Case("g2448").S(std::string(reinterpret_cast<char*>(buf), 3)));
        break;
      }
    }
    e.x.count(65536);
  }
  // six-byte buffers over {00,01,7F,80,FF}^6 through all eight accessors
  static const uint8_t alpha[5] = {0x00, 0x01, 0x7F, 0x80, 0xFF};
  for (uint64_t code = 0; code < 15625 && !e.stop; code++) {
    if (!e.mine(code / 25)) continue;
    std::string b(6, '\0');
    uint64_t t = code;
    for (int k = 0; k < 6; k++) {
      b[k] = static_cast<char>(alpha[t % 5]);
      t /= 5;
    }
    e.exec(Case("g2448").S(b));
  }
  e.complete("all 2^24 three-byte buffers through get/pget_{u,s}24{b,l}; all six-byte buffers over {00,01,7F,80,FF} through the 24- and 48-bit accessors");
}

static void enum_bits(Enum& e) {
  // every bit string of length 0..12: write, read back in one piece and bit by bit; truncate at every length
  uint64_t idx = 0;
  for (unsigned len = 0; len <= 12 && !e.stop; len++) {
    for (uint64_t v = 0; v < (1ULL << len); v++, idx++) {
      if (!e.mine(idx / 64)) continue;
      std::string src(len, '\0');
      for (unsigned k = 0; k < len; k++) src[k] = static_cast<char>((v >> k) & 1);
      Case c("bits");
      c.N(v & 3).N(1).N(len);
      c.S(src);
      c.N((3ULL << 32) | 0x100 | len).N((6ULL << 32) | 0).N((4ULL << 32) | ((len / 2) << 8) | 64);
      e.exec(c);
      if (len >= 1 && (v & 1)) {
        // write all, truncate to t, write the complement of the dropped tail
        unsigned t = static_cast<unsigned>(v % (len + 1));
        Case d("bits");
        std::string s2 = src;
        for (unsigned k = t; k < len; k++) s2.push_back(static_cast<char>(1 - src[k]));
        d.N(v & 3).N(3).N(len).N((1ULL << 32) | t).N(len - t);
        d.S(s2);
        d.N((3ULL << 32) | 0x100 | len);
        e.exec(d);
      }
    }
  }
  e.complete("every bit string of length 0..12 written and read back; for half of them a truncate to a shorter length followed by rewriting the complemented tail");
}

int main(int argc, char** argv) {
  std::vector<SubCheck> checks;
  checks.push_back({"seq", run_seq, gen_seq, 160000, 2000000, 100, enum_seq});
  checks.push_back({"g2448", run_g2448, gen_g2448, 120000, 400000, 100, enum_g2448});
  checks.push_back({"bits", run_bits, gen_bits, 120000, 600000, 100, enum_bits});
  return main_(argc, argv, checks);
}
