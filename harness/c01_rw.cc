// C01 - typed binary writer/reader round-trip with exact big/little-endian byte layout.
//
// Subchecks
//   seq    a sequence of typed appends / positional writes / blocks / C strings / lines through
//          StringWriter and BufferWriter, compared byte for byte with an independent encoder, then
//          read back through StringReader (sequential get_*, peeks, a permutation of pget_*) and
//          compared with an independent decoder and with the values written.
//   g2448  the read-only 24/48-bit accessors (u/s, b/l, get/pget) over byte buffers at every offset.
//   bits   BitWriter (write / truncate / reset) against a bit-list model, BitReader read/pread/skip/go.
//   alias  values handed to the writers by reference / pointer INTO the writer's own buffer (put<T>, pput<T>,
//          write(ptr, n), write(str()), BufferWriter): the value written is the one the argument had at the call.
//   big    StringReader over a sparse mapping of more than 4 GiB: every accessor at offsets >= 2^32.
//   nest   a written stream decoded through sub-readers taken from readers whose cursor has moved (every constructor form,
//          up to three levels) and through get<T>(advance, size) with an explicit encoded width larger than sizeof(T).
#include "c01/codec.hh"

// ---------------------------------------------------------------- seq

// Case layout: n[0] = read-order seed, n[1] = flags (bits 0-1: reader constructor), then triples
// [kind, value, aux]:
//   kind < 0x80 : scalar, bits 0-3 type, bits 4-5 form, bit 6 positional (aux = absolute offset)
//   0x100 block   aux = blob index, value bit0: write(const string&) instead of write(ptr,size)
//   0x101 cstr    aux = blob index (no NUL inside): write(text) + put_u8(0), read with get_cstr
//   0x102 line    aux = blob index (no '\n' inside), value bit0: terminator "\r\n" instead of "\n"
//   0x103 extend_by(value, fill = aux)
//   0x104 extend_to(size() + value, fill = aux)
enum : uint64_t { K_BLOCK = 0x100, K_CSTR = 0x101, K_LINE = 0x102, K_EXTBY = 0x103, K_EXTTO = 0x104 };
enum { FK_SCALAR, FK_BLOCK, FK_CSTR, FK_LINE, FK_RAW };

struct Field {
  int kind;
  size_t off, len;
  unsigned type = 0, form = 0;
  uint64_t bits = 0; // scalar: value handed to the writer
  std::string text; // block / cstr / line: content handed to the writer
  bool crlf = false;
  bool clobbered = false;
  bool in_layout = true; // part of the sequential read plan
  bool positional = false;
};

static std::string bytes_of(const std::vector<uint8_t>& m, size_t off, size_t len) {
  return std::string(reinterpret_cast<const char*>(m.data()) + off, len);
}

static void run_seq(const Case& c) {
  if (c.n.size() < 2 || (c.n.size() - 2) % 3 != 0) throw std::logic_error("seq: malformed case");
  uint64_t order_seed = c.u(0), flags = c.u(1);
  size_t nops = (c.n.size() - 2) / 3;

  std::vector<uint8_t> m; // model of the StringWriter buffer
  std::vector<Field> fields;
  StringWriter sw;
  std::set<uint64_t> kinds_used;
  bool has_explicit_multibyte = false;

  auto clobber = [&](size_t off, size_t len) {
    for (auto& f : fields) {
      if (f.off < off + len && off < f.off + f.len) f.clobbered = true;
    }
  };

  for (size_t k = 0; k < nops; k++) {
    uint64_t kind = c.u(2 + 3 * k), value = c.u(3 + 3 * k), aux = c.u(4 + 3 * k);
    kinds_used.insert(kind);
    if (kind < 0x80) {
      unsigned type = kind & 15, form = (kind >> 4) & 3;
      bool positional = (kind >> 6) & 1;
      if (!valid_scalar(type, form)) throw std::logic_error("seq: bad scalar kind");
      unsigned w = kWidth[type];
      if (w > 1 && form != F_NATIVE) has_explicit_multibyte = true;
      uint8_t enc[8];
      ref_encode(enc, w, form_is_big(form), value & width_mask(w));
      Field f{FK_SCALAR, 0, w};
      f.type = type;
      f.form = form;
      f.bits = value;
      if (!positional) {
        f.off = m.size();
        m.insert(m.end(), enc, enc + w);
        do_put(sw, type, form, value);
        ctx().cls(cat("op:put_", kFormName[form][0] ? kFormName[form] : "native"));
      } else {
        size_t off = aux, S = m.size();
        f.positional = true;
        if (off > S + 4096) throw std::logic_error("seq: positional offset outside the generated domain");
        clobber(off, w);
        if (off + w > S) m.resize(off + w, 0);
        memcpy(m.data() + off, enc, w);
        do_pput(sw, off, type, form, value);
        f.off = off;
        if (off >= S) {
          if (off > S) {
            Field gap{FK_RAW, S, off - S};
            fields.push_back(gap);
          }
          ctx().cls("op:pput-past-end");
        } else if (off + w > S) {
          Field tail{FK_RAW, S, off + w - S};
          f.in_layout = false;
          fields.push_back(f);
          fields.push_back(tail);
          ctx().cls("op:pput-straddling-end");
          VCHECK(sw.size() == m.size(), "size-after-op", "StringWriter::size() is ", sw.size(), " after op #", k, ", model has ", m.size());
          continue;
        } else {
          f.in_layout = false;
          ctx().cls("op:pput-inside");
        }
      }
      fields.push_back(f);
    } else if (kind == K_BLOCK || kind == K_CSTR || kind == K_LINE) {
      const std::string& text = c.str(aux);
      Field f{kind == K_BLOCK ? FK_BLOCK : kind == K_CSTR ? FK_CSTR : FK_LINE, m.size(), text.size()};
      f.text = text;
      if (kind == K_BLOCK) {
        if (value & 1) sw.write(text);
        else sw.write(text.data(), text.size());
        m.insert(m.end(), text.begin(), text.end());
        ctx().cls("op:block");
      } else if (kind == K_CSTR) {
        if (text.find('\0') != std::string::npos) throw std::logic_error("seq: NUL inside a C string");
        sw.write(text);
        sw.put_u8(0);
        m.insert(m.end(), text.begin(), text.end());
        m.push_back(0);
        f.len += 1;
        ctx().cls("op:cstr");
      } else {
        if (text.find('\n') != std::string::npos) throw std::logic_error("seq: newline inside a line");
        f.crlf = value & 1;
        std::string full = text + (f.crlf ? "\r\n" : "\n");
        sw.write(full);
        m.insert(m.end(), full.begin(), full.end());
        f.len = full.size();
        ctx().cls("op:line");
      }
      fields.push_back(f);
    } else if (kind == K_EXTBY || kind == K_EXTTO) {
      if (value > 4096) throw std::logic_error("seq: extension outside the generated domain");
      Field f{FK_RAW, m.size(), static_cast<size_t>(value)};
      if (kind == K_EXTBY) sw.extend_by(value, static_cast<char>(aux));
      else sw.extend_to(m.size() + value, static_cast<char>(aux));
      m.insert(m.end(), value, static_cast<uint8_t>(aux));
      fields.push_back(f);
      ctx().cls("op:extend");
    } else {
      throw std::logic_error("seq: unknown op kind");
    }
    VCHECK(sw.size() == m.size(), "size-after-op", "StringWriter::size() is ", sw.size(), " after op #", k, ", model has ", m.size());
  }

  // (1) exact byte layout
  {
    const std::string& out = sw.str();
    VCHECK(out.size() == m.size(), "layout-size", "str().size() is ", out.size(), ", independent encoder produced ", m.size());
    for (size_t i = 0; i < m.size(); i++) {
      if (static_cast<uint8_t>(out[i]) != m[i]) {
        // name the (latest) field that owns the byte
        std::string owner = "?";
        for (const auto& f : fields) {
          if (i < f.off || i >= f.off + f.len) continue;
          owner = f.kind == FK_SCALAR ? cat(f.positional ? "pput_" : "put_", scalar_name(f.type, f.form)) : f.kind == FK_RAW ? "fill" : "text";
        }
        VFAIL(cat("layout:", owner), "byte ", i, " of str() is ", (unsigned)static_cast<uint8_t>(out[i]), ", independent encoder has ", (unsigned)m[i], "; str()=", hex(out), " model=", hex(bytes_of(m, 0, m.size())));
      }
    }
  }

  // (1b) BufferWriter: appends go to its own cursor, positional writes never move it; buffer of the model's size
  {
    size_t N = m.size();
    std::vector<uint8_t> bm(N, 0);
    std::unique_ptr<uint8_t[]> raw(new uint8_t[N]);
    memset(raw.get(), 0, N);
    BufferWriter bw(raw.get(), N);
    size_t cur = 0;
    for (size_t k = 0; k < nops; k++) {
      uint64_t kind = c.u(2 + 3 * k), value = c.u(3 + 3 * k), aux = c.u(4 + 3 * k);
      if (kind < 0x80) {
        unsigned type = kind & 15, form = (kind >> 4) & 3, w = kWidth[type];
        uint8_t enc[8];
        ref_encode(enc, w, form_is_big(form), value & width_mask(w));
        if ((kind >> 6) & 1) {
          memcpy(bm.data() + aux, enc, w); // aux + w <= N by construction of N
          do_pput(bw, aux, type, form, value);
        } else {
          memcpy(bm.data() + cur, enc, w);
          cur += w;
          do_put(bw, type, form, value);
        }
      } else if (kind == K_BLOCK || kind == K_CSTR || kind == K_LINE) {
        std::string full = c.str(aux);
        if (kind == K_CSTR) full.push_back('\0');
        if (kind == K_LINE) full += (value & 1) ? "\r\n" : "\n";
        memcpy(bm.data() + cur, full.data(), full.size());
        if (value & 2) bw.write(full.data(), full.size());
        else bw.write(full);
        cur += full.size();
      }
      // extend_* has no BufferWriter counterpart
    }
    for (size_t i = 0; i < N; i++) {
      VCHECK(raw[i] == bm[i], "bufferwriter-layout", "byte ", i, " written through BufferWriter is ", (unsigned)raw[i], ", independent encoder has ", (unsigned)bm[i]);
    }
  }

  // (2)(3) read back
  std::string data = sw.str();
  std::shared_ptr<std::string> shared;
  std::unique_ptr<StringReader> rp;
  switch (flags & 3) {
    case 0: rp.reset(new StringReader(data)); break;
    case 1: rp.reset(new StringReader(data.data(), data.size())); break;
    case 2:
      shared = std::make_shared<std::string>(data);
      rp.reset(new StringReader(shared));
      break;
    default: rp.reset(new StringReader(data, 0)); break;
  }
  StringReader& r = *rp;
  VCHECK(r.size() == m.size() && r.where() == 0 && r.remaining() == m.size(), "reader-init", "fresh reader: size ", r.size(), " where ", r.where());
  VCHECK(r.all() == data, "reader-all", "all() differs from the data");

  uint64_t sel_state = order_seed ^ 0xC01;
  for (const auto& f : fields) {
    if (!f.in_layout) continue;
    uint64_t sel = splitmix(sel_state);
    VCHECK(r.where() == f.off, "cursor", "cursor is ", r.where(), " before the field at ", f.off);
    VCHECK(r.eof() == false || f.len == 0, "eof-early", "eof() before the end");
    switch (f.kind) {
      case FK_SCALAR: {
        bool big = form_is_big(f.form);
        std::string nm = reader_name(f.type, big);
        uint64_t expect = ref_decode(m.data() + f.off, f.len, big, kSigned[f.type]);
        if (sel & 1) {
          uint64_t peeked = call_get(r, f.type, big, false);
          VCHECK(r.where() == f.off, cat("peek-advanced:get_", nm), "get_", nm, "(false) moved the cursor to ", r.where());
          VCHECK(peeked == expect, cat("decode:get_", nm), "get_", nm, "(false) at ", f.off, " returned ", peeked, ", independent decoder ", expect);
        }
        if (f.len > 1 && (sel & 2)) {
          // the other byte order at the same place
          uint64_t other = call_get(r, f.type, !big, false);
          uint64_t eo = ref_decode(m.data() + f.off, f.len, !big, kSigned[f.type]);
          VCHECK(other == eo, cat("decode:get_", reader_name(f.type, !big)), "get_", reader_name(f.type, !big), "(false) at ", f.off, " returned ", other, ", independent decoder ", eo);
        }
        uint64_t got = call_get(r, f.type, big, true);
        VCHECK(got == expect, cat("decode:get_", nm), "get_", nm, " at ", f.off, " returned ", got, ", independent decoder ", expect);
        if (!f.clobbered) {
          VCHECK(got == written_ext(f.type, f.bits), cat("roundtrip:", scalar_name(f.type, f.form)), "put_", scalar_name(f.type, f.form), "(", written_ext(f.type, f.bits), ") read back with get_", nm, " as ", got);
        }
        VCHECK(r.where() == f.off + f.len, cat("advance:get_", nm), "get_", nm, " moved the cursor from ", f.off, " to ", r.where());
        break;
      }
      case FK_CSTR:
      case FK_LINE:
        if (!f.clobbered) {
          if (f.kind == FK_CSTR) {
            if (sel & 1) {
              std::string p = r.get_cstr(false);
              VCHECK(p == f.text && r.where() == f.off, "cstr-peek", "get_cstr(false) returned ", hex(p), " cursor ", r.where());
            }
            std::string s = r.get_cstr();
            VCHECK(s == f.text, "roundtrip:cstr", "get_cstr returned ", hex(s), " expected ", hex(f.text));
            VCHECK(r.where() == f.off + f.text.size() + 1, "advance:get_cstr", "get_cstr moved the cursor from ", f.off, " to ", r.where(), " for a string of ", f.text.size());
            VCHECK(r.pget_cstr(f.off) == f.text, "roundtrip:pget_cstr", "pget_cstr differs");
          } else {
            std::string expect = f.text + (f.crlf ? "\r" : "");
            if (!expect.empty() && expect.back() == '\r') expect.pop_back();
            if (sel & 1) {
              std::string p = r.get_line(false);
              VCHECK(p == expect && r.where() == f.off, "line-peek", "get_line(false) returned ", hex(p), " cursor ", r.where());
            }
            std::string s = r.get_line();
            VCHECK(s == expect, "roundtrip:line", "get_line returned ", hex(s), " expected ", hex(expect));
            VCHECK(r.where() == f.off + f.len, "advance:get_line", "get_line moved the cursor from ", f.off, " to ", r.where(), " for a line of ", f.len, " bytes incl. terminator");
          }
          break;
        }
        [[fallthrough]];
      case FK_BLOCK:
      case FK_RAW: {
        std::string expect = bytes_of(m, f.off, f.len);
        std::string got;
        const char* how = "";
        try {
        switch (sel % 7) {
          case 0:
            how = "read";
            got = r.read(f.len);
            break;
          case 1:
            how = "readx";
            got = r.readx(f.len);
            break;
          case 2: {
            how = "read(void*)";
            std::unique_ptr<char[]> b(new char[f.len]);
            size_t rd = r.read(b.get(), f.len);
            VCHECK(rd == f.len, "block-read-count", "read(void*, ", f.len, ") returned ", rd);
            got.assign(b.get(), f.len);
            break;
          }
          case 3: {
            how = "readx(void*)";
            std::unique_ptr<char[]> b(new char[f.len]);
            r.readx(b.get(), f.len);
            got.assign(b.get(), f.len);
            break;
          }
          case 4: {
            how = "getv";
            const void* p = r.getv(f.len);
            got.assign(reinterpret_cast<const char*>(p), f.len);
            break;
          }
          case 5: {
            how = "peek+skip";
            const char* p = r.peek(f.len);
            got.assign(p, f.len);
            VCHECK(r.where() == f.off, "peek-advanced:peek", "peek moved the cursor");
            r.skip(f.len);
            break;
          }
          default: {
            how = "read(false)+skip_if";
            got = r.read(f.len, false);
            VCHECK(r.where() == f.off, "peek-advanced:read", "read(n,false) moved the cursor");
            bool ok = r.skip_if(expect.data(), expect.size());
            VCHECK(ok, "skip_if", "skip_if on matching bytes returned false");
            break;
          }
        }
        } catch (const std::out_of_range& ex) {
          VFAIL(cat("in-range-read-throws:", how), how, " of ", f.len, " bytes at ", f.off, " of ", m.size(), " threw out_of_range: ", ex.what());
        }
        VCHECK(got == expect, cat("decode:block"), how, " of ", f.len, " bytes at ", f.off, " returned ", hex(got), " expected ", hex(expect));
        if (f.kind == FK_BLOCK && !f.clobbered) VCHECK(got == f.text, "roundtrip:block", how, " returned ", hex(got), " written ", hex(f.text));
        VCHECK(r.where() == f.off + f.len, cat("advance:", how), how, " moved the cursor from ", f.off, " to ", r.where(), " for ", f.len, " bytes");
        break;
      }
    }
  }
  VCHECK(r.where() == m.size() && r.eof() && r.remaining() == 0, "cursor-end", "after reading every field the cursor is ", r.where(), " of ", m.size());

  // positional reads in a permuted order: every accessor of the field's width, plus the 24/48-bit ones
  std::vector<size_t> order(fields.size());
  for (size_t i = 0; i < order.size(); i++) order[i] = i;
  uint64_t ps = order_seed;
  for (size_t i = order.size(); i > 1; i--) std::swap(order[i - 1], order[splitmix(ps) % i]);
  for (size_t idx : order) {
    const Field& f = fields[idx];
    if (f.kind == FK_SCALAR) {
      for (unsigned t = 0; t < T_COUNT; t++) {
        if (kWidth[t] != f.len) continue;
        for (int big = 0; big < (f.len > 1 ? 2 : 1); big++) {
          uint64_t got = call_pget(r, t, big, f.off);
          uint64_t expect = ref_decode(m.data() + f.off, f.len, big, kSigned[t]);
          VCHECK(got == expect, cat("decode:pget_", reader_name(t, big)), "pget_", reader_name(t, big), "(", f.off, ") returned ", got, ", independent decoder ", expect);
          if (!f.clobbered && t == f.type && static_cast<bool>(big) == form_is_big(f.form)) {
            VCHECK(got == written_ext(f.type, f.bits), cat("roundtrip:p", scalar_name(f.type, f.form)), (f.positional ? "pput_" : "put_"), scalar_name(f.type, f.form), "(", written_ext(f.type, f.bits), ") read back with pget_", reader_name(t, big), " as ", got);
          }
        }
      }
    } else {
      std::string expect = bytes_of(m, f.off, f.len);
      VCHECK(r.pread(f.off, f.len) == expect, "decode:pread", "pread(", f.off, ",", f.len, ") differs");
      VCHECK(r.preadx(f.off, f.len) == expect, "decode:preadx", "preadx(", f.off, ",", f.len, ") differs");
      VCHECK(memcmp(r.pgetv(f.off, f.len), expect.data(), f.len) == 0, "decode:pgetv", "pgetv(", f.off, ",", f.len, ") differs");
    }
    if (f.off + 3 <= m.size()) {
      const uint8_t* p = m.data() + f.off;
      VCHECK(r.pget_u24b(f.off) == ref_decode(p, 3, true, false), "decode:pget_u24b", "at ", f.off);
      VCHECK(r.pget_u24l(f.off) == ref_decode(p, 3, false, false), "decode:pget_u24l", "at ", f.off);
      VCHECK(to_ext(r.pget_s24b(f.off)) == ref_decode(p, 3, true, true), "decode:pget_s24b", "at ", f.off);
      VCHECK(to_ext(r.pget_s24l(f.off)) == ref_decode(p, 3, false, true), "decode:pget_s24l", "at ", f.off);
    }
    if (f.off + 6 <= m.size()) {
      const uint8_t* p = m.data() + f.off;
      VCHECK(r.pget_u48b(f.off) == ref_decode(p, 6, true, false), "decode:pget_u48b", "at ", f.off);
      VCHECK(r.pget_u48l(f.off) == ref_decode(p, 6, false, false), "decode:pget_u48l", "at ", f.off);
      VCHECK(to_ext(r.pget_s48b(f.off)) == ref_decode(p, 6, true, true), "decode:pget_s48b", "pget_s48b(", f.off, ") returned ", r.pget_s48b(f.off), " independent decoder ", (int64_t)ref_decode(p, 6, true, true));
      VCHECK(to_ext(r.pget_s48l(f.off)) == ref_decode(p, 6, false, true), "decode:pget_s48l", "pget_s48l(", f.off, ") returned ", r.pget_s48l(f.off), " independent decoder ", (int64_t)ref_decode(p, 6, false, true));
    }
  }
  VCHECK(r.where() == m.size(), "pget-moved-cursor", "positional reads moved the cursor to ", r.where());

  // reset() empties the writer
  sw.reset();
  VCHECK(sw.size() == 0 && sw.str().empty(), "reset", "reset() left ", sw.size(), " bytes");

  if (kinds_used.size() >= 2 && has_explicit_multibyte) ctx().nontrivial_case();
  ctx().cls(nops <= 4 ? "seq:ops<=4" : nops <= 16 ? "seq:ops<=16" : "seq:ops<=48");
}

// ---------------------------------------------------------------- g2448

// case: s[0] = buffer; every offset, every accessor that fits
static void run_g2448(const Case& c) {
  const std::string& buf = c.str(0);
  const uint8_t* p = reinterpret_cast<const uint8_t*>(buf.data());
  StringReader r(buf.data(), buf.size());
  bool top = false;
  for (size_t off = 0; off < buf.size(); off++) {
    for (int k = 0; k < 8; k++) {
      const WideAcc& a = kWide[k];
      if (off + a.w > buf.size()) continue;
      uint64_t expect = ref_decode(p + off, a.w, a.big, a.sgn);
      uint64_t pg = wide_pget(r, k, off);
      VCHECK(pg == expect, cat("value:pget_", a.name), "pget_", a.name, "(", off, ") over ", hex(buf.substr(off, a.w)), " returned ", (int64_t)pg, " (0x", std::hex, pg, std::dec, "), independent decoder ", (int64_t)expect);
      r.go(off);
      uint64_t pk = wide_get(r, k, false);
      VCHECK(r.where() == off, cat("peek-advanced:get_", a.name), "get_", a.name, "(false) moved the cursor to ", r.where());
      VCHECK(pk == expect, cat("value:get_", a.name), "get_", a.name, "(false) at ", off, " returned ", (int64_t)pk, ", independent decoder ", (int64_t)expect);
      uint64_t g = wide_get(r, k, true);
      VCHECK(g == expect, cat("value:get_", a.name), "get_", a.name, " at ", off, " over ", hex(buf.substr(off, a.w)), " returned ", (int64_t)g, ", independent decoder ", (int64_t)expect);
      VCHECK(r.where() == off + a.w, cat("advance:get_", a.name), "get_", a.name, " moved the cursor from ", off, " to ", r.where());
      if (p[off + (a.big ? 0 : a.w - 1)] & 0x80) top = true;
    }
  }
  if (top && buf.size() >= 6) ctx().nontrivial_case();
}

// ---------------------------------------------------------------- bits

// case: s[0] = bit values (one byte each, 0/1) consumed by the write ops;
//       n = [flags, K, op_1..op_K (writer phase), read ops...]; op = (code << 32) | arg
//   writer phase: 0 write `arg` bits, 1 truncate(arg), 2 reset
//   reader phase: 3 read(size = arg & 0xFF, advance = bit 8), 4 pread(off = arg >> 8, size = arg & 0xFF),
//                 5 skip(arg), 6 go(arg)    (run() clips sizes/offsets so that every read stays inside the data)
static std::string pack_bits(const std::vector<uint8_t>& bits) {
  std::string out((bits.size() + 7) / 8, '\0');
  for (size_t i = 0; i < bits.size(); i++) {
    if (bits[i]) out[i / 8] = static_cast<char>(static_cast<uint8_t>(out[i / 8]) + (128 >> (i % 8)));
  }
  return out;
}
static uint64_t ref_bits(const std::vector<uint8_t>& bits, size_t off, unsigned n) {
  unsigned __int128 v = 0;
  for (unsigned k = 0; k < n; k++) v = v * 2 + bits[off + k];
  return static_cast<uint64_t>(v);
}

static void run_bits(const Case& c) {
  uint64_t flags = c.u(0), K = c.u(1);
  if (c.n.size() < 2 + K) throw std::logic_error("bits: malformed case");
  const std::string& src = c.str(0);
  size_t src_pos = 0;
  std::vector<uint8_t> bits;
  BitWriter w;
  VCHECK(w.size() == 0 && w.str().empty(), "writer-init", "fresh BitWriter not empty");
  bool truncated_unaligned = false, wrote_after_truncate = false;
  for (uint64_t k = 0; k < K; k++) {
    uint64_t op = c.u(2 + k), code = op >> 32, arg = op & 0xFFFFFFFFULL;
    if (code == 0) {
      for (uint64_t j = 0; j < arg; j++) {
        if (src_pos >= src.size()) throw std::logic_error("bits: ran out of bit values");
        bool b = src[src_pos++] & 1;
        w.write(b);
        bits.push_back(b);
      }
      if (truncated_unaligned && arg) wrote_after_truncate = true;
    } else if (code == 1) {
      if (arg > bits.size()) {
        bool threw = false;
        try {
          w.truncate(arg);
        } catch (const std::exception&) {
          // (the class of the exception that reports an attempt to extend is not part of the statement)
          threw = true;
        }
        VCHECK(threw, "truncate-extends", "truncate(", arg, ") on ", bits.size(), " bits did not throw");
      } else {
        w.truncate(arg);
        bits.resize(arg);
        if (arg % 8) truncated_unaligned = true;
      }
    } else if (code == 2) {
      w.reset();
      bits.clear();
    } else {
      throw std::logic_error("bits: bad writer op");
    }
    VCHECK(w.size() == bits.size(), "bit-count", "size() is ", w.size(), " after op #", k, ", model has ", bits.size(), " bits");
    std::string expect = pack_bits(bits);
    VCHECK(w.str() == expect, code == 1 ? "packing:truncate" : "packing:write", "str() is ", hex(w.str()), " after op #", k, ", MSB-first packing of the bit list is ", hex(expect));
  }

  // reader over the packed bytes
  std::string data = w.str();
  std::shared_ptr<std::string> shared;
  std::unique_ptr<BitReader> rp;
  switch (flags & 3) {
    case 0: rp.reset(new BitReader(data)); break;
    case 1: rp.reset(new BitReader(data.data(), data.size() * 8)); break;
    case 2:
      shared = std::make_shared<std::string>(data);
      rp.reset(new BitReader(shared));
      break;
    default: rp.reset(new BitReader(data, 0)); break;
  }
  BitReader& r = *rp;
  VCHECK(r.size() == data.size() * 8 && r.where() == 0, "reader-init", "BitReader over ", data.size(), " bytes has size ", r.size());
  r.truncate(bits.size());
  VCHECK(r.size() == bits.size() && r.remaining() == bits.size(), "reader-truncate", "size ", r.size(), " after truncate(", bits.size(), ")");
  {
    bool threw = false;
    try {
      r.truncate(bits.size() + 1);
    } catch (const std::exception&) {
      threw = true;
    }
    VCHECK(threw && r.size() == bits.size(), "reader-truncate-extends", "truncate beyond the size did not throw");
  }
  size_t cur = 0, total = bits.size();
  unsigned reads = 0;
  for (size_t k = 2 + K; k < c.n.size(); k++) {
    uint64_t op = c.u(k), code = op >> 32, arg = op & 0xFFFFFFFFULL;
    if (code == 3) {
      unsigned size = arg & 0xFF;
      bool adv = (arg >> 8) & 1;
      if (size > 64) {
        bool threw = false;
        try {
          r.read(size, adv);
        } catch (const std::exception&) {
          threw = true;
        }
        VCHECK(threw && r.where() == cur, "read-over-64", "read(", size, ") did not throw");
        continue;
      }
      if (size > total - cur) size = total - cur;
      uint64_t got = r.read(size, adv);
      uint64_t expect = ref_bits(bits, cur, size);
      VCHECK(got == expect, "bit-read", "read(", size, ") at bit ", cur, " returned ", got, " expected ", expect);
      if (adv) cur += size;
      VCHECK(r.where() == cur, "bit-advance", "read(", size, ",", adv, ") left the cursor at ", r.where(), " expected ", cur);
      reads++;
    } else if (code == 4) {
      unsigned size = arg & 0xFF;
      size_t off = arg >> 8;
      if (size > 64) size = 64;
      if (off > total) off = total;
      if (size > total - off) size = total - off;
      uint64_t got = r.pread(off, size);
      uint64_t expect = ref_bits(bits, off, size);
      VCHECK(got == expect, "bit-pread", "pread(", off, ",", size, ") returned ", got, " expected ", expect);
      VCHECK(r.where() == cur, "bit-pread-moved", "pread moved the cursor");
      reads++;
    } else if (code == 5) {
      size_t by = arg;
      if (by > total - cur) by = total - cur;
      r.skip(by);
      cur += by;
      VCHECK(r.where() == cur, "bit-skip", "skip(", by, ") left the cursor at ", r.where());
    } else if (code == 6) {
      size_t to = arg;
      if (to > total) to = total;
      r.go(to);
      cur = to;
      VCHECK(r.where() == cur, "bit-go", "go(", to, ") left the cursor at ", r.where());
    } else {
      throw std::logic_error("bits: bad reader op");
    }
    VCHECK(r.remaining() == total - cur && r.eof() == (cur >= total), "bit-remaining", "remaining() ", r.remaining(), " eof ", r.eof(), " at ", cur, " of ", total);
  }
  // single-bit default read of everything
  r.go(0);
  for (size_t i = 0; i < total; i++) {
    uint64_t b = r.read();
    VCHECK(b == bits[i], "bit-read", "read() at bit ", i, " returned ", b);
  }
  VCHECK(r.eof() && r.where() == total, "bit-eof", "not at the end after reading every bit");
  if (total >= 9 && reads >= 2) ctx().nontrivial_case();
  if (wrote_after_truncate) ctx().cls("bits:write-after-unaligned-truncate");
  ctx().cls(total <= 8 ? "bits:<=8" : total <= 64 ? "bits:<=64" : "bits:>64");
}

// ---------------------------------------------------------------- big (readers over more than 4 GiB)

// "All values / all read orders" has no size cap: a StringReader over a memory-mapped file of more than 4 GiB must
// decode the bytes AT the offset it is given, for every accessor, also when the offset does not fit in 32 bits.
// The data is a sparse anonymous mapping (MAP_NORESERVE; only the pages around the reads are ever touched).
//
// case: n = [k, extra, seed, then triples (acc, rel, flags)]
//   the reader covers k * 2^32 + extra bytes (k = 1..3, 16 <= extra <= 2^20); base = k * 2^32
//   acc   0..7   the 24/48-bit accessors (kWide)
//         8..27  ordinary accessors: 8 + 2 * type + big   (controls: the same offsets through every other width)
//         100    raw block: pread / pgetv / go + read of (flags >> 8) bytes
//   rel   signed offset of the read relative to base (offset = base + rel, inside the data)
//   flags bit 0: cursor form (go(offset) + get_*) instead of pget_*;  bit 1: advance (cursor form only)
// Before the reads, each read's byte range is filled with a seed-derived pattern, and the ranges at the same offset
// minus every multiple of 2^32 with the complemented pattern; the model is a sparse map of the bytes written.
struct BigMap {
  uint8_t* p = nullptr;
  size_t len = 0;
  explicit BigMap(size_t n) {
    void* m = mmap(nullptr, n, PROT_READ | PROT_WRITE, MAP_PRIVATE | MAP_ANONYMOUS | MAP_NORESERVE, -1, 0);
    if (m != MAP_FAILED) {
      p = static_cast<uint8_t*>(m);
      len = n;
    }
  }
  ~BigMap() {
    if (p) munmap(p, len);
  }
  BigMap(const BigMap&) = delete;
  BigMap& operator=(const BigMap&) = delete;
};

static const uint64_t kFourGiB = 1ULL << 32;

static void run_big(const Case& c) {
  if (c.n.size() < 3 || (c.n.size() - 3) % 3 != 0) throw std::logic_error("big: malformed case");
  uint64_t k = c.u(0), extra = c.u(1), seed = c.u(2);
  if (k < 1 || k > 3 || extra < 16 || extra > (1ULL << 20)) throw std::logic_error("big: size outside the generated domain");
  const uint64_t base = k * kFourGiB, len = base + extra;
  size_t nops = (c.n.size() - 3) / 3;
  BigMap map(len);
  if (!map.p) {
    // an environment limit, not a behaviour of the library (strict overcommit, address-space limit)
    ctx().exclude("big: cannot map more than 4 GiB of address space on this machine");
    return;
  }
  struct Rd {
    uint64_t acc, off, flags;
    unsigned w;
  };
  std::vector<Rd> reads;
  std::map<uint64_t, uint8_t> model;
  auto poke = [&](uint64_t at, uint8_t v) {
    map.p[at] = v;
    model[at] = v;
  };
  for (size_t i = 0; i < nops; i++) {
    uint64_t acc = c.u(3 + 3 * i), flags = c.u(5 + 3 * i);
    int64_t rel = c.i(4 + 3 * i);
    unsigned w;
    if (acc < 8) w = kWide[acc].w;
    else if (acc < 8 + 2 * T_COUNT) w = kWidth[(acc - 8) / 2];
    else if (acc == 100) w = static_cast<unsigned>(flags >> 8);
    else throw std::logic_error("big: bad accessor code");
    if (acc == 100 && (w == 0 || w > 64)) throw std::logic_error("big: bad block size");
    if (rel < -64 || rel > static_cast<int64_t>(extra) - static_cast<int64_t>(w)) throw std::logic_error("big: read outside the data");
    uint64_t off = base + static_cast<uint64_t>(rel);
    // pattern bytes: a pure function of (seed, op index, byte index); the low images hold the complement
    uint64_t s = mix(seed, i);
    for (unsigned j = 0; j < w; j++) {
      uint8_t b = static_cast<uint8_t>(splitmix(s) >> 24);
      for (uint64_t m = 1; m <= k; m++) {
        if (off + j >= m * kFourGiB) poke(off + j - m * kFourGiB, static_cast<uint8_t>(~b));
      }
    }
    reads.push_back({acc, off, flags, w});
  }
  // the high ranges are written last so that they hold exactly their pattern (an image of a later read may overlap an earlier read)
  for (size_t i = 0; i < nops; i++) {
    uint64_t s = mix(seed, i);
    for (unsigned j = 0; j < reads[i].w; j++) poke(reads[i].off + j, static_cast<uint8_t>(splitmix(s) >> 24));
  }
  auto model_bytes = [&](uint64_t off, unsigned w, uint8_t* out) {
    for (unsigned j = 0; j < w; j++) {
      auto it = model.find(off + j);
      out[j] = it == model.end() ? 0 : it->second;
    }
  };

  StringReader r(map.p, len);
  VCHECK(r.size() == len && r.where() == 0 && r.remaining() == len, "big-reader-init", "reader over ", len, " bytes: size ", r.size(), " where ", r.where());
  bool odd_high = false;
  for (const Rd& rd : reads) {
    uint8_t bytes[64];
    model_bytes(rd.off, rd.w, bytes);
    bool cursor = rd.flags & 1, adv = (rd.flags >> 1) & 1;
    std::string nm;
    uint64_t got = 0, expect = 0;
    try {
      if (rd.acc == 100) {
        std::string want(reinterpret_cast<const char*>(bytes), rd.w);
        std::string g1 = r.pread(rd.off, rd.w);
        VCHECK(g1 == want, "big:decode:pread", "pread(", rd.off, ",", rd.w, ") over a reader of ", len, " bytes returned ", hex(g1), " expected ", hex(want));
        VCHECK(memcmp(r.pgetv(rd.off, rd.w), want.data(), rd.w) == 0, "big:decode:pgetv", "pgetv(", rd.off, ",", rd.w, ") differs");
        r.go(rd.off);
        std::string g2 = r.read(rd.w, adv);
        VCHECK(g2 == want, "big:decode:read", "read(", rd.w, ") at ", rd.off, " returned ", hex(g2), " expected ", hex(want));
        VCHECK(r.where() == rd.off + (adv ? rd.w : 0), "big:advance:read", "read(", rd.w, ",", adv, ") moved the cursor from ", rd.off, " to ", r.where());
        continue;
      }
      if (rd.acc < 8) {
        const WideAcc& a = kWide[rd.acc];
        nm = a.name;
        expect = ref_decode(bytes, a.w, a.big, a.sgn);
        if (cursor) {
          r.go(rd.off);
          got = wide_get(r, static_cast<int>(rd.acc), adv);
        } else {
          got = wide_pget(r, static_cast<int>(rd.acc), rd.off);
        }
        if (rd.off + rd.w > kFourGiB) odd_high = true;
      } else {
        unsigned type = static_cast<unsigned>((rd.acc - 8) / 2);
        bool big = (rd.acc - 8) & 1;
        if (kWidth[type] == 1) big = false;
        nm = reader_name(type, big);
        expect = ref_decode(bytes, rd.w, big, kSigned[type]);
        if (cursor) {
          r.go(rd.off);
          got = call_get(r, type, big, adv);
        } else {
          got = call_pget(r, type, big, rd.off);
        }
      }
    } catch (const std::out_of_range& ex) {
      VFAIL(cat("big:in-range-read-throws:", nm), (cursor ? "get_" : "pget_"), nm, " of ", rd.w, " bytes at ", rd.off, " of ", len, " threw out_of_range: ", ex.what());
    }
    const char* form = cursor ? "get_" : "pget_";
    VCHECK(got == expect, cat("big:value:", form, nm), form, nm, (cursor ? (adv ? "()" : "(false)") : "(offset)"), " at offset ", rd.off, " (2^32*", rd.off >> 32, " + ", rd.off & 0xFFFFFFFFULL, ") of a reader over ", len,
        " bytes returned ", (int64_t)got, " (0x", std::hex, got, std::dec, "), the bytes there are ", hex(std::string(reinterpret_cast<const char*>(bytes), rd.w)), " = ", (int64_t)expect);
    if (cursor) {
      uint64_t want_pos = rd.off + (adv ? rd.w : 0);
      VCHECK(r.where() == want_pos, cat(adv ? "big:advance:get_" : "big:peek-advanced:get_", nm), "get_", nm, "(", adv, ") moved the cursor from ", rd.off, " to ", r.where(), ", expected ", want_pos);
      VCHECK(r.remaining() == len - want_pos, "big:remaining", "remaining() is ", r.remaining(), " at ", want_pos, " of ", len);
    }
  }
  if (odd_high) ctx().nontrivial_case();
  ctx().cls(k == 1 ? "big:4GiB+" : k == 2 ? "big:8GiB+" : "big:12GiB+");
}

// ---------------------------------------------------------------- alias (the value handed to the writer lives in the writer)

// A value appended or written positionally is what it was when the call was made - also when the argument refers to
// bytes of the writer's own buffer (a field of the record copied to its end, `w.put<T>(r.pget<T>(k))` over a reader of
// w.str(), `w.write(w.str())`): put<T> / pput<T> take `const T&`, write takes a pointer or a `const std::string&`.
//
// case: n = [build, prefix, seed, then quadruples (entry, tsel, src_sel, dst_sel)], bytes of the prefix = expand(seed)
//   build  0: one write(prefix)    1: byte by byte (put_u8)    2: in chunks of 7 (write(ptr, 7))
//          3: write(prefix) after the string was grown to 2 * prefix and reset() (spare capacity)
//   entry  0  StringWriter::put<T>(const T&)          T = kAliasTypes[tsel], source at src (aligned down for T)
//          1  StringWriter::write(const void*, n)     n = 1 + dst_sel % min(size, 64)
//          2  StringWriter::write(const std::string&) with the writer's own str()
//          3  StringWriter::pput<T>(dst, const T&)    destination inside the data, disjoint from the source or identical
//          4  BufferWriter over a copy of the data: put<T> / write / pput<T> / pwrite from inside its own buffer to a
//             disjoint place of it (dst_sel & 3 selects the form)
//          5  StringWriter::pput<T>(dst, const T&) with dst + sizeof(T) > size (the write grows the buffer).  NOT generated:
//             on the unchanged tree pput resizes before it copies, so the argument dangles when the string reallocates
//             (reported; corpus/c01/alias_pput_grow.case.reported). The entry exists so that the report can be replayed.
//   src = src_sel % (size - n + 1); dst likewise
struct AliasP3 {
  uint8_t b[3];
} __attribute__((packed));
struct AliasP12 {
  phosg::be_uint32_t a;
  phosg::le_uint64_t b;
} __attribute__((packed));
struct AliasP40 {
  uint8_t b[40];
};
static_assert(sizeof(AliasP3) == 3 && sizeof(AliasP12) == 12 && sizeof(AliasP40) == 40);

#define C01_ALIAS_TYPES(X)                                                                                       \
  X(0, uint8_t) X(1, int8_t) X(2, uint16_t) X(3, phosg::be_uint16_t) X(4, phosg::le_int16_t) X(5, AliasP3)        \
  X(6, uint32_t) X(7, float) X(8, phosg::be_uint32_t) X(9, phosg::le_uint32_t) X(10, phosg::be_float)             \
  X(11, uint64_t) X(12, double) X(13, phosg::be_uint64_t) X(14, phosg::le_int64_t) X(15, phosg::re_double)        \
  X(16, AliasP12) X(17, AliasP40)
static const unsigned kAliasTypeCount = 18;
static const char* kAliasTypeNames[kAliasTypeCount] = {"uint8_t", "int8_t", "uint16_t", "be_uint16_t", "le_int16_t", "packed3", "uint32_t", "float", "be_uint32_t", "le_uint32_t",
    "be_float", "uint64_t", "double", "be_uint64_t", "le_int64_t", "re_double", "packed12", "struct40"};
static const unsigned kAliasTypeSize[kAliasTypeCount] = {1, 1, 2, 2, 2, 3, 4, 4, 4, 4, 4, 8, 8, 8, 8, 8, 12, 40};

template <typename F>
static void with_alias_type(unsigned t, F&& f) {
  switch (t) {
#define X(i, T) \
  case i: f(static_cast<T*>(nullptr)); return;
    C01_ALIAS_TYPES(X)
#undef X
  }
  throw std::logic_error("alias: bad type index");
}
// number of types (the table is sorted by size) that fit into `size` bytes
static unsigned alias_types_fitting(size_t size) {
  unsigned n = 0;
  while (n < kAliasTypeCount && kAliasTypeSize[n] <= size) n++;
  return n;
}

enum : uint64_t { A_PUT = 0, A_WRITE_PTR, A_WRITE_SELF, A_PPUT, A_BUFFER, A_PPUT_GROW, A_ENTRY_COUNT };
static const char* kAliasEntryNames[A_ENTRY_COUNT] = {"put<T>", "write(ptr,n)", "write(str())", "pput<T>", "BufferWriter", "pput<T>-growing"};

static void run_alias(const Case& c) {
  if (c.n.size() < 3 || (c.n.size() - 3) % 4 != 0) throw std::logic_error("alias: malformed case");
  uint64_t build = c.u(0), prefix = c.u(1), seed = c.u(2);
  if (build > 3 || prefix < 1 || prefix > 4096) throw std::logic_error("alias: prefix outside the generated domain");
  size_t nops = (c.n.size() - 3) / 4;
  std::string m = vg::expand(seed, prefix); // model
  StringWriter w;
  switch (build) {
    case 0: w.write(m); break;
    case 1:
      for (char ch : m) w.put_u8(static_cast<uint8_t>(ch));
      break;
    case 2:
      for (size_t at = 0; at < m.size(); at += 7) w.write(m.data() + at, std::min<size_t>(7, m.size() - at));
      break;
    default:
      w.extend_to(2 * prefix, 'x');
      w.reset();
      w.write(m);
      break;
  }
  VCHECK(w.str() == m, "alias-setup", "writer does not hold the prefix");
  struct Landed {
    size_t off;
    std::string bytes;
  };
  std::vector<Landed> landed;
  for (size_t k = 0; k < nops; k++) {
    uint64_t entry = c.u(3 + 4 * k), tsel = c.u(4 + 4 * k), src_sel = c.u(5 + 4 * k), dst_sel = c.u(6 + 4 * k);
    if (entry >= A_ENTRY_COUNT) throw std::logic_error("alias: bad entry point");
    const size_t S = m.size();
    if (S > (1u << 20)) throw std::logic_error("alias: data outside the generated domain");
    unsigned t = static_cast<unsigned>(tsel % alias_types_fitting(S));
    std::string what = kAliasEntryNames[entry];
    if (entry != A_WRITE_PTR && entry != A_WRITE_SELF) what = cat(what, " T=", kAliasTypeNames[t]);
    std::string expect; // what the buffer must hold afterwards
    size_t at = S, n = 0;
    if (entry == A_WRITE_SELF) {
      expect = m + m;
      n = S;
      w.write(w.str());
    } else if (entry == A_WRITE_PTR) {
      n = 1 + dst_sel % std::min<size_t>(S, 64);
      size_t src = src_sel % (S - n + 1);
      expect = m + m.substr(src, n);
      w.write(w.str().data() + src, n);
      what = cat(what, " n=", n, " src=", src);
    } else {
      with_alias_type(t, [&](auto* tag) {
        using T = std::remove_pointer_t<decltype(tag)>;
        n = sizeof(T);
        size_t src = src_sel % (S - n + 1);
        src -= src % alignof(T); // std::string storage is at least 8-aligned; a `const T&` must be aligned for T
        const std::string value = m.substr(src, n); // the value of the argument when the call is made
        what = cat(what, " src=", src);
        if (entry == A_PUT) {
          expect = m + value;
          const T& ref = *reinterpret_cast<const T*>(w.str().data() + src);
          w.put<T>(ref);
        } else if (entry == A_PPUT) {
          // destination inside the data; a destination overlapping the source only partly becomes the source itself
          size_t dst = dst_sel % (S - n + 1);
          // a destination overlapping the source only partly is legal too (StringWriter::pput copies with memmove since
          // the repair of the aliasing defect)
          if (dst != src && dst < src + n && src < dst + n) ctx().cls("alias:pput-destination-overlaps-its-argument");
          at = dst;
          expect = m;
          expect.replace(dst, n, value);
          what = cat(what, " dst=", dst);
          const T& ref = *reinterpret_cast<const T*>(w.str().data() + src);
          w.pput<T>(dst, ref);
        } else if (entry == A_PPUT_GROW) {
          size_t dst = S - n + 1 + dst_sel % (n + 16); // straddling the end, at the end, up to 16 past it
          at = dst;
          expect = m;
          expect.resize(dst + n, '\0');
          expect.replace(dst, n, value);
          what = cat(what, " dst=", dst);
          const T& ref = *reinterpret_cast<const T*>(w.str().data() + src);
          w.pput<T>(dst, ref);
        } else {
          // BufferWriter over its own copy; destination disjoint from the source (memcpy semantics inside one buffer)
          expect = m; // the StringWriter is not touched
          const size_t width = n;
          n = 0;
          std::unique_ptr<char[]> buf(new char[S]);
          memcpy(buf.get(), m.data(), S);
          std::string bexpect = m;
          BufferWriter bw(buf.get(), S);
          unsigned form = dst_sel & 3;
          size_t dst = (dst_sel >> 2) % (S - width + 1);
          bool disjoint_possible = true;
          if (form < 2) {
            // cursor forms write at 0: the source must start at or after `width` (sizeof(T) is a multiple of alignof(T))
            if (S < 2 * width) disjoint_possible = false;
            else {
              src = width + src_sel % (S - 2 * width + 1);
              src -= src % alignof(T);
            }
            dst = 0;
          } else if (dst < src + width && src < dst + width) {
            if (src >= width) dst = 0;
            else if (src + 2 * width <= S) dst = src + width;
            else disjoint_possible = false;
          }
          if (!disjoint_possible) {
            ctx().cls("alias:BufferWriter:no-disjoint-place");
            return;
          }
          const std::string bvalue = m.substr(src, width);
          bexpect.replace(dst, width, bvalue);
          const T& ref = *reinterpret_cast<const T*>(buf.get() + src);
          switch (form) {
            case 0: bw.put<T>(ref); break;
            case 1: bw.write(buf.get() + src, width); break;
            case 2: bw.pput<T>(dst, ref); break;
            default: bw.pwrite(dst, buf.get() + src, width); break;
          }
          VCHECK(std::string(buf.get(), S) == bexpect, cat("alias-bytes:BufferWriter:", form == 0 ? "put<T>" : form == 1 ? "write" : form == 2 ? "pput<T>" : "pwrite"), what, " form ", form, " from offset ", src,
              " of its own buffer to ", dst, ": buffer is ", hex(std::string(buf.get(), S), 96), " expected ", hex(bexpect, 96));
          expect = m;
          n = 0;
        }
      });
    }
    VCHECK(w.size() == expect.size(), cat("alias-size:", kAliasEntryNames[entry]), what, " on a writer of ", S, " bytes: size() is ", w.size(), " expected ", expect.size());
    if (w.str() != expect) {
      size_t i = 0;
      while (i < expect.size() && w.str()[i] == expect[i]) i++;
      VFAIL(cat("alias-bytes:", kAliasEntryNames[entry]), what, " on a writer of ", S, " bytes (build ", build, "): byte ", i, " is ", (unsigned)static_cast<uint8_t>(w.str()[i]), ", the argument held ", (unsigned)static_cast<uint8_t>(expect[i]),
          " there when the call was made; written part is ", hex(w.str().substr(at, std::min<size_t>(n, 48))), " expected ", hex(expect.substr(at, std::min<size_t>(n, 48))));
    }
    if (n && entry != A_WRITE_SELF) landed.push_back({at, expect.substr(at, n)});
    m = expect;
    ctx().cls(cat("alias:", kAliasEntryNames[entry]));
  }
  // read back: every landed value through the reader, against the bytes the argument had
  StringReader r(w.str());
  for (const Landed& l : landed) {
    size_t n = l.bytes.size();
    bool later_overwritten = (m.substr(l.off, n) != l.bytes);
    if (later_overwritten) continue; // a later pput replaced it (checked byte-wise above)
    VCHECK(r.pread(l.off, n) == l.bytes, "alias-readback:pread", "pread(", l.off, ",", n, ") differs from the value written");
    if (n == 1 || n == 2 || n == 4 || n == 8) {
      unsigned type = n == 1 ? T_U8 : n == 2 ? T_U16 : n == 4 ? T_U32 : T_U64;
      for (int big = 0; big < (n > 1 ? 2 : 1); big++) {
        uint64_t got = call_pget(r, type, big, l.off);
        uint64_t want = ref_decode(reinterpret_cast<const uint8_t*>(l.bytes.data()), static_cast<unsigned>(n), big, false);
        VCHECK(got == want, cat("alias-readback:pget_", reader_name(type, big)), "pget_", reader_name(type, big), "(", l.off, ") returned ", got, ", the value handed to the writer decodes to ", want);
      }
    }
  }
  if (nops >= 1 && prefix >= 4) ctx().nontrivial_case();
}

// ---------------------------------------------------------------- nest
//
// "read back with the matching reader accessors ... each read advancing the cursor by exactly the encoded width", "all read
// orders": a stream of appended fields decoded the way nested formats are decoded - part of it through sub-readers taken from a
// reader whose cursor has already moved (sub / subx, one- and two-argument forms, up to three levels deep), part of it through the
// templated get<T>(advance, size) with an explicit encoded width that covers the value AND the fields that follow it (a header
// followed by trailing data), the rest through the ordinary accessors. The parent is built by each of the six constructor forms.
//
// Case: n[0] = flags (bits 0-2 constructor form 0..5; bits 8.. index of the field at which an initial-offset constructor places
// the cursor, taken modulo nfields+1), then quadruples [kind, value, aux, act]:
//   kind < 0x40 scalar (type | form << 4), appended with put_*;  K_BLOCK / K_CSTR with aux = blob index
//   act bits 0-2: 0 ordinary read (bits 3-4 choose the block read form)
//                 1 sub-reader starting at this field: bits 3-4 form (sub(o), sub(o,n), subx(o), subx(o,n)), bits 5-7 number of
//                   fields covered - 1, bit 8: afterwards the parent skips the fields instead of reading them itself
//                 2 get<T>(advance, size): bits 3-4 T (packed byte record / le_ / be_ unsigned of the field's width, uint8_t), bits 5-7 number
//                   of fields the explicit size covers - 1, bit 8: a get<T>(false, size) peek first
struct NField {
  int kind;
  size_t off, len;
  unsigned type = 0, form = 0;
  uint64_t bits = 0;
  std::string text;
  unsigned act = 0;
};
struct NestCtx {
  const std::vector<uint8_t>& m;
  const std::vector<NField>& f;
  const char* ctor;
  bool sub_from_moved_parent = false, wide_get = false;
  size_t end_of(size_t j) const { return j < f.size() ? f[j].off : m.size(); }
};
static const char* kNestCtorName[6] = {"string", "ptr-size", "shared_ptr", "string+offset", "ptr-size+offset", "shared_ptr+offset"};
static const char* kNestSubName[4] = {"sub(o)", "sub(o,n)", "subx(o)", "subx(o,n)"};

// get<T>(advance, size) for T = packed byte record / le_ / be_ unsigned of width w, or uint8_t (all of alignment 1: a reference to a
// native integer at an odd address would be the caller's undefined behaviour); returns the value and sizeof(T)
template <size_t W>
struct NestRec {
  uint8_t b[W];
} __attribute__((packed));
template <size_t W>
static uint64_t nest_rec_value(const NestRec<W>& v) {
  uint64_t x = 0;
  for (size_t k = 0; k < W; k++) x = x * 256 + v.b[k];
  return x;
}
static uint64_t nest_get_explicit(StringReader& r, unsigned w, unsigned tsel, bool advance, size_t size, unsigned& tw, bool& big, std::string& name) {
  big = false;
  if (tsel == 3 || w == 1) {
    tw = 1;
    name = "uint8_t";
    return r.get<uint8_t>(advance, size);
  }
  tw = w;
  big = (tsel == 2 || tsel == 0);
  switch (w * 4 + tsel) {
    case 2 * 4 + 0: name = "record2"; return nest_rec_value(r.get<NestRec<2>>(advance, size));
    case 2 * 4 + 1: name = "le_uint16_t"; return r.get<phosg::le_uint16_t>(advance, size);
    case 2 * 4 + 2: name = "be_uint16_t"; return r.get<phosg::be_uint16_t>(advance, size);
    case 4 * 4 + 0: name = "record4"; return nest_rec_value(r.get<NestRec<4>>(advance, size));
    case 4 * 4 + 1: name = "le_uint32_t"; return r.get<phosg::le_uint32_t>(advance, size);
    case 4 * 4 + 2: name = "be_uint32_t"; return r.get<phosg::be_uint32_t>(advance, size);
    case 8 * 4 + 0: name = "record8"; return nest_rec_value(r.get<NestRec<8>>(advance, size));
    case 8 * 4 + 1: name = "le_uint64_t"; return r.get<phosg::le_uint64_t>(advance, size);
    case 8 * 4 + 2: name = "be_uint64_t"; return r.get<phosg::be_uint64_t>(advance, size);
  }
  throw std::logic_error("nest: bad explicit-get type");
}

// Reads fields [i0, i1) through r, whose byte 0 is byte `base` of the stream and whose cursor stands at field i0.
static void nest_decode(NestCtx& x, StringReader& r, size_t base, size_t i0, size_t i1, unsigned depth, bool plain) {
  const char* lvl = depth == 0 ? "parent" : "sub-reader";
  size_t i = i0;
  while (i < i1) {
    const NField& f = x.f[i];
    size_t rel = f.off - base;
    VCHECK(r.where() == rel, cat("nest-cursor:", lvl), "cursor of the ", lvl, " (depth ", depth, ", built from ", x.ctor, ") is ", r.where(), " before the field at ", rel, " (stream offset ", f.off, ")");
    // the first field of a sub-reader is read, not sub-divided again (a sub-reader of a fresh sub-reader adds nothing)
    unsigned act = (plain || (depth > 0 && i == i0 && (f.act & 7) == 1)) ? 0 : (f.act & 7);
    size_t j = std::min(i + 1 + ((f.act >> 5) & 7), i1);
    size_t span = x.end_of(j) - f.off;
    try {
      if (act == 1 && depth < 3) {
        unsigned form = (f.act >> 3) & 3;
        size_t before = r.where();
        StringReader s = form == 0 ? r.sub(rel) : form == 1 ? r.sub(rel, span) : form == 2 ? r.subx(rel) : r.subx(rel, span);
        size_t want = (form & 1) ? span : r.size() - rel;
        if (before != 0) x.sub_from_moved_parent = true;
        ctx().cls(cat("nest:", kNestSubName[form], before ? "-cursor-moved" : "-cursor-0"));
        VCHECK(s.where() == 0, cat("sub-fresh-cursor:", x.ctor), kNestSubName[form], " (", rel, ", ", span, ") of a reader built from ", x.ctor, " with its cursor at ", before, ": where() of the new sub-reader is ", s.where(), ", expected 0");
        VCHECK(s.size() == want && s.remaining() == want && s.eof() == (want == 0), "sub-extent", kNestSubName[form], " (", rel, ", ", span, ") of ", r.size(), " bytes: size ", s.size(), " remaining ", s.remaining(), " eof ", s.eof(), ", expected ", want);
        VCHECK(r.where() == before, "sub-moved-parent", kNestSubName[form], " moved the parent's cursor from ", before, " to ", r.where());
        nest_decode(x, s, f.off, i, j, depth + 1, false);
        VCHECK(s.where() == span, cat("nest-cursor-end:", kNestSubName[form]), "after reading its fields the sub-reader's cursor is ", s.where(), ", they span ", span);
        if (form & 1) VCHECK(s.eof() && s.remaining() == 0, "sub-eof", "sub-reader of exactly ", span, " bytes: eof() false after reading them all");
        VCHECK(r.where() == before, "sub-moved-parent", "reading through the sub-reader moved the parent's cursor from ", before, " to ", r.where());
        if (f.act & 0x100) {
          r.skip(span);
          VCHECK(r.where() == rel + span, "advance:skip", "skip(", span, ") moved the cursor from ", rel, " to ", r.where());
        } else {
          nest_decode(x, r, base, i, j, depth, true);
        }
        i = j;
        continue;
      }
      if (act == 2 && f.len >= 1) {
        unsigned w = f.kind == FK_SCALAR ? static_cast<unsigned>(f.len) : 1, tw = 0;
        bool big = false;
        std::string nm;
        if (span > f.len) x.wide_get = true;
        if (f.act & 0x100) {
          uint64_t pv = nest_get_explicit(r, w, (f.act >> 3) & 3, false, span, tw, big, nm);
          uint64_t pe = ref_decode(x.m.data() + f.off, tw, big, false);
          VCHECK(pv == pe, cat("decode:get<", nm, ">(size)"), "get<", nm, ">(false, ", span, ") at ", rel, " returned ", pv, ", independent decoder ", pe);
          VCHECK(r.where() == rel, "peek-advanced:get<T>(size)", "get<", nm, ">(false, ", span, ") moved the cursor from ", rel, " to ", r.where());
        }
        uint64_t v = nest_get_explicit(r, w, (f.act >> 3) & 3, true, span, tw, big, nm);
        uint64_t e = ref_decode(x.m.data() + f.off, tw, big, false);
        ctx().cls(span > tw ? "nest:get<T>-size>sizeof" : "nest:get<T>-size=sizeof");
        VCHECK(v == e, cat("decode:get<", nm, ">(size)"), "get<", nm, ">(true, ", span, ") at ", rel, " returned ", v, ", independent decoder ", e);
        VCHECK(r.where() == rel + span, "advance:get<T>(size)", "get<", nm, ">(true, ", span, ") (sizeof ", tw, ", encoded width ", span, ") moved the cursor from ", rel, " to ", r.where(), ", expected ", rel + span);
        i = j;
        continue;
      }
      switch (f.kind) {
        case FK_SCALAR: {
          bool fbig = form_is_big(f.form);
          std::string nm = reader_name(f.type, fbig);
          uint64_t expect = ref_decode(x.m.data() + f.off, f.len, fbig, kSigned[f.type]);
          uint64_t got = call_get(r, f.type, fbig, true);
          VCHECK(got == expect, cat("nest-decode:get_", nm), "get_", nm, " on the ", lvl, " (depth ", depth, ", ", x.ctor, ") at ", rel, " returned ", got, ", independent decoder ", expect);
          VCHECK(got == written_ext(f.type, f.bits), cat("nest-roundtrip:", scalar_name(f.type, f.form)), "put_", scalar_name(f.type, f.form), "(", written_ext(f.type, f.bits), ") read back through the ", lvl, " as ", got);
          VCHECK(r.where() == rel + f.len, cat("advance:get_", nm), "get_", nm, " moved the cursor from ", rel, " to ", r.where());
          break;
        }
        case FK_CSTR: {
          std::string sgot = r.get_cstr();
          VCHECK(sgot == f.text, "nest-roundtrip:cstr", "get_cstr on the ", lvl, " (depth ", depth, ", ", x.ctor, ") at ", rel, " returned ", hex(sgot), " expected ", hex(f.text));
          VCHECK(r.where() == rel + f.len, "advance:get_cstr", "get_cstr moved the cursor from ", rel, " to ", r.where());
          break;
        }
        default: {
          std::string got;
          const char* how;
          switch ((f.act >> 3) & 3) {
            case 0: how = "read"; got = r.read(f.len); break;
            case 1: how = "readx"; got = r.readx(f.len); break;
            case 2: how = "getv"; got.assign(reinterpret_cast<const char*>(r.getv(f.len)), f.len); break;
            default:
              how = "peek+skip";
              got.assign(r.peek(f.len), f.len);
              r.skip(f.len);
              break;
          }
          VCHECK(got == f.text, "nest-roundtrip:block", how, "(", f.len, ") on the ", lvl, " (depth ", depth, ", ", x.ctor, ") at ", rel, " returned ", hex(got), " written ", hex(f.text));
          VCHECK(r.where() == rel + f.len, cat("advance:", how), how, " moved the cursor from ", rel, " to ", r.where());
          break;
        }
      }
    } catch (const std::out_of_range& ex) {
      VFAIL(cat("nest-in-range-read-throws:", lvl), "reading the field at ", rel, " (", f.len, " bytes, action ", act, ") of the ", lvl, " (depth ", depth, ", size ", r.size(), ", cursor ", r.where(), ", ", x.ctor, ") threw out_of_range: ", ex.what());
    }
    i++;
  }
}

static void run_nest(const Case& c) {
  if (c.n.size() < 5 || (c.n.size() - 1) % 4 != 0) throw std::logic_error("nest: malformed case");
  uint64_t flags = c.u(0);
  unsigned ctor = flags & 7;
  if (ctor > 5) throw std::logic_error("nest: bad constructor form");
  size_t nf = (c.n.size() - 1) / 4;
  std::vector<uint8_t> m;
  std::vector<NField> fields;
  StringWriter sw;
  for (size_t k = 0; k < nf; k++) {
    uint64_t kind = c.u(1 + 4 * k), value = c.u(2 + 4 * k), aux = c.u(3 + 4 * k);
    NField f{FK_SCALAR, m.size(), 0};
    f.act = static_cast<unsigned>(c.u(4 + 4 * k)) & 0x1FF;
    if (kind < 0x40) {
      f.type = kind & 15;
      f.form = (kind >> 4) & 3;
      if (!valid_scalar(f.type, f.form)) throw std::logic_error("nest: bad scalar kind");
      f.len = kWidth[f.type];
      f.bits = value;
      uint8_t enc[8];
      ref_encode(enc, f.len, form_is_big(f.form), value & width_mask(f.len));
      m.insert(m.end(), enc, enc + f.len);
      do_put(sw, f.type, f.form, value);
    } else if (kind == K_BLOCK || kind == K_CSTR) {
      f.text = c.str(aux);
      f.kind = kind == K_BLOCK ? FK_BLOCK : FK_CSTR;
      f.len = f.text.size();
      m.insert(m.end(), f.text.begin(), f.text.end());
      sw.write(f.text);
      if (kind == K_CSTR) {
        if (f.text.find('\0') != std::string::npos) throw std::logic_error("nest: NUL inside a C string");
        sw.put_u8(0);
        m.push_back(0);
        f.len++;
      }
    } else {
      throw std::logic_error("nest: unknown field kind");
    }
    fields.push_back(f);
  }
  std::string data = sw.str();
  VCHECK(data == bytes_of(m, 0, m.size()), "nest-layout", "str() is ", hex(data), ", independent encoder ", hex(bytes_of(m, 0, m.size())));

  size_t h = ctor >= 3 ? (flags >> 8) % (nf + 1) : 0;
  size_t off0 = h < nf ? fields[h].off : m.size();
  std::shared_ptr<std::string> shared;
  std::unique_ptr<StringReader> rp;
  switch (ctor) {
    case 0: rp.reset(new StringReader(data)); break;
    case 1: rp.reset(new StringReader(data.data(), data.size())); break;
    case 2:
      shared = std::make_shared<std::string>(data);
      rp.reset(new StringReader(shared));
      break;
    case 3: rp.reset(new StringReader(data, off0)); break;
    case 4: rp.reset(new StringReader(data.data(), data.size(), off0)); break;
    default:
      shared = std::make_shared<std::string>(data);
      rp.reset(new StringReader(shared, off0));
      break;
  }
  StringReader& r = *rp;
  ctx().cls(cat("nest:ctor-", kNestCtorName[ctor]));
  VCHECK(r.size() == m.size() && r.where() == off0 && r.remaining() == m.size() - off0, "reader-init", "fresh reader (", kNestCtorName[ctor], ", initial offset ", off0, "): size ", r.size(), " where ", r.where(), " remaining ", r.remaining());
  NestCtx x{m, fields, kNestCtorName[ctor]};
  nest_decode(x, r, 0, h, nf, 0, false);
  VCHECK(r.where() == m.size() && r.eof() && r.remaining() == 0, "cursor-end", "after reading every field the cursor is ", r.where(), " of ", m.size());
  if (shared) VCHECK(*shared == data, "nest-shared-string-changed", "the caller's string changed while it was read");
  if (x.sub_from_moved_parent || x.wide_get) ctx().nontrivial_case();
}

// ---------------------------------------------------------------- generators

static uint64_t gen_scalar_bits(unsigned type) {
  unsigned w = kWidth[type];
  uint64_t mask = width_mask(w);
  if (type == T_F32) {
    uint64_t r22 = vg::u64() & 0x3FFFFF;
    switch (vg::below(10)) {
      case 0: return 0x7FC00000ULL | r22 | (vg::coin() ? 0x80000000ULL : 0); // quiet NaN, random payload
      case 1: return 0x7F800000ULL | (r22 ? r22 : 1) | (vg::coin() ? 0x80000000ULL : 0); // signalling NaN
      case 2: return vg::pick<uint64_t>({0x00000000, 0x80000000, 0x7F800000, 0xFF800000}); // +-0, +-inf
      case 3: return (vg::u64() & 0x007FFFFF) | (vg::coin() ? 0x80000000ULL : 0); // denormal
      case 4: return vg::pick<uint64_t>({0x3F800000, 0xBF800000, 0x7F7FFFFF, 0x00800000, 0x00000001, 0x807FFFFF});
      default: return vg::u64() & mask;
    }
  }
  if (type == T_F64) {
    uint64_t r51 = vg::u64() & 0x7FFFFFFFFFFFFULL;
    uint64_t sign = vg::coin() ? 0x8000000000000000ULL : 0;
    switch (vg::below(10)) {
      case 0: return 0x7FF8000000000000ULL | r51 | sign;
      case 1: return 0x7FF0000000000000ULL | (r51 ? r51 : 1) | sign;
      case 2: return vg::pick<uint64_t>({0, 0x8000000000000000ULL, 0x7FF0000000000000ULL, 0xFFF0000000000000ULL});
      case 3: return (vg::u64() & 0x000FFFFFFFFFFFFFULL) | sign;
      case 4: return vg::pick<uint64_t>({0x3FF0000000000000ULL, 0xBFF0000000000000ULL, 0x7FEFFFFFFFFFFFFFULL, 0x0010000000000000ULL, 1ULL});
      default: return vg::u64();
    }
  }
  uint64_t top = 1ULL << (8 * w - 1);
  switch (vg::below(7)) {
    case 0: return vg::pick<uint64_t>({0, 1, mask, mask - 1, top, top - 1, top + 1, 0x7F, 0x80, 0xFF}) & mask;
    case 1: return 1ULL << vg::below(8 * w);
    case 2: return ~(1ULL << vg::below(8 * w)) & mask;
    case 3: return vg::pick<uint64_t>({0x8080808080808080ULL, 0x7F7F7F7F7F7F7F7FULL, 0x0102030405060708ULL, 0xF1E2D3C4B5A69788ULL, 0x00FF00FF00FF00FFULL, 0xFF00FF00FF00FF00ULL, 0x80000000000000FFULL}) & mask;
    case 4: return vg::interesting64() & mask;
    default: return vg::u64() & mask;
  }
}

static uint64_t gen_scalar_kind() {
  unsigned type = vg::below(T_COUNT);
  unsigned form = kWidth[type] == 1 ? F_NATIVE : vg::below(4);
  return type | (form << 4);
}

static Case gen_seq() {
  Case c("seq");
  c.N(vg::u64()).N(vg::below(4));
  uint64_t nops = 1 + vg::scaled(47);
  size_t size = 0;
  for (uint64_t k = 0; k < nops; k++) {
    uint64_t pick = vg::below(100);
    if (pick < 50) {
      uint64_t kind = gen_scalar_kind();
      c.N(kind).N(gen_scalar_bits(kind & 15)).N(0);
      size += kWidth[kind & 15];
    } else if (pick < 75) {
      uint64_t kind = gen_scalar_kind();
      unsigned w = kWidth[kind & 15];
      size_t off;
      switch (vg::below(4)) {
        case 0: off = size ? vg::below(size) : 0; break; // anywhere inside (may straddle)
        case 1: off = size >= w ? size - w + vg::below(w + 1) : vg::below(size + 1); break; // ending at or straddling the end
        case 2: off = size; break; // exactly at the end
        default: off = size + vg::below(65); break; // up to 64 past the end
      }
      c.N(kind | 0x40).N(gen_scalar_bits(kind & 15)).N(off);
      if (off + w > size) size = off + w;
    } else if (pick < 83) {
      std::string b = vg::bytes(vg::below(20));
      c.N(K_BLOCK).N(vg::below(4)).N(c.s.size());
      c.S(b);
      size += b.size();
    } else if (pick < 89) {
      std::string t = vg::bytes_from(std::string("ab\r\n\x01\xff z", 8), vg::below(12));
      c.N(K_CSTR).N(vg::below(4)).N(c.s.size());
      c.S(t);
      size += t.size() + 1;
    } else if (pick < 95) {
      std::string t = vg::bytes_from(std::string("ab\r\0\xff z", 7), vg::below(12));
      if (vg::chance(1, 3)) t += '\r';
      uint64_t v = vg::below(4);
      c.N(K_LINE).N(v).N(c.s.size());
      c.S(t);
      size += t.size() + ((v & 1) ? 2 : 1);
    } else {
      uint64_t n = vg::below(20);
      c.N(vg::coin() ? K_EXTBY : K_EXTTO).N(n).N(vg::pick<uint64_t>({0, 0, 0xFF, 0x41, 0x0A}));
      size += n;
    }
  }
  return c;
}

static Case gen_nest() {
  Case c("nest");
  uint64_t nf = 1 + vg::scaled(15);
  c.N(vg::below(6) | (vg::below(nf + 1) << 8));
  for (uint64_t k = 0; k < nf; k++) {
    uint64_t act;
    switch (vg::below(4)) {
      case 0: act = 1; break;
      case 1: act = 2; break;
      default: act = 0; break;
    }
    act |= vg::below(64) << 3; // form / type choice, number of fields covered, skip / peek bit
    if (vg::chance(1, 2)) act &= ~static_cast<uint64_t>(0xC0); // mostly 1..2 fields, sometimes up to 8
    uint64_t pick = vg::below(10);
    if (pick < 6) {
      uint64_t kind = gen_scalar_kind();
      c.N(kind).N(gen_scalar_bits(kind & 15)).N(0).N(act);
    } else if (pick < 8) {
      c.N(K_BLOCK).N(0).N(c.s.size()).N(act);
      c.S(vg::bytes(vg::below(13)));
    } else {
      c.N(K_CSTR).N(0).N(c.s.size()).N(act);
      c.S(vg::bytes_from(std::string("ab\r\n\x01\xff z", 8), vg::below(9)));
    }
  }
  return c;
}

static Case gen_g2448() {
  Case c("g2448");
  size_t len = 6 + vg::below(19);
  std::string b;
  switch (vg::below(4)) {
    case 0: b = vg::bytes_from(std::string("\x00\x01\x7f\x80\xff\xfe", 6), len); break;
    case 1: {
      // a single set bit walking through the buffer
      b.assign(len, '\0');
      b[vg::below(len)] = static_cast<char>(1 << vg::below(8));
      break;
    }
    default: b = vg::bytes(len); break;
  }
  c.S(b);
  return c;
}

static Case gen_bits() {
  Case c("bits");
  c.N(vg::below(4));
  uint64_t K = 1 + vg::scaled(11);
  std::vector<uint64_t> ops;
  std::string src;
  size_t total = 0;
  for (uint64_t k = 0; k < K; k++) {
    uint64_t pick = vg::below(10);
    if (pick < 7 || total == 0) {
      uint64_t n = vg::chance(1, 4) ? vg::below(70) : vg::below(20);
      ops.push_back((0ULL << 32) | n);
      uint64_t mode = vg::below(4);
      for (uint64_t j = 0; j < n; j++) src.push_back(static_cast<char>(mode == 0 ? 1 : mode == 1 ? 0 : vg::below(2)));
      total += n;
    } else if (pick < 9) {
      uint64_t to = vg::chance(1, 8) ? total + 1 + vg::below(8) : vg::below(total + 1);
      ops.push_back((1ULL << 32) | to);
      if (to <= total) total = to;
    } else {
      ops.push_back(2ULL << 32);
      total = 0;
    }
  }
  c.N(ops.size());
  for (uint64_t o : ops) c.N(o);
  c.S(src);
  uint64_t R = vg::scaled(12);
  for (uint64_t k = 0; k < R; k++) {
    switch (vg::below(8)) {
      case 0:
      case 1:
      case 2:
      case 3: {
        uint64_t size = vg::chance(1, 20) ? 65 + vg::below(100) : vg::chance(1, 4) ? vg::pick<uint64_t>({0, 1, 7, 8, 9, 63, 64}) : vg::below(65);
        c.N((3ULL << 32) | size | (vg::chance(3, 4) ? 0x100 : 0));
        break;
      }
      case 4:
      case 5: c.N((4ULL << 32) | (vg::below(total + 1) << 8) | vg::below(65)); break;
      case 6: c.N((5ULL << 32) | vg::below(20)); break;
      default: c.N((6ULL << 32) | vg::below(total + 2)); break;
    }
  }
  return c;
}

static unsigned big_acc_width(uint64_t acc) { return acc < 8 ? kWide[acc].w : kWidth[(acc - 8) / 2]; }

static Case gen_big() {
  Case c("big");
  uint64_t k = vg::pick<uint64_t>({1, 1, 1, 2, 3});
  uint64_t extra = vg::pick<uint64_t>({16, 64, 4096, 65536}) + vg::below(4096);
  c.N(k).N(extra).N(vg::u64());
  uint64_t nops = 1 + vg::below(8);
  for (uint64_t i = 0; i < nops; i++) {
    uint64_t pick = vg::below(10), acc, flags = vg::below(4);
    unsigned w;
    if (pick < 6) {
      acc = vg::below(8);
      w = big_acc_width(acc);
    } else if (pick < 9) {
      acc = 8 + vg::below(2 * T_COUNT);
      w = big_acc_width(acc);
    } else {
      acc = 100;
      w = 1 + static_cast<unsigned>(vg::below(16));
      flags |= static_cast<uint64_t>(w) << 8;
    }
    int64_t rel, last = static_cast<int64_t>(extra) - w;
    switch (vg::below(6)) {
      case 0: rel = 0; break; // exactly at a multiple of 2^32
      case 1: rel = static_cast<int64_t>(vg::below(8)); break;
      case 2: rel = -static_cast<int64_t>(1 + vg::below(8)); break; // straddling (or just below) the multiple of 2^32
      case 3: rel = last; break; // ending exactly at the end of the data
      case 4: rel = static_cast<int64_t>(vg::below(static_cast<uint64_t>(last) + 1)); break;
      default: rel = last - static_cast<int64_t>(vg::below(std::min<uint64_t>(16, static_cast<uint64_t>(last) + 1))); break;
    }
    c.N(acc).I(rel).N(flags);
  }
  return c;
}

static Case gen_alias() {
  Case c("alias");
  uint64_t build = vg::below(4), prefix;
  switch (vg::below(4)) {
    case 0: prefix = 1 + vg::below(40); break; // around the inline-storage limit of std::string
    case 1: prefix = static_cast<uint64_t>(static_cast<int64_t>(vg::pick<uint64_t>({15, 30, 60, 120, 240, 480, 960})) + vg::range(-8, 1)); break; // capacity steps of a doubling string
    case 2: prefix = 1 + vg::below(600); break;
    default: prefix = 1 + vg::scaled(2000); break;
  }
  c.N(build).N(prefix).N(vg::u64());
  size_t S = prefix;
  uint64_t nops = 1 + vg::below(4);
  for (uint64_t i = 0; i < nops; i++) {
    uint64_t pick = vg::below(100);
    uint64_t entry = pick < 45 ? A_PUT : pick < 60 ? A_WRITE_PTR : pick < 68 ? A_WRITE_SELF : pick < 85 ? A_PPUT : A_BUFFER;
    if (entry == A_PPUT && vg::chance(1, 4)) {
      // a positional write that GROWS the writer from an argument inside it (pput used to resize before it copied:
      // use-after-free, repaired in /repo)
      entry = A_PPUT_GROW;
    }
    if (entry == A_WRITE_SELF && S > 50000) entry = A_PUT;
    uint64_t tsel = vg::below(alias_types_fitting(S));
    uint64_t dst_sel = vg::below(1 << 20);
    size_t n = entry == A_WRITE_SELF ? S : entry == A_WRITE_PTR ? 1 + dst_sel % std::min<size_t>(S, 64) : kAliasTypeSize[tsel];
    uint64_t src_sel;
    switch (vg::below(5)) {
      case 0: src_sel = 0; break;
      case 1: src_sel = 3; break;
      case 2: src_sel = 8; break;
      case 3: src_sel = S - n; break;
      default: src_sel = vg::below(S - n + 1); break;
    }
    c.N(entry).N(tsel).N(src_sel).N(dst_sel);
    if (entry == A_PUT || entry == A_WRITE_PTR || entry == A_WRITE_SELF) S += n;
    if (entry == A_PPUT_GROW) S = (S - n + 1 + dst_sel % (n + 16)) + n; // the writer grows to the end of the positional write
  }
  return c;
}

// ---------------------------------------------------------------- enumerators

// every odd-width accessor (and, as controls, every ordinary one) at and around multiples of 2^32 and at the end of the data
static void enum_big(Enum& e) {
  uint64_t idx = 0;
  const uint64_t extra = 8192;
  for (uint64_t k = 1; k <= (e.thorough() ? 3u : 2u); k++) {
    for (uint64_t acc = 0; acc < 8 && !e.stop; acc++) {
      if (!e.mine(idx++)) continue;
      int64_t w = big_acc_width(acc);
      Case c("big");
      c.N(k).N(extra).N(0xB16 + 131 * acc + k);
      for (int64_t rel : {-w, -(w - 1), int64_t(-1), int64_t(0), int64_t(1), int64_t(5), int64_t(4093), int64_t(extra) - w})
        for (uint64_t flags : {0, 3, 1}) c.N(acc).I(rel).N(flags);
      e.exec(c);
    }
    for (unsigned half = 0; half < 2 && !e.stop; half++) {
      if (!e.mine(idx++)) continue;
      Case c("big");
      c.N(k).N(extra).N(0xC0 + half + k);
      for (uint64_t acc = 8 + half * T_COUNT; acc < 8 + (half + 1) * T_COUNT; acc++) {
        int64_t w = big_acc_width(acc);
        for (int64_t rel : {int64_t(-1), int64_t(0), int64_t(5), int64_t(extra) - w})
          for (uint64_t flags : {0, 3}) c.N(acc).I(rel).N(flags);
      }
      c.N(100).I(-3).N((16 << 8) | 3).N(100).I(int64_t(extra) - 16).N((16 << 8) | 1);
      e.exec(c);
    }
  }
  e.complete(cat("readers over 2^32 and 2*2^32", e.thorough() ? " and 3*2^32" : "", " + 8192 bytes: each of the eight 24/48-bit accessors as pget_*, get_*() and get_*(false) at offsets base-w, base-w+1, base-1, base, base+1, "
      "base+5, base+4093 and end-w; every ordinary accessor (u8..f64, b/l) as pget_* and get_* at base-1, base, base+5, end-w; raw blocks across base and at the end"));
}

// every prefix length 1..600: a value of every type referring into the writer's own buffer, appended through put<T>
static void enum_alias(Enum& e) {
  const unsigned nbuild = e.thorough() ? 4 : 2;
  for (uint64_t prefix = 1; prefix <= 600 && !e.stop; prefix++) {
    if (!e.mine(prefix)) continue;
    for (uint64_t build = 0; build < nbuild; build++) {
      unsigned nt = alias_types_fitting(prefix);
      for (unsigned t = 0; t < nt; t++) {
        size_t n = kAliasTypeSize[t];
        for (uint64_t src : {uint64_t(0), uint64_t(3), uint64_t(8), uint64_t(prefix - n)}) {
          if (src > prefix - n) continue;
          e.exec(Case("alias").N(build).N(prefix).N(prefix * 31 + t).N(A_PUT).N(t).N(src).N(0));
        }
        // positional: the first field copied over the last one, and a field onto itself
        e.exec(Case("alias").N(build).N(prefix).N(prefix * 37 + t).N(A_PPUT).N(t).N(0).N(prefix - n).N(A_PPUT).N(t).N(3).N(3).N(A_PUT).N(t).N(prefix - n).N(0));
      }
      e.exec(Case("alias").N(build).N(prefix).N(prefix * 41).N(A_WRITE_PTR).N(0).N(0).N(3).N(A_WRITE_PTR).N(0).N(prefix).N(prefix - 1));
      e.exec(Case("alias").N(build).N(prefix).N(prefix * 43).N(A_WRITE_SELF).N(0).N(0).N(0).N(A_PUT).N(nt - 1).N(prefix).N(0));
      e.exec(Case("alias").N(build).N(prefix).N(prefix * 47).N(A_BUFFER).N(nt - 1).N(prefix / 2).N(0).N(A_BUFFER).N(nt / 2).N(0).N(2 + 4 * (prefix - 1)).N(A_BUFFER).N(0).N(prefix - 1).N(3));
    }
  }
  e.complete(cat("every prefix length 1..600 x ", nbuild, " ways of building the prefix (one write / byte by byte", e.thorough() ? " / chunks of 7 / into spare capacity" : "",
      ") x every fitting type of {u8 s8 u16 be_u16 le_s16 packed3 u32 float be_u32 le_u32 be_float u64 double be_u64 le_s64 re_double packed12 struct40}: put<T> of a "
      "reference to offset 0, 3, 8 and size-sizeof(T) of the writer's own data; pput<T> of the first field over the last and of a field onto itself; write(ptr, n) and "
      "write(str()) of the writer's own data; BufferWriter put<T>/pput<T>/pwrite between disjoint places of its own buffer"));
}

// every constructor form x every place of one sub-reader / explicit-width get in three fixed layouts x every form of it
static void enum_nest(Enum& e) {
  uint64_t idx = 0;
  for (unsigned layout = 0; layout < 3 && !e.stop; layout++) {
    for (unsigned ctor = 0; ctor < 6; ctor++) {
      for (unsigned h = 0; h < (ctor >= 3 ? 3u : 1u); h++, idx++) {
        if (!e.mine(idx)) continue;
        const unsigned nf = 6;
        for (unsigned p = 0; p < nf; p++) {
          for (unsigned act = 1; act <= 2; act++) {
            for (unsigned rest = 0; rest < 64; rest++) {
              if (((rest >> 2) & 7) > 3) continue; // 1..4 fields covered
              for (unsigned inner = 0; inner < 3; inner++) {
                // inner: 0 nothing else; 1 a second sub-reader one field later (nested when the first covers it); 2 an explicit-width get one field later
                Case c("nest");
                c.N(ctor | (static_cast<uint64_t>(h) << 8));
                for (unsigned k = 0; k < nf; k++) {
                  uint64_t a = 0;
                  if (k == p) a = act | (rest << 3);
                  else if (k == p + 1 && inner == 1) a = 1 | (((rest + 1) & 3) << 3) | (1u << 5);
                  else if (k == p + 1 && inner == 2) a = 2 | ((rest & 3) << 3) | (1u << 5);
                  unsigned sel = (layout * 5 + k * 3) % 7;
                  switch (layout == 2 && k % 3 == 1 ? 7 + k % 2 : sel) {
                    case 0: c.N(T_U8).N(0x81 + k).N(0).N(a); break;
                    case 1: c.N(T_U16 | (F_BIG << 4)).N(0x8002 + k).N(0).N(a); break;
                    case 2: c.N(T_U32 | (F_LITTLE << 4)).N(0x80000003u + k).N(0).N(a); break;
                    case 3: c.N(T_S64 | (F_BIG << 4)).N(0x8000000000000004ULL + k).N(0).N(a); break;
                    case 4: c.N(T_S16 | (F_NATIVE << 4)).N(0xFF05 + k).N(0).N(a); break;
                    case 5: c.N(T_F32 | (F_REV << 4)).N(0x7FC00006u + k).N(0).N(a); break;
                    case 6: c.N(T_U64 | (F_LITTLE << 4)).N(0x0102030405060708ULL + k).N(0).N(a); break;
                    case 7: c.N(K_BLOCK).N(0).N(c.s.size()).N(a); c.S(std::string("\x01\x00\xfe", 3) + static_cast<char>('A' + k)); break;
                    default: c.N(K_CSTR).N(0).N(c.s.size()).N(a); c.S(std::string("s") + static_cast<char>('a' + k)); break;
                  }
                }
                e.exec(c);
              }
            }
          }
        }
      }
    }
  }
  e.complete("three layouts of six fields (scalars of every width and form; with blocks and C strings) x the six constructor forms (initial-offset forms starting at field 0, 1, 2) x a "
             "sub-reader (sub(o), sub(o,n), subx(o), subx(o,n); parent skips or re-reads) or a get<T>(advance, size) (T packed record/le_/be_/uint8_t, with and without a peek) "
             "at every field, covering 1..4 fields, alone or followed by a second sub-reader / explicit-width get at the next field (nested inside the first sub-reader when that covers it)");
}

// every value of every 16-bit (and 8-bit) accessor pair, appended and positional, plus boundary values of the wider ones
static void enum_seq(Enum& e) {
  uint64_t idx = 0;
  std::vector<uint64_t> kinds;
  for (unsigned type = 0; type < T_COUNT; type++)
    for (unsigned form = 0; form < 4; form++)
      if (valid_scalar(type, form)) kinds.push_back(type | (form << 4));
  // 8/16-bit: all values; appended in quick, appended + positional (past the end, with a zero gap) in thorough
  for (uint64_t kind : kinds) {
    unsigned w = kWidth[kind & 15];
    if (w > 2) continue;
    uint64_t count = 1ULL << (8 * w);
    for (uint64_t blk = 0; blk < count && !e.stop; blk += 256, idx++) {
      if (!e.mine(idx)) continue;
      for (uint64_t v = blk; v < blk + 256 && v < count; v++) {
        e.exec(Case("seq").N(v * 7).N(v & 3).N(kind).N(v).N(0));
        if (e.thorough()) e.exec(Case("seq").N(v * 7).N(v & 3).N(kind | 0x40).N(v).N(v % 5));
      }
    }
  }
  // wider types: boundary bit patterns
  for (uint64_t kind : kinds) {
    unsigned w = kWidth[kind & 15];
    if (w <= 2) continue;
    if (!e.mine(idx++)) continue;
    std::vector<uint64_t> vals = {0, width_mask(w)};
    for (unsigned b = 0; b < 8 * w; b++) {
      vals.push_back(1ULL << b);
      vals.push_back((1ULL << b) - 1);
      vals.push_back(~(1ULL << b) & width_mask(w));
    }
    for (unsigned k = 0; k < w; k++) vals.push_back(0x80ULL << (8 * k));
    vals.push_back(0x0102030405060708ULL & width_mask(w));
    vals.push_back(0xF1E2D3C4B5A69788ULL & width_mask(w));
    for (uint64_t v : vals) {
      e.exec(Case("seq").N(v).N(v & 3).N(kind).N(v).N(0));
      e.exec(Case("seq").N(v).N(v & 3).N(kind).N(~v).N(0).N(kind | 0x40).N(v).N(w + (v % 3)));
    }
  }
  // empty blocks / zero-length extensions / empty strings at the very end and in the middle, through every read form
  for (uint64_t seed = 0; seed < 64 && !e.stop; seed++) {
    if (!e.mine(idx++)) continue;
    e.exec(Case("seq").N(seed).N(seed & 3).N(K_BLOCK).N(seed & 1).N(0).S(""));
    e.exec(Case("seq").N(seed).N(seed & 3).N(T_U16 | (F_BIG << 4)).N(0x8001).N(0).N(K_BLOCK).N(seed & 1).N(0).S(""));
    e.exec(Case("seq").N(seed).N(seed & 3).N(K_BLOCK).N(0).N(0).N(T_U32 | (F_LITTLE << 4)).N(0x80000001).N(0).N(K_EXTBY).N(0).N(0).S(""));
    e.exec(Case("seq").N(seed).N(seed & 3).N(K_CSTR).N(0).N(0).N(K_LINE).N(seed & 1).N(0).S(""));
  }
  e.complete(cat("every value of the 8- and 16-bit put_* forms (u8 s8 u16 s16 x native/r/b/l) appended", e.thorough() ? " and written positionally past the end" : "",
      "; all single-bit, 2^k-1, inverted single-bit and byte-sign patterns of the 32/64-bit and float forms appended and positional; empty blocks, empty strings and zero-length extensions at the end of the buffer through every block read form"));
}

static void enum_g2448(Enum& e) {
  // all 2^24 three-byte buffers through the 24-bit accessors, hot loop, one journal entry per 2^16 block
  const uint64_t blocks = 256;
  for (uint64_t b = 0; b < blocks && !e.stop; b++) {
    if (!e.mine(b)) continue;
    uint8_t buf[3];
    buf[0] = static_cast<uint8_t>(b);
    buf[1] = buf[2] = 0;
    e.journal_block(Case("g2448").S(std::string(reinterpret_cast<char*>(buf), 3)));
    for (uint32_t lo = 0; lo < 65536; lo++) {
      buf[1] = static_cast<uint8_t>(lo >> 8);
      buf[2] = static_cast<uint8_t>(lo);
      StringReader r(buf, 3);
      bool ok = true;
      for (int k = 0; k < 4 && ok; k++) {
        uint64_t expect = ref_decode(buf, 3, kWide[k].big, kWide[k].sgn);
        ok = (wide_pget(r, k, 0) == expect);
        r.go(0);
        ok = ok && (wide_get(r, k, true) == expect) && (r.where() == 3);
      }
      if (!ok) {
        e.exec_light(Case("g2448").S(std::string(reinterpret_cast<char*>(buf), 3)));
        break;
      }
    }
    e.x.count(65536);
  }
  // six-byte buffers over {00,01,7F,80,FF}^6 through all eight accessors
  static const uint8_t alpha[5] = {0x00, 0x01, 0x7F, 0x80, 0xFF};
  for (uint64_t code = 0; code < 15625 && !e.stop; code++) {
    if (!e.mine(code / 25)) continue;
    std::string b(6, '\0');
    uint64_t t = code;
    for (int k = 0; k < 6; k++) {
      b[k] = static_cast<char>(alpha[t % 5]);
      t /= 5;
    }
    e.exec(Case("g2448").S(b));
  }
  e.complete("all 2^24 three-byte buffers through get/pget_{u,s}24{b,l}; all six-byte buffers over {00,01,7F,80,FF} through the 24- and 48-bit accessors");
}

static void enum_bits(Enum& e) {
  // every bit string of length 0..12: write, read back in one piece and bit by bit; truncate at every length
  uint64_t idx = 0;
  for (unsigned len = 0; len <= 12 && !e.stop; len++) {
    for (uint64_t v = 0; v < (1ULL << len); v++, idx++) {
      if (!e.mine(idx / 64)) continue;
      std::string src(len, '\0');
      for (unsigned k = 0; k < len; k++) src[k] = static_cast<char>((v >> k) & 1);
      Case c("bits");
      c.N(v & 3).N(1).N(len);
      c.S(src);
      c.N((3ULL << 32) | 0x100 | len).N((6ULL << 32) | 0).N((4ULL << 32) | ((len / 2) << 8) | 64);
      e.exec(c);
      if (len >= 1 && (v & 1)) {
        // write all, truncate to t, write the complement of the dropped tail
        unsigned t = static_cast<unsigned>(v % (len + 1));
        Case d("bits");
        std::string s2 = src;
        for (unsigned k = t; k < len; k++) s2.push_back(static_cast<char>(1 - src[k]));
        d.N(v & 3).N(3).N(len).N((1ULL << 32) | t).N(len - t);
        d.S(s2);
        d.N((3ULL << 32) | 0x100 | len);
        e.exec(d);
      }
    }
  }
  e.complete("every bit string of length 0..12 written and read back; for half of them a truncate to a shorter length followed by rewriting the complemented tail");
}

int main(int argc, char** argv) {
  std::vector<SubCheck> checks;
  checks.push_back({"seq", run_seq, gen_seq, 160000, 2000000, 100, enum_seq});
  checks.push_back({"g2448", run_g2448, gen_g2448, 120000, 400000, 100, enum_g2448});
  checks.push_back({"bits", run_bits, gen_bits, 120000, 600000, 100, enum_bits});
  checks.push_back({"alias", run_alias, gen_alias, 60000, 400000, 100, enum_alias});
  checks.push_back({"big", run_big, gen_big, 240, 2400, 100, enum_big});
  checks.push_back({"nest", run_nest, gen_nest, 80000, 600000, 100, enum_nest});
  return main_(argc, argv, checks);
}
