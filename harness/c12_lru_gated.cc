// C12, gated build: the same harness with LRUMap::insert(const K&, const V&) and LRUMap::at() const exercised.
// Built and run by oracle/c12_gated.py after its compile probe succeeded.
#define C12_GATED 1
#include "c12_lru.cc"
