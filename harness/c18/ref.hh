// C18 reference computations, written from the property statement: exact integer / decimal arithmetic only
// (no floating point anywhere in the oracle), an own days-to-civil conversion, an own duration-text evaluator.
#pragma once

#include <stdint.h>
#include <stdio.h>
#include <string.h>

#include <string>

namespace c18 {

typedef unsigned __int128 u128;

// ---------------------------------------------------------------- calendar

struct Civil {
  int64_t year;
  unsigned month, day;
};

// proleptic Gregorian date of the day number z (days since 1970-01-01), by era arithmetic
inline Civil civil_from_days(int64_t z) {
  z += 719468; // shift the epoch to 0000-03-01
  int64_t era = (z >= 0 ? z : z - 146096) / 146097;
  uint64_t doe = static_cast<uint64_t>(z - era * 146097); // [0, 146096]
  uint64_t yoe = (doe - doe / 1460 + doe / 36524 - doe / 146096) / 365; // [0, 399]
  int64_t y = static_cast<int64_t>(yoe) + era * 400;
  uint64_t doy = doe - (365 * yoe + yoe / 4 - yoe / 100); // [0, 365]
  uint64_t mp = (5 * doy + 2) / 153; // [0, 11], March = 0
  unsigned d = static_cast<unsigned>(doy - (153 * mp + 2) / 5 + 1);
  unsigned m = static_cast<unsigned>(mp < 10 ? mp + 3 : mp - 9);
  return Civil{y + (m <= 2), m, d};
}

inline bool is_leap(int64_t y) { return (y % 4 == 0) && ((y % 100 != 0) || (y % 400 == 0)); }

// an independent second route: count days year by year / month by month (used to cross-check the era arithmetic)
inline int64_t days_from_civil_slow(int64_t y, unsigned m, unsigned d) {
  static const unsigned mdays[12] = {31, 28, 31, 30, 31, 30, 31, 31, 30, 31, 30, 31};
  int64_t yy = y - 1970;
  // leap years in [1970, y)
  auto leaps_before = [](int64_t year) { return (year - 1) / 4 - (year - 1) / 100 + (year - 1) / 400; };
  int64_t days = yy * 365 + (leaps_before(y) - leaps_before(1970));
  for (unsigned k = 1; k < m; k++) days += mdays[k - 1] + ((k == 2 && is_leap(y)) ? 1 : 0);
  return days + (d - 1);
}

static const uint64_t kUsecPerDay = 86400ULL * 1000000ULL;
static const int64_t kLastDay = 2932896; // 9999-12-31

// "YYYY-MM-DD HH:MM:SS.uuuuuu" of a timestamp in microseconds since the epoch (UTC); returns the length
inline size_t ref_format_time(uint64_t t, char* buf, size_t cap) {
  uint64_t days = t / kUsecPerDay, rem = t % kUsecPerDay;
  Civil c = civil_from_days(static_cast<int64_t>(days));
  uint64_t us = rem % 1000000, secs = rem / 1000000;
  int n = snprintf(buf, cap, "%04lld-%02u-%02u %02u:%02u:%02u.%06u", static_cast<long long>(c.year), c.month, c.day, static_cast<unsigned>(secs / 3600),
      static_cast<unsigned>((secs / 60) % 60), static_cast<unsigned>(secs % 60), static_cast<unsigned>(us));
  return n < 0 ? 0 : static_cast<size_t>(n);
}

// ---------------------------------------------------------------- duration text

enum DurationVerdict {
  DUR_OK = 0,
  DUR_SHAPE, // not [d:][h:][m:]s[.f]
  DUR_PADDING, // an inner field (or the seconds after a field) has fewer than two digits / is blank-padded
  DUR_FIELD_RANGE, // inner hours > 23, inner minutes > 59, seconds > 60, or more than two digits in such a field
  DUR_PRECISION, // number of fraction digits differs from the requested precision
  DUR_VALUE, // the text's exact value is not the input rounded at the printed precision
};

inline const char* verdict_name(int v) {
  static const char* n[] = {"ok", "duration-shape", "duration-padding", "duration-field-range", "duration-precision", "duration-value"};
  return n[v];
}

// Evaluates the text exactly (in microseconds scaled by the printed precision) and compares with the input.
// precision: -1 (default, whatever is printed) or 0..6. No allocation; usable in a hot loop.
inline int check_duration(uint64_t usecs, int precision, const char* s, size_t len) {
  size_t start[4];
  size_t nf = 1;
  start[0] = 0;
  for (size_t i = 0; i < len; i++) {
    if (s[i] == ':') {
      if (nf == 4) return DUR_SHAPE;
      start[nf++] = i + 1;
    }
  }
  u128 whole_secs = 0;
  static const uint64_t mult[4] = {1, 60, 3600, 86400};
  for (size_t k = 0; k + 1 < nf; k++) {
    size_t b = start[k], e = start[k + 1] - 1;
    if (e <= b) return DUR_SHAPE;
    size_t flen = e - b;
    if (flen > 20) return DUR_SHAPE;
    u128 val = 0;
    for (size_t i = b; i < e; i++) {
      if (s[i] == ' ' && k > 0) return DUR_PADDING;
      if (s[i] < '0' || s[i] > '9') return DUR_SHAPE;
      val = val * 10 + static_cast<unsigned>(s[i] - '0');
    }
    size_t role = nf - 1 - k; // 1 = minutes, 2 = hours, 3 = days
    if (k > 0) {
      if (flen < 2) return DUR_PADDING;
      if (flen > 2 || (role == 1 && val > 59) || (role == 2 && val > 23)) return DUR_FIELD_RANGE;
    }
    whole_secs += val * mult[role];
  }
  // seconds: digits [. digits]
  size_t b = start[nf - 1];
  size_t i = b;
  u128 sval = 0;
  while (i < len && s[i] >= '0' && s[i] <= '9') {
    sval = sval * 10 + static_cast<unsigned>(s[i] - '0');
    i++;
    if (i - b > 20) return DUR_SHAPE;
  }
  size_t int_digits = i - b;
  if (int_digits == 0) return (i < len && s[i] == ' ') ? DUR_PADDING : DUR_SHAPE;
  size_t fd = 0;
  uint64_t frac = 0;
  if (i < len) {
    if (s[i] != '.') return DUR_SHAPE;
    i++;
    while (i < len && s[i] >= '0' && s[i] <= '9') {
      if (fd >= 6) return DUR_PRECISION;
      frac = frac * 10 + static_cast<unsigned>(s[i] - '0');
      fd++;
      i++;
    }
    if (i != len || fd == 0) return DUR_SHAPE;
  }
  if (nf > 1) {
    if (int_digits < 2) return DUR_PADDING;
    if (int_digits > 2 || sval > 60) return DUR_FIELD_RANGE;
  }
  if (precision >= 0 && fd != static_cast<size_t>(precision)) return DUR_PRECISION;
  static const uint64_t pow10[7] = {1, 10, 100, 1000, 10000, 100000, 1000000};
  uint64_t unit = pow10[6 - fd]; // microseconds per unit of the last printed digit
  u128 text_us = (whole_secs + sval) * 1000000 + static_cast<u128>(frac) * unit;
  u128 in = usecs;
  u128 diff = text_us > in ? text_us - in : in - text_us;
  if (2 * diff > unit) return DUR_VALUE;
  return DUR_OK;
}

} // namespace c18
