// sched.hh - controlled scheduler for C16.
//
// Tools.hh is compiled with the tokens `atomic` and `thread` re-targeted (by macro, see c16_parallel.cc) to
// the shims below, so the *real template code* of parallel_range* runs on top of a scheduler that owns the
// interleaving: logical threads are fibers of which exactly one runs at a time; every atomic
// operation, thread creation, join and thread exit is a scheduling point at which the next thread to run is
// taken from the schedule under test. A schedule is a list of choices; a run is a pure function of
// (configuration, schedule), so schedules can be enumerated (stateless DFS), generated (rapidcheck) and
// replayed.
#pragma once
#include <stdint.h>
#include <stdio.h>
#include <stdlib.h>
#include <sys/mman.h>
#include <ucontext.h>
#include <unistd.h>

#include <atomic>
#include <condition_variable>
#include <functional>
#include <memory>
#include <tuple>
#include <vector>

#if defined(__has_feature)
#if __has_feature(address_sanitizer)
#define VSCHED_ASAN 1
#endif
#endif
#ifdef VSCHED_ASAN
#include <sanitizer/common_interface_defs.h>
#endif

namespace vsched {

// Logical threads are ucontext fibers on one OS thread (about 1 us per switch, which is what makes
// exhaustive enumeration of 10^5..10^6 schedules affordable). AddressSanitizer is told about every stack
// switch through its fiber API, so stack checking stays exact.
struct LThread {
  bool finished = false;
  int waiting_for = -1; // logical id this thread is blocked on (join), -1 = none
  const bool* blocked_while = nullptr; // blocked as long as *blocked_while is true (mutex held by another thread, condition not notified)
  ucontext_t ctx;
  char* stack = nullptr; // nullptr for the calling thread (id 0)
  const void* stack_bottom = nullptr; // for ASan
  size_t stack_size = 0;
  std::function<void()> body;
};

static const size_t kStackSize = 256 * 1024;

struct Scheduler {
  int running = 0; // logical id holding the baton
  std::vector<std::unique_ptr<LThread>> threads; // [0] = the calling thread
  std::vector<char*> stack_pool;

  // schedule under test
  int mode = 0; // 0: choices are indices into the runnable list; 1: choices are preferred logical thread ids
  std::vector<uint32_t> schedule;
  // context bound (CHESS style): at most this many preemptions, i.e. switches away from a thread that could
  // have continued. Switches at thread exit, at a blocking join and right after creating a thread are free.
  uint32_t preemption_bound = UINT32_MAX;
  uint32_t preemptions = 0;
  bool at_spawn = false;
  // beyond the end of a mode-1 schedule: false = keep running the current thread; true = rotate over the runnable
  // threads (needed when a range is too long for one thread to be allowed to monopolise the processor)
  bool fair_tail = false;
  // what happened
  size_t decisions = 0; // number of choice points (>= 2 runnable) met
  std::vector<uint32_t> taken; // choice index taken at each choice point
  std::vector<uint32_t> branching; // number of alternatives at each choice point
  uint64_t points = 0; // scheduling points (including forced ones)
  uint64_t switches = 0; // context switches
  uint64_t atomic_ops = 0;
  uint64_t point_limit = 2000000;
  bool active = false;

  char* get_stack() {
    if (!stack_pool.empty()) {
      char* s = stack_pool.back();
      stack_pool.pop_back();
      return s;
    }
    void* m = mmap(nullptr, kStackSize, PROT_READ | PROT_WRITE, MAP_PRIVATE | MAP_ANONYMOUS, -1, 0);
    if (m == MAP_FAILED) abort_run("cannot allocate a fiber stack");
    return static_cast<char*>(m);
  }

  void reset(int mode_, const std::vector<uint32_t>& sched, uint32_t bound = UINT32_MAX) {
    preemption_bound = bound;
    preemptions = 0;
    at_spawn = false;
    fair_tail = false;
    // any thread left over from a previous (buggy) run has been drained by finish()
    for (auto& t : threads)
      if (t->stack) stack_pool.push_back(t->stack);
    threads.clear();
    threads.emplace_back(new LThread());
    running = 0;
    mode = mode_;
    schedule = sched;
    decisions = 0;
    taken.clear();
    branching.clear();
    points = switches = atomic_ops = 0;
    active = true;
  }

  bool runnable(int id) const {
    const LThread& t = *threads[id];
    if (t.finished) return false;
    if (t.waiting_for >= 0 && !threads[t.waiting_for]->finished) return false;
    if (t.blocked_while && *t.blocked_while) return false;
    return true;
  }

  [[noreturn]] void abort_run(const char* why) {
    fprintf(stderr, "\nVERIF-ABORT: %s\n", why);
    fflush(stderr);
    _exit(77);
  }

  // pick the next thread to run. `self` is the deciding thread (may be not runnable).
  int pick(int self) {
    bool spawn_point = at_spawn;
    at_spawn = false;
    int r[16];
    size_t nr = 0;
    for (size_t i = 0; i < threads.size() && nr < 16; i++)
      if (runnable(static_cast<int>(i))) r[nr++] = static_cast<int>(i);
    if (nr == 0) abort_run("deadlock: no runnable thread");
    if (++points > point_limit) abort_run("step-limit: more than 2000000 scheduling points");
    if (nr == 1) return r[0];
    bool self_runnable = false;
    for (size_t k = 0; k < nr; k++) self_runnable |= (r[k] == self);
    bool costs = self_runnable && !spawn_point; // choosing another thread here would be a preemption
    if (costs && preemptions >= preemption_bound) return self; // budget used up: not a choice point
    uint32_t idx;
    if (mode == 0) {
      idx = decisions < schedule.size() ? schedule[decisions] : 0;
      if (idx >= nr) idx = idx % nr;
    } else {
      // preferred logical thread id; beyond the schedule: keep running the current thread when possible
      idx = UINT32_MAX;
      if (decisions < schedule.size()) {
        uint32_t pref = schedule[decisions];
        for (size_t k = 0; k < nr; k++)
          if (static_cast<uint32_t>(r[k]) == pref) idx = k;
        if (idx == UINT32_MAX) idx = pref % nr;
      } else if (fair_tail) {
        idx = static_cast<uint32_t>(decisions % nr);
      } else {
        idx = 0;
        for (size_t k = 0; k < nr; k++)
          if (r[k] == self) idx = k;
      }
    }
    taken.push_back(idx);
    branching.push_back(static_cast<uint32_t>(nr));
    decisions++;
    if (costs && r[idx] != self) preemptions++;
    return r[idx];
  }

  // transfer control from fiber `self` to fiber `next`; returns when `self` is resumed.
  // dying: `self` has finished and will never run again.
  void switch_to(int self, int next, bool dying = false) {
    switches++;
    running = next;
    LThread* from = threads[self].get();
    LThread* to = threads[next].get();
#ifdef VSCHED_ASAN
    void* fake = nullptr;
    __sanitizer_start_switch_fiber(dying ? nullptr : &fake, to->stack_bottom, to->stack_size);
#endif
    swapcontext(&from->ctx, &to->ctx);
#ifdef VSCHED_ASAN
    const void* ob;
    size_t os;
    __sanitizer_finish_switch_fiber(fake, &ob, &os);
#endif
  }

  // usleep() inside the code under test (the progress loop of parallel_range): the sleeper hands the processor to
  // some other runnable thread if there is one (a choice point when several are), so a polling loop cannot spin
  // forever and the schedule tree stays finite. Never counts as a preemption.
  void sleep_yield() {
    if (!active) return;
    int self = running;
    int r[16];
    size_t nr = 0;
    for (size_t i = 0; i < threads.size() && nr < 16; i++)
      if (static_cast<int>(i) != self && runnable(static_cast<int>(i))) r[nr++] = static_cast<int>(i);
    if (nr == 0) return;
    if (++points > point_limit) abort_run("step-limit: more than 2000000 scheduling points");
    uint32_t idx = 0;
    if (nr > 1) {
      if (mode == 0) {
        idx = decisions < schedule.size() ? schedule[decisions] % nr : 0;
      } else {
        idx = decisions < schedule.size() ? schedule[decisions] % nr : 0;
      }
      taken.push_back(idx);
      branching.push_back(static_cast<uint32_t>(nr));
      decisions++;
    }
    switch_to(self, r[idx]);
  }

  // scheduling point of the running thread `self`
  void yield_point(int self) {
    int next = pick(self);
    if (next != self) switch_to(self, next);
  }

  static void trampoline(int id);

  int spawn(std::function<void()> body) {
    int self = running;
    int id = static_cast<int>(threads.size());
    if (id >= 15) abort_run("too many threads");
    threads.emplace_back(new LThread());
    LThread* t = threads[id].get();
    t->body = std::move(body);
    t->stack = get_stack();
    t->stack_bottom = t->stack;
    t->stack_size = kStackSize;
    getcontext(&t->ctx);
    t->ctx.uc_stack.ss_sp = t->stack;
    t->ctx.uc_stack.ss_size = kStackSize;
    t->ctx.uc_link = nullptr;
    makecontext(&t->ctx, reinterpret_cast<void (*)()>(&Scheduler::trampoline), 1, id);
    at_spawn = true;
    yield_point(self); // the new worker may run at once
    return id;
  }

  void join(int target) {
    int self = running;
    threads[self]->waiting_for = target;
    int next = pick(self);
    if (next != self) switch_to(self, next);
    threads[self]->waiting_for = -1;
  }

  // block the running thread until *flag is false (a free scheduling decision, like a blocking join). When nothing else can run
  // pick() reports the deadlock.
  void block_while(const bool* flag) {
    int self = running;
    threads[self]->blocked_while = flag;
    int next = pick(self);
    if (next != self) switch_to(self, next);
    threads[self]->blocked_while = nullptr;
  }

  // after the call under test returned: were all workers finished? then drain whatever is left so the
  // process stays clean (a buggy implementation that does not join must not poison later runs).
  bool finish() {
    bool all_done = true;
    for (size_t i = 1; i < threads.size(); i++)
      if (!threads[i]->finished) all_done = false;
    for (size_t i = 1; i < threads.size(); i++) {
      if (!threads[i]->finished) join(static_cast<int>(i));
    }
    active = false;
    return all_done;
  }
};

inline Scheduler& S() {
  static Scheduler s;
  return s;
}

inline void Scheduler::trampoline(int id) {
  Scheduler& s = S();
#ifdef VSCHED_ASAN
  {
    // first entry into this fiber: complete the switch and learn the bounds of the stack we came from
    const void* ob;
    size_t os;
    __sanitizer_finish_switch_fiber(nullptr, &ob, &os);
    if (s.threads[0]->stack_bottom == nullptr && s.threads[0]->stack == nullptr) {
      // the first fiber is always entered from the calling thread (id 0) or from a fiber created by it;
      // only id 0 lacks recorded bounds, and it is the only possible predecessor while they are missing
      s.threads[0]->stack_bottom = ob;
      s.threads[0]->stack_size = os;
    }
  }
#endif
  s.threads[id]->body();
  s.threads[id]->body = nullptr;
  s.threads[id]->finished = true;
  int next = s.pick(id);
  s.switch_to(id, next, true);
  s.abort_run("resumed a finished fiber");
}

// flags the harness reads after a run
struct Flags {
  bool destroyed_joinable = false; // a thread object was destroyed without join (std::terminate in real life)
  bool double_join = false;
};
inline Flags& F() {
  static Flags f;
  return f;
}

// ---------------------------------------------------------------- shims

template <typename T>
class verif_shim_atomic {
public:
  verif_shim_atomic() : v() {}
  verif_shim_atomic(T x) : v(x) {}
  verif_shim_atomic(const verif_shim_atomic&) = delete;
  verif_shim_atomic& operator=(const verif_shim_atomic&) = delete;

  // Every operation takes the optional std::memory_order arguments of std::atomic. They are accepted and ignored: the
  // controlled scheduler explores sequentially consistent interleavings only (behaviour that exists only under a weaker
  // ordering is left to the ThreadSanitizer stage, which runs the real std::atomic on real threads).
  using MO = std::memory_order;
  T load(MO = std::memory_order_seq_cst) const {
    pt();
    return v;
  }
  void store(T x, MO = std::memory_order_seq_cst) {
    pt();
    v = x;
  }
  T operator=(T x) {
    pt();
    v = x;
    return x;
  }
  operator T() const {
    pt();
    return v;
  }
  T fetch_add(T d, MO = std::memory_order_seq_cst) {
    pt();
    T old = v;
    v = static_cast<T>(v + d);
    return old;
  }
  T fetch_sub(T d, MO = std::memory_order_seq_cst) {
    pt();
    T old = v;
    v = static_cast<T>(v - d);
    return old;
  }
  T fetch_or(T d, MO = std::memory_order_seq_cst) {
    pt();
    T old = v;
    v = static_cast<T>(v | d);
    return old;
  }
  T fetch_and(T d, MO = std::memory_order_seq_cst) {
    pt();
    T old = v;
    v = static_cast<T>(v & d);
    return old;
  }
  T fetch_xor(T d, MO = std::memory_order_seq_cst) {
    pt();
    T old = v;
    v = static_cast<T>(v ^ d);
    return old;
  }
  T exchange(T x, MO = std::memory_order_seq_cst) {
    pt();
    T old = v;
    v = x;
    return old;
  }
  bool compare_exchange_weak(T& expected, T desired, MO = std::memory_order_seq_cst) { return compare_exchange_strong(expected, desired); }
  bool compare_exchange_weak(T& expected, T desired, MO, MO) { return compare_exchange_strong(expected, desired); }
  bool compare_exchange_strong(T& expected, T desired, MO, MO) { return compare_exchange_strong(expected, desired); }
  bool compare_exchange_strong(T& expected, T desired, MO = std::memory_order_seq_cst) {
    pt();
    if (v == expected) {
      v = desired;
      return true;
    }
    expected = v;
    return false;
  }
  bool is_lock_free() const { return true; }
  T operator++() { return static_cast<T>(fetch_add(1) + 1); }
  T operator++(int) { return fetch_add(1); }
  T operator+=(T d) { return static_cast<T>(fetch_add(d) + d); }
  T operator--() { return static_cast<T>(fetch_sub(1) - 1); }
  T operator--(int) { return fetch_sub(1); }
  T operator-=(T d) { return static_cast<T>(fetch_sub(d) - d); }

private:
  static void pt() {
    Scheduler& s = S();
    if (!s.active) return;
    s.atomic_ops++;
    s.yield_point(s.running);
  }
  T v;
};

class verif_shim_thread {
public:
  verif_shim_thread() : id(-1) {}
  template <typename Fn, typename... A>
  explicit verif_shim_thread(Fn&& f, A&&... a) {
    auto fn = std::decay_t<Fn>(std::forward<Fn>(f));
    auto tup = std::make_tuple(std::decay_t<A>(std::forward<A>(a))...);
    id = S().spawn([fn, tup]() mutable { std::apply(fn, tup); });
  }
  verif_shim_thread(verif_shim_thread&& o) noexcept : id(o.id) { o.id = -1; }
  verif_shim_thread& operator=(verif_shim_thread&& o) noexcept {
    if (id >= 0) F().destroyed_joinable = true;
    id = o.id;
    o.id = -1;
    return *this;
  }
  verif_shim_thread(const verif_shim_thread&) = delete;
  ~verif_shim_thread() {
    if (id >= 0) F().destroyed_joinable = true;
  }
  bool joinable() const { return id >= 0; }
  void join() {
    if (id < 0) {
      F().double_join = true;
      return;
    }
    S().join(id);
    id = -1;
  }
  void detach() { id = -1; }
  static unsigned hardware_concurrency() { return 4; }

private:
  int id;
};

// std::mutex / std::condition_variable / std::this_thread for code under test that synchronises with them instead of (or next
// to) atomics. Blocking is real blocking in the scheduler (a thread waiting for a held mutex or an un-notified condition is
// not runnable; when nothing is runnable the run is reported as a deadlock). Waits with a timeout are modelled as
// "hand the processor to somebody else once, then time out unless notified"; spurious wake-ups are not generated (they
// are permitted, not required).
class verif_shim_mutex {
public:
  verif_shim_mutex() = default;
  verif_shim_mutex(const verif_shim_mutex&) = delete;
  verif_shim_mutex& operator=(const verif_shim_mutex&) = delete;
  void lock() {
    Scheduler& s = S();
    if (s.active) {
      s.yield_point(s.running);
      while (held) s.block_while(&held);
    }
    held = true;
  }
  bool try_lock() {
    Scheduler& s = S();
    if (s.active) s.yield_point(s.running);
    if (held) return false;
    held = true;
    return true;
  }
  void unlock() { held = false; }

private:
  bool held = false;
};

class verif_shim_condition_variable {
public:
  verif_shim_condition_variable() = default;
  verif_shim_condition_variable(const verif_shim_condition_variable&) = delete;
  verif_shim_condition_variable& operator=(const verif_shim_condition_variable&) = delete;

  void notify_one() {
    for (auto* w : waiters)
      if (w->waiting) {
        w->waiting = false;
        break;
      }
    point();
  }
  void notify_all() {
    for (auto* w : waiters) w->waiting = false;
    point();
  }
  template <typename Lock>
  void wait(Lock& lk) {
    Scheduler& s = S();
    Waiter w;
    waiters.push_back(&w);
    lk.unlock();
    if (s.active) {
      while (w.waiting) s.block_while(&w.waiting);
    }
    remove(&w);
    lk.lock();
  }
  template <typename Lock, typename Pred>
  void wait(Lock& lk, Pred pred) {
    while (!pred()) wait(lk);
  }
  template <typename Lock, typename D>
  std::cv_status wait_for(Lock& lk, const D&) {
    Scheduler& s = S();
    Waiter w;
    waiters.push_back(&w);
    lk.unlock();
    s.sleep_yield();
    bool notified = !w.waiting;
    remove(&w);
    lk.lock();
    return notified ? std::cv_status::no_timeout : std::cv_status::timeout;
  }
  template <typename Lock, typename D, typename Pred>
  bool wait_for(Lock& lk, const D& d, Pred pred) {
    while (!pred())
      if (wait_for(lk, d) == std::cv_status::timeout) return pred();
    return true;
  }
  template <typename Lock, typename TP>
  std::cv_status wait_until(Lock& lk, const TP& tp) {
    return wait_for(lk, tp);
  }
  template <typename Lock, typename TP, typename Pred>
  bool wait_until(Lock& lk, const TP& tp, Pred pred) {
    return wait_for(lk, tp, pred);
  }

private:
  struct Waiter {
    bool waiting = true;
  };
  void remove(Waiter* w) {
    for (size_t i = 0; i < waiters.size(); i++)
      if (waiters[i] == w) {
        waiters.erase(waiters.begin() + i);
        return;
      }
  }
  static void point() {
    Scheduler& s = S();
    if (s.active) s.yield_point(s.running);
  }
  std::vector<Waiter*> waiters;
};

namespace verif_shim_this_thread {
template <typename D>
inline void sleep_for(const D&) {
  S().sleep_yield();
}
template <typename TP>
inline void sleep_until(const TP&) {
  S().sleep_yield();
}
inline void yield() { S().sleep_yield(); }
inline int get_id() { return S().running; }
} // namespace verif_shim_this_thread

} // namespace vsched
