// C17 - command-line arguments are classified and type-checked exactly.
//
// Subchecks (signature prefix = subcheck name):
//   classify   token list -> positional / --name[=value] / flag group, in order, exactly once (three constructors)
//   cmdline    one command-line string is tokenised like a shell would (portable quoting subset), then classified
//   int_sweep  every integer of a window in decimal / 0x-hex / 0-octal against the 8/16/32-bit getters x 4 IntFormats
//   int_edge   boundary numerals of every width (around 2^7..2^64, 2^64-2^k), signs, blanks, garbage; random numerals
//   float      floating-point literals from the strtod grammar + garbage, float and double getters
//   absent     missing arguments: out_of_range, the supplied default, empty get_multi
//   unused     every subset of getters before assert_none_unused
//   seq        sequences of getter calls on ONE object: every call answers as it would on a fresh object
#include <math.h>

#include <phosg/Arguments.hh>
#include <phosg/Strings.hh>

#include "c17/ref.hh"
#include "verif.hh"

using namespace verif;
using c17::i128;
using c17::u128;
typedef phosg::Arguments Args;

// ---------------------------------------------------------------- helpers

static const char* kTypeNames[8] = {"u8", "u16", "u32", "u64", "s8", "s16", "s32", "s64"};
static const char* kFmtNames[4] = {"default", "hex", "decimal", "octal"};
static const int kFmtBase[4] = {0, 16, 10, 8};

template <typename F>
static void with_type(uint64_t code, F&& f) {
  switch (code) {
    case 0: f(uint8_t{}); break;
    case 1: f(uint16_t{}); break;
    case 2: f(uint32_t{}); break;
    case 3: f(uint64_t{}); break;
    case 4: f(int8_t{}); break;
    case 5: f(int16_t{}); break;
    case 6: f(int32_t{}); break;
    case 7: f(int64_t{}); break;
    default: throw std::logic_error("bad type code");
  }
}

// runs f and names what it threw ("" = returned normally)
template <typename F>
static std::string thrown(F&& f) {
  try {
    f();
    return "";
  } catch (const std::invalid_argument&) {
    return "invalid_argument";
  } catch (const std::out_of_range&) {
    return "out_of_range";
  } catch (const Fail&) {
    throw;
  } catch (const std::exception& e) {
    return cat("other:", typeid(e).name());
  }
}

static std::string show(const std::string& s) {
  std::string r = "\"";
  for (unsigned char c : s) {
    if (c >= 0x20 && c < 0x7f && c != '"' && c != '\\') r += static_cast<char>(c);
    else {
      char b[8];
      snprintf(b, sizeof(b), "\\x%02x", c);
      r += b;
    }
  }
  return r + "\"";
}
static std::string show(const std::vector<std::string>& v) {
  std::string r = "[";
  for (size_t i = 0; i < v.size(); i++) r += (i ? "," : "") + show(v[i]);
  return r + "]";
}

static bool has_nul(const std::string& s) { return s.find('\0') != std::string::npos; }

// ---------------------------------------------------------------- classify

// Reads everything the reference says exists (and probes names that must not exist) through the public getters.
static void check_classification(Args& a, const c17::RefArgs& r, const std::vector<std::string>& tokens, const char* how) {
  // before any read: assert_none_unused throws iff something was supplied
  std::string t0 = thrown([&] { a.assert_none_unused(); });
  VCHECK(t0 == (r.items ? "invalid_argument" : ""), cat("unread-at-start:", how), "assert_none_unused() on a fresh object with ", r.items,
      " supplied items: threw '", t0, "' tokens=", show(tokens));
  // positionals, in order
  for (size_t i = 0; i < r.positional.size(); i++) {
    std::string got;
    std::string th = thrown([&] { got = a.get<std::string>(i); });
    VCHECK(th.empty() && got == r.positional[i], cat("positional:", how), "positional #", i, " is ", th.empty() ? show(got) : th, " expected ",
        show(r.positional[i]), " tokens=", show(tokens));
  }
  {
    size_t past = r.positional.size();
    std::string th = thrown([&] { a.get<std::string>(past); });
    VCHECK(th == "out_of_range", cat("positional-count:", how), "get<string>(", past, ") with ", past, " positionals: '", th, "' tokens=", show(tokens));
    std::string got = "?";
    th = thrown([&] { got = a.get<std::string>(past, false); });
    VCHECK(th.empty() && got.empty(), cat("positional-count:", how), "get<string>(", past, ", false) returned ", show(got), " tokens=", show(tokens));
  }
  // named options and flags, values in order of appearance
  for (const auto& it : r.named) {
    std::vector<std::string> got;
    std::string th = thrown([&] { got = a.get_multi<std::string>(it.first); });
    VCHECK(th.empty() && got == it.second, cat("named:", how), "values of ", show(it.first), " are ", th.empty() ? show(got) : th, " expected ",
        show(it.second), " tokens=", show(tokens));
  }
  // names that must not exist
  std::vector<std::string> probes = {"", "-", "="};
  for (const std::string& t : tokens) {
    probes.push_back(t);
    if (t.size() > 1) probes.push_back(t.substr(1));
    if (t.size() > 2) probes.push_back(t.substr(2));
    if (t.size() > 2 && t[0] == '-' && t[1] != '-') probes.push_back(t.substr(1, 2));
    size_t eq = t.find('=');
    if (eq != std::string::npos) probes.push_back(t.substr(eq + 1));
  }
  std::sort(probes.begin(), probes.end());
  probes.erase(std::unique(probes.begin(), probes.end()), probes.end());
  size_t probed = 0;
  for (const std::string& p : probes) {
    if (r.find(p) || probed >= 6) continue;
    probed++;
    std::vector<std::string> got;
    std::string th = thrown([&] { got = a.get_multi<std::string>(p); });
    VCHECK(th.empty() && got.empty(), cat("phantom-name:", how), "name ", show(p), " has values ", show(got), " ", th, " tokens=", show(tokens));
  }
  // everything the reference knows has been read: nothing else may be left (a token classified twice or differently)
  std::string t1 = thrown([&] { a.assert_none_unused(); });
  VCHECK(t1.empty(), cat("hidden-item:", how), "after reading every expected item assert_none_unused threw ", t1, " tokens=", show(tokens));
}

static bool mixes(const c17::RefArgs& r) { return !r.positional.empty() && !r.named.empty(); }

// case: s = tokens, n = [constructor mask: 1 vector const&, 2 vector&&, 4 argv] (absent = all three)
static void run_classify(const Case& c) {
  const std::vector<std::string>& tokens = c.s;
  uint64_t ctors = c.n.empty() ? 7 : c.u(0);
  if ((ctors & 7) == 0) throw std::logic_error("no constructor selected");
  for (const auto& t : tokens)
    if (has_nul(t)) throw std::logic_error("NUL byte in a token (outside the domain)");
  c17::RefArgs r = c17::classify(tokens);
  if (ctors & 1) {
    Args a(tokens);
    check_classification(a, r, tokens, "vector");
  }
  if (ctors & 2) {
    std::vector<std::string> copy = tokens;
    Args a(std::move(copy));
    check_classification(a, r, tokens, "vector-move");
  }
  if (ctors & 4) {
    std::vector<const char*> argv;
    for (const auto& t : tokens) argv.push_back(t.c_str());
    argv.push_back(nullptr);
    Args a(argv.data(), tokens.size());
    check_classification(a, r, tokens, "argv");
  }
  if (mixes(r)) ctx().nontrivial_case();
  ctx().cls(cat("classify:tokens=", tokens.size() > 5 ? 6 : tokens.size()));
}

// ---------------------------------------------------------------- cmdline

// case: s = [command line]
static void run_cmdline(const Case& c) {
  const std::string& cmd = c.str(0);
  std::vector<std::string> expect;
  if (!c17::portable_split(cmd, expect)) throw std::logic_error("command line outside the portable quoting subset");
  std::vector<std::string> got;
  std::string th = thrown([&] { got = phosg::split_args(cmd); });
  VCHECK(th.empty(), "split-args-throws", "split_args(", show(cmd), ") threw ", th);
  VCHECK(got == expect, "split-args", "split_args(", show(cmd), ") = ", show(got), " expected ", show(expect));
  c17::RefArgs r = c17::classify(expect);
  Args a(cmd);
  check_classification(a, r, expect, "string");
  bool quoting = cmd.find_first_of("\"'\\") != std::string::npos;
  if ((quoting && expect.size() >= 2) || mixes(r)) ctx().nontrivial_case();
  ctx().cls(quoting ? "cmdline:quoted" : "cmdline:bare");
  bool high = false, ctl = false;
  for (unsigned char ch : cmd) high |= (ch >= 0x80), ctl |= (ch < 0x20 && ch != '\t') || ch == 0x7f;
  if (high) ctx().cls("cmdline:has a byte >= 0x80");
  if (ctl) ctx().cls("cmdline:has a control byte other than tab");
}

// ---------------------------------------------------------------- integers

static Args::IntFormat fmt_of(uint64_t f) {
  switch (f) {
    case 0: return Args::IntFormat::DEFAULT;
    case 1: return Args::IntFormat::HEX;
    case 2: return Args::IntFormat::DECIMAL;
    case 3: return Args::IntFormat::OCTAL;
    default: throw std::logic_error("bad format code");
  }
}

// Is the numeral within 2 of a boundary of some integer type (or of 2^64)?
static bool near_boundary(const c17::Numeral& m) {
  if (m.huge) return true;
  for (unsigned k : {7u, 8u, 15u, 16u, 31u, 32u, 63u, 64u}) {
    u128 p = static_cast<u128>(1) << k;
    if (m.mag + 2 >= p && m.mag <= p + 2) return true;
    u128 q = (static_cast<u128>(1) << 64) - p;
    if (k < 63 && m.mag + 2 >= q && m.mag <= q + 2) return true;
  }
  return false;
}

// case: n = [type, format, mode], s = [text]
//   mode 0: --n=TEXT, get<T>("n", fmt)          1: TEXT positional, get<T>(0, fmt)
//        2: --n=1 --n=TEXT --n=0, get_multi<T>   3: --n=TEXT, get<T>("n", default, fmt)   4: positional with default
static void run_int(const Case& c) {
  uint64_t code = c.u(0), f = c.u(1), mode = c.u(2);
  const std::string& text = c.str(0);
  if (has_nul(text)) throw std::logic_error("NUL byte in the text (outside the domain)");
  if ((mode == 1 || mode == 4) && !text.empty() && text[0] == '-') throw std::logic_error("a positional cannot start with '-'");
  if (code > 7 || f > 3 || mode > 4) throw std::logic_error("bad case");
  c17::Numeral m = c17::parse_numeral(text, kFmtBase[f]);
  if (m.platform) {
    ctx().exclude("0b-prefixed text with IntFormat::DEFAULT (C23 libraries read binary, older ones do not)");
    return;
  }
  c17::IntExpect ex = c17::expect_int(m, code);
  Args::IntFormat fmt = fmt_of(f);
  const std::string name = "n";
  with_type(code, [&](auto tag) {
    using T = decltype(tag);
    std::vector<uint64_t> got; // two's complement, sign-extended
    auto widen = [](T v) -> uint64_t { return static_cast<uint64_t>(static_cast<int64_t>(v)); };
    auto widen_u = [&](T v) -> uint64_t {
      if (std::is_signed_v<T>) return widen(v);
      return static_cast<uint64_t>(v);
    };
    std::string th;
    std::vector<uint64_t> want;
    switch (mode) {
      case 0: {
        Args a(std::vector<std::string>{"--n=" + text});
        th = thrown([&] { got.push_back(widen_u(a.get<T>(name, fmt))); });
        want = {ex.bits};
        break;
      }
      case 1: {
        Args a(std::vector<std::string>{text});
        th = thrown([&] { got.push_back(widen_u(a.get<T>(static_cast<size_t>(0), fmt))); });
        want = {ex.bits};
        break;
      }
      case 2: {
        Args a(std::vector<std::string>{"--n=1", "--n=" + text, "--n=0"});
        th = thrown([&] {
          for (T v : a.get_multi<T>(name, fmt)) got.push_back(widen_u(v));
        });
        want = {1, ex.bits, 0};
        break;
      }
      case 3: {
        Args a(std::vector<std::string>{"--n=" + text});
        th = thrown([&] { got.push_back(widen_u(a.get<T>(name, static_cast<T>(42), fmt))); });
        want = {ex.bits};
        break;
      }
      default: {
        Args a(std::vector<std::string>{text});
        th = thrown([&] { got.push_back(widen_u(a.get<T>(static_cast<size_t>(0), static_cast<T>(42), fmt))); });
        want = {ex.bits};
        break;
      }
    }
    // the expected bits are the full 64-bit two's complement of the value; compare modulo the type's width
    auto same = [&](uint64_t g, uint64_t w) {
      if (sizeof(T) == 8) return g == w;
      if (std::is_signed_v<T>) return static_cast<int64_t>(g) == static_cast<int64_t>(w);
      return g == w;
    };
    std::string tag_s = cat(kTypeNames[code], ":", kFmtNames[f]);
    std::string what = cat("get<", kTypeNames[code], ">(", show(text), ", ", kFmtNames[f], ", mode ", mode, ")");
    if (ex.kind == c17::Expect::VALUE) {
      VCHECK(th.empty(), cat("rejects-fitting-numeral:", kTypeNames[code]), what, " threw ", th, " but the numeral is complete and fits");
      VCHECK(got.size() == want.size(), "multi-count", what, " returned ", got.size(), " values");
      for (size_t k = 0; k < want.size(); k++) {
        VCHECK(same(got[k], want[k]), cat("wrong-value:", kTypeNames[code]), what, " returned ", static_cast<int64_t>(got[k]), " (0x", std::hex, got[k], std::dec,
            ") expected ", static_cast<int64_t>(want[k]));
      }
    } else if (ex.kind == c17::Expect::INVALID) {
      const char* why = !m.any ? "not-a-numeral" : !m.complete ? "trailing-garbage" : "out-of-range";
      VCHECK(th == "invalid_argument", cat("accepts-", why, ":", kTypeNames[code]), what, th.empty() ? cat(" returned ", static_cast<int64_t>(got.empty() ? 0 : got[mode == 2 && got.size() > 1 ? 1 : 0])) : cat(" threw ", th),
          " but must throw invalid_argument (", why, ")");
    } else {
      // 64-bit target, magnitude >= 2^63: returning or invalid_argument are both accepted, nothing else
      VCHECK(th.empty() || th == "invalid_argument", "unsettled-64bit-throws", what, " threw ", th);
      ctx().cls("int:unsettled(64-bit target, |v|>=2^63)");
    }
  });
  bool garbage = !m.complete;
  if (m.complete && text.size() > 40) ctx().cls(text.size() > 64 ? "int:complete numeral longer than 64 characters (leading blanks / zeros)" : "int:complete numeral of 41..64 characters");
  if (garbage || near_boundary(m)) ctx().nontrivial_case();
  ctx().cls(ex.kind == c17::Expect::VALUE ? "int:expect-value" : ex.kind == c17::Expect::INVALID ? (garbage ? "int:expect-invalid(garbage)" : "int:expect-invalid(range)") : "int:expect-unsettled");
}

// ---------------------------------------------------------------- floats

// case: n = [ftype (0 float, 1 double), mode], s = [text]; modes as for integers without 4
static void run_float(const Case& c) {
  uint64_t ft = c.u(0), mode = c.u(1);
  const std::string& text = c.str(0);
  if (has_nul(text)) throw std::logic_error("NUL byte in the text (outside the domain)");
  if (mode == 1 && !text.empty() && text[0] == '-') throw std::logic_error("a positional cannot start with '-'");
  if (ft > 1 || mode > 3) throw std::logic_error("bad case");
  c17::FloatLit lit = c17::parse_float_literal(text);
  const std::string name = "n";
  auto body = [&](auto tag) {
    using F = decltype(tag);
    std::vector<F> got;
    std::string th;
    size_t idx = 0, count = 1;
    switch (mode) {
      case 0: {
        Args a(std::vector<std::string>{"--n=" + text});
        th = thrown([&] { got.push_back(a.get<F>(name)); });
        break;
      }
      case 1: {
        Args a(std::vector<std::string>{text});
        th = thrown([&] { got.push_back(a.get<F>(static_cast<size_t>(0))); });
        break;
      }
      case 2: {
        Args a(std::vector<std::string>{"--n=1.5", "--n=" + text});
        th = thrown([&] { got = a.get_multi<F>(name); });
        idx = 1;
        count = 2;
        break;
      }
      default: {
        Args a(std::vector<std::string>{"--n=" + text});
        th = thrown([&] { got.push_back(a.get<F>(name, std::optional<F>(static_cast<F>(42)))); });
        break;
      }
    }
    std::string what = cat("get<", ft ? "double" : "float", ">(", show(text), ", mode ", mode, ")");
    if (!lit.complete) {
      VCHECK(th == "invalid_argument", cat("float-accepts-garbage:", ft ? "double" : "float"), what, th.empty() ? cat(" returned ", static_cast<double>(got.empty() ? 0 : got[got.size() - 1])) : cat(" threw ", th),
          " but the text is not a complete floating-point literal");
      return;
    }
    if (!lit.in_range) {
      VCHECK(th.empty() || th == "invalid_argument", "float-unsettled-throws", what, " threw ", th);
      ctx().cls("float:unsettled(out of double range)");
      return;
    }
    VCHECK(th.empty(), cat("float-rejects-literal:", ft ? "double" : "float"), what, " threw ", th, " but the text is a complete literal");
    VCHECK(got.size() == count, "float-multi-count", what, " returned ", got.size(), " values");
    if (mode == 2) VCHECK(got[0] == static_cast<F>(1.5), "float-multi-first", what, " first value ", static_cast<double>(got[0]));
    F g = got[idx];
    if (lit.is_nan) {
      VCHECK(std::isnan(g), "float-value", what, " returned ", static_cast<double>(g), " expected NaN");
      return;
    }
    if (ft == 1) {
      VCHECK(static_cast<double>(g) == lit.value && std::signbit(g) == std::signbit(lit.value), "float-value:double", what, " returned ", cat(std::hexfloat, static_cast<double>(g)), " expected ",
          cat(std::hexfloat, lit.value));
    } else {
      // float target: correctly rounded from the text, or rounded through double (both are "the value")
      float via_double = static_cast<float>(lit.value);
      bool ok = (g == via_double);
      if (!ok && std::isfinite(lit.value)) {
        float up = nextafterf(via_double, INFINITY), dn = nextafterf(via_double, -INFINITY);
        // direct rounding can differ from double rounding by one ulp only
        double dg = static_cast<double>(g);
        ok = (g == up || g == dn) && fabs(dg - lit.value) <= fabs(static_cast<double>(via_double) - lit.value) * (1 + 1e-9);
      }
      VCHECK(ok, "float-value:float", what, " returned ", cat(std::hexfloat, static_cast<double>(g)), " expected ", cat(std::hexfloat, static_cast<double>(via_double)));
    }
  };
  if (ft == 0) {
    if (lit.complete && lit.in_range && std::isfinite(lit.value) && fabs(lit.value) > 3e38) {
      ctx().exclude("float getter with a literal beyond float range (double->float conversion overflow is not part of the property)");
      return;
    }
    body(float{});
  } else {
    body(double{});
  }
  if (!lit.complete || text.find_first_of("eEpP.") != std::string::npos) ctx().nontrivial_case();
  ctx().cls(!lit.complete ? "float:garbage" : lit.in_range ? "float:literal" : "float:out-of-range");
}

// ---------------------------------------------------------------- absent arguments

// case: n = [type (0..7 integer, 8 float, 9 double, 10 string, 11 bool), format, kind], s = [other token]
//   kind 0: named, no default -> out_of_range    1: named, default -> default    2: get_multi -> empty
//        3: positional past the end, no default  4: positional past the end, default
static void run_absent(const Case& c) {
  uint64_t code = c.u(0), f = c.u(1), kind = c.u(2);
  if (code > 11 || f > 3 || kind > 4) throw std::logic_error("bad case");
  std::vector<std::string> tokens;
  if (!c.s.empty()) tokens.push_back(c.str(0));
  c17::RefArgs r = c17::classify(tokens);
  if (r.find("n")) throw std::logic_error("the other token must not define 'n'");
  size_t past = r.positional.size();
  Args a(tokens);
  const std::string name = "n";
  std::string th, what = cat("absent type=", code, " kind=", kind, " tokens=", show(tokens));
  if (code < 8) {
    Args::IntFormat fmt = fmt_of(f);
    with_type(code, [&](auto tag) {
      using T = decltype(tag);
      T got = 0;
      size_t n_multi = 99;
      switch (kind) {
        case 0: th = thrown([&] { got = a.get<T>(name, fmt); }); break;
        case 1: th = thrown([&] { got = a.get<T>(name, static_cast<T>(77), fmt); }); break;
        case 2: th = thrown([&] { n_multi = a.get_multi<T>(name, fmt).size(); }); break;
        case 3: th = thrown([&] { got = a.get<T>(past, fmt); }); break;
        default: th = thrown([&] { got = a.get<T>(past, static_cast<T>(77), fmt); }); break;
      }
      if (kind == 0 || kind == 3) VCHECK(th == "out_of_range", "absent-no-default", what, ": ", th.empty() ? cat("returned ", static_cast<int64_t>(got)) : th);
      else if (kind == 2) VCHECK(th.empty() && n_multi == 0, "absent-multi", what, ": ", th, " size ", n_multi);
      else VCHECK(th.empty() && got == static_cast<T>(77), "absent-default", what, ": ", th.empty() ? cat("returned ", static_cast<int64_t>(got)) : th);
    });
  } else if (code == 8 || code == 9) {
    auto body = [&](auto tag) {
      using F = decltype(tag);
      F got = 0;
      size_t n_multi = 99;
      switch (kind) {
        case 0: th = thrown([&] { got = a.get<F>(name); }); break;
        case 1: th = thrown([&] { got = a.get<F>(name, std::optional<F>(static_cast<F>(2.5))); }); break;
        case 2: th = thrown([&] { n_multi = a.get_multi<F>(name).size(); }); break;
        case 3: th = thrown([&] { got = a.get<F>(past); }); break;
        default: th = thrown([&] { got = a.get<F>(past, std::optional<F>(static_cast<F>(2.5))); }); break;
      }
      if (kind == 0 || kind == 3) VCHECK(th == "out_of_range", "absent-no-default", what, ": ", th.empty() ? cat("returned ", static_cast<double>(got)) : th);
      else if (kind == 2) VCHECK(th.empty() && n_multi == 0, "absent-multi", what, ": ", th, " size ", n_multi);
      else VCHECK(th.empty() && got == static_cast<F>(2.5), "absent-default", what, ": ", th.empty() ? cat("returned ", static_cast<double>(got)) : th);
    };
    if (code == 8) body(float{});
    else body(double{});
  } else if (code == 10) {
    std::string got = "?";
    size_t n_multi = 99;
    switch (kind) {
      case 0: th = thrown([&] { got = a.get<std::string>(name, true); }); break;
      case 1: th = thrown([&] { got = a.get<std::string>(name, false); }); break;
      case 2: th = thrown([&] { n_multi = a.get_multi<std::string>(name).size(); }); break;
      case 3: th = thrown([&] { got = a.get<std::string>(past, true); }); break;
      default: th = thrown([&] { got = a.get<std::string>(past, false); }); break;
    }
    if (kind == 0 || kind == 3) VCHECK(th == "out_of_range", "absent-no-default", what, ": ", th.empty() ? show(got) : th);
    else if (kind == 2) VCHECK(th.empty() && n_multi == 0, "absent-multi", what, ": ", th, " size ", n_multi);
    else VCHECK(th.empty() && got.empty(), "absent-default", what, ": ", th.empty() ? show(got) : th);
  } else {
    bool got = true;
    th = thrown([&] { got = a.get<bool>("n"); });
    VCHECK(th.empty() && !got, "absent-bool", what, ": ", th.empty() ? (got ? "true" : "false") : th);
  }
  // a failed lookup reads nothing: what was supplied is still unread
  std::string t1 = thrown([&] { a.assert_none_unused(); });
  VCHECK(t1 == (r.items ? "invalid_argument" : ""), "absent-marks-used", what, ": assert_none_unused afterwards: '", t1, "'");
  ctx().nontrivial_case();
}

// ---------------------------------------------------------------- unused bookkeeping

static bool plain_int(const std::string& s) {
  if (s.empty() || s.size() > 9) return false;
  for (char ch : s)
    if (ch < '0' || ch > '9') return false;
  return s[0] != '0' || s.size() == 1;
}

// case: n = [subset mask over the read handles, getter variants (2 bits per handle)], s = tokens
//   handles: positional #0.., then each distinct name in order of first appearance
static void run_unused(const Case& c) {
  const std::vector<std::string>& tokens = c.s;
  uint64_t mask = c.u(0), variants = c.u(1);
  for (const auto& t : tokens)
    if (has_nul(t)) throw std::logic_error("NUL byte in a token (outside the domain)");
  c17::RefArgs r = c17::classify(tokens);
  size_t handles = r.positional.size() + r.named.size();
  if (handles > 30) throw std::logic_error("too many handles");
  uint64_t all = (handles == 0) ? 0 : ((1ULL << handles) - 1);
  mask &= all;
  Args a(tokens);
  bool noise = (variants >> 63) & 1;
  for (size_t h = 0; h < handles; h++) {
    if (!((mask >> h) & 1)) continue;
    unsigned g = (variants >> (2 * (h % 30))) & 3;
    std::string th;
    if (h < r.positional.size()) {
      const std::string& want = r.positional[h];
      if (g >= 2 && plain_int(want)) {
        int64_t v = -1;
        th = thrown([&] { v = a.get<int64_t>(h); });
        VCHECK(th.empty() && v == strtoll(want.c_str(), nullptr, 10), "unused-read", "typed positional read #", h, ": ", th, " value ", v);
      } else {
        std::string got;
        th = thrown([&] { got = (g & 1) ? a.get<std::string>(h, false) : a.get<std::string>(h); });
        VCHECK(th.empty() && got == want, "unused-read", "positional read #", h, ": ", th, " ", show(got));
      }
    } else {
      const auto& it = r.named[h - r.positional.size()];
      bool single = it.second.size() == 1;
      bool ints = true;
      for (const auto& v : it.second) ints &= plain_int(v);
      if (g == 1 && single) {
        std::string got;
        th = thrown([&] { got = a.get<std::string>(it.first); });
        VCHECK(th.empty() && got == it.second[0], "unused-read", "get<string>(", show(it.first), "): ", th, " ", show(got));
      } else if (g == 2 && single) {
        bool got = false;
        th = thrown([&] { got = a.get<bool>(it.first.c_str()); });
        VCHECK(th.empty() && got, "unused-read", "get<bool>(", show(it.first), "): ", th, " ", got);
      } else if (g == 3 && ints) {
        std::vector<int32_t> got;
        if (single) th = thrown([&] { got.push_back(a.get<int32_t>(it.first)); });
        else th = thrown([&] { got = a.get_multi<int32_t>(it.first); });
        VCHECK(th.empty() && got.size() == it.second.size(), "unused-read", "typed read of ", show(it.first), ": ", th);
      } else {
        std::vector<std::string> got;
        th = thrown([&] { got = a.get_multi<std::string>(it.first); });
        VCHECK(th.empty() && got == it.second, "unused-read", "get_multi<string>(", show(it.first), "): ", th, " ", show(got));
      }
    }
  }
  if (noise) {
    // lookups of things that were not supplied read nothing
    (void)thrown([&] { a.get<bool>("zz"); });
    (void)thrown([&] { a.get<std::string>("zz", false); });
    (void)thrown([&] { a.get_multi<std::string>("zz"); });
    (void)thrown([&] { a.get<std::string>(r.positional.size(), false); });
  }
  std::string th = thrown([&] { a.assert_none_unused(); });
  bool must_throw = (mask != all);
  if (must_throw) {
    VCHECK(th == "invalid_argument", "unused-not-reported", "handles=", handles, " read mask=", mask, ": assert_none_unused ", th.empty() ? "returned" : cat("threw ", th),
        " although something was never read; tokens=", show(tokens));
  } else {
    VCHECK(th.empty(), "unused-false-alarm", "handles=", handles, " everything read but assert_none_unused threw ", th, "; tokens=", show(tokens));
  }
  // idempotent (const)
  std::string th2 = thrown([&] { a.assert_none_unused(); });
  VCHECK(th2 == th, "unused-not-idempotent", "second assert_none_unused: '", th2, "' first: '", th, "'");
  if (handles >= 2 && mask != 0) ctx().nontrivial_case();
  ctx().cls(must_throw ? "unused:some-unread" : "unused:all-read");
}

// ---------------------------------------------------------------- sequences of getters on one object

// What a getter returns (value, invalid_argument, out_of_range, the default) is, by the statement, a function of the token
// list and of the getter alone. So every call of a SEQUENCE of getter calls on one object must give what the same call gives
// on a fresh object: absent stays absent, present stays present, whatever was asked before (multi or scalar, with or without
// default, a failed conversion, assert_none_unused in between).
//
// case: s = tokens, n = ops; op = target | getter << 8 | type << 16 | format << 24
//   target table: the distinct names of the token list in order of first appearance, then those of {"zz","n","x"} that were
//                 not supplied, then the positional indices 0..P+1 (P = number of positionals); index taken modulo the table size
//   getter: 0 get_multi<string>   1 get_multi<T>(fmt)   2 get_multi<double>   3 get<string>(id)   4 get<string>(id, other flag)
//           5 get<bool>           6 get<T>(id, fmt)     7 get<T>(id, 77, fmt) 8 get<double>(id)   9 get<double>(id, 2.5)
//           10 assert_none_unused
//   positional targets have no multi/bool getters: 0,3 -> get<string>(i) (throws when missing), 4,5 -> get<string>(i, false),
//   1 -> 6, 2 -> 8. A scalar getter addressed to a name with several values is executed as the multi getter of the same type
//   (what a scalar getter does with a repeated option is not settled by the statement).
enum SeqGetter : uint64_t { SG_MULTI_S = 0, SG_MULTI_I, SG_MULTI_F, SG_STR, SG_STR_FLAG, SG_BOOL, SG_INT, SG_INT_DEF, SG_FLT, SG_FLT_DEF, SG_ASSERT, SG_COUNT };
static const char* kSeqGetterNames[SG_COUNT] = {"get_multi<string>", "get_multi<int>", "get_multi<double>", "get<string>", "get<string>(flag)", "get<bool>", "get<int>",
    "get<int>(default)", "get<double>", "get<double>(default)", "assert_none_unused"};

struct SeqTargets {
  std::vector<std::string> names; // supplied names first
  size_t supplied = 0;
  size_t positionals = 0;
  size_t size() const { return names.size() + positionals + 2; }
};
static SeqTargets seq_targets(const c17::RefArgs& r) {
  SeqTargets t;
  for (const auto& it : r.named) t.names.push_back(it.first);
  t.supplied = t.names.size();
  for (const char* probe : {"zz", "n", "x"})
    if (!r.find(probe)) t.names.push_back(probe);
  t.positionals = r.positional.size();
  return t;
}

enum UsedState : uint8_t { U_UNREAD = 0, U_READ = 1, U_UNKNOWN = 2 };

static uint64_t seq_op(uint64_t target, uint64_t getter, uint64_t type, uint64_t fmt) { return target | (getter << 8) | (type << 16) | (fmt << 24); }

static void run_seq(const Case& c) {
  const std::vector<std::string>& tokens = c.s;
  for (const auto& t : tokens)
    if (has_nul(t)) throw std::logic_error("NUL byte in a token (outside the domain)");
  c17::RefArgs r = c17::classify(tokens);
  SeqTargets tt = seq_targets(r);
  // used-flag model: a value that a getter returned is read; one whose conversion failed (or is unsettled) may or may not count
  std::vector<uint8_t> used_pos(r.positional.size(), U_UNREAD);
  std::vector<std::vector<uint8_t>> used_named;
  for (const auto& it : r.named) used_named.emplace_back(it.second.size(), U_UNREAD);
  Args a(tokens);
  std::vector<uint64_t> addressed(tt.size(), 0);
  bool absent_twice = false, multi_then_scalar_absent = false, partial_multi = false;
  std::vector<uint8_t> absent_multi_seen(tt.size(), 0);

  for (size_t k = 0; k < c.n.size(); k++) {
    uint64_t op = c.u(k);
    uint64_t target = (op & 0xFF) % tt.size(), g = (op >> 8) & 0xFF, code = (op >> 16) & 0xFF, f = (op >> 24) & 0xFF;
    if (g >= SG_COUNT || code > 7 || f > 3) throw std::logic_error("bad op");
    Args::IntFormat fmt = fmt_of(f);
    const bool named = target < tt.names.size();
    std::string what;
    auto fail_ctx = [&]() { return cat(" [op #", k, " of ", c.n.size(), ": ", what, "; tokens=", show(tokens), "]"); };

    if (g == SG_ASSERT) {
      what = "assert_none_unused()";
      bool some_unread = false, some_unknown = false;
      for (uint8_t u : used_pos) some_unread |= (u == U_UNREAD), some_unknown |= (u == U_UNKNOWN);
      for (const auto& v : used_named)
        for (uint8_t u : v) some_unread |= (u == U_UNREAD), some_unknown |= (u == U_UNKNOWN);
      std::string th = thrown([&] { a.assert_none_unused(); });
      if (some_unread) VCHECK(th == "invalid_argument", "seq-unused-not-reported", "assert_none_unused ", th.empty() ? "returned" : cat("threw ", th), " although something was never read", fail_ctx());
      else if (!some_unknown) VCHECK(th.empty(), "seq-unused-false-alarm", "everything was read but assert_none_unused threw ", th, fail_ctx());
      else VCHECK(th.empty() || th == "invalid_argument", "seq-unused-throws", "assert_none_unused threw ", th, fail_ctx());
      continue;
    }

    addressed[target]++;
    // the values the reference knows for the target (absent: none)
    std::vector<std::string> vals;
    std::vector<uint8_t>* used = nullptr;
    bool present;
    size_t pos_index = 0;
    std::string name;
    if (named) {
      name = tt.names[target];
      present = target < tt.supplied;
      if (present) {
        vals = r.named[target].second;
        used = &used_named[target];
      }
      if (vals.size() >= 2) {
        if (g == SG_STR || g == SG_STR_FLAG || g == SG_BOOL) g = SG_MULTI_S;
        else if (g == SG_INT || g == SG_INT_DEF) g = SG_MULTI_I;
        else if (g == SG_FLT || g == SG_FLT_DEF) g = SG_MULTI_F;
      }
    } else {
      pos_index = target - tt.names.size();
      present = pos_index < r.positional.size();
      static std::vector<uint8_t> one;
      if (present) {
        vals = {r.positional[pos_index]};
        one.assign(1, used_pos[pos_index]);
        used = &one;
      }
      if (g == SG_MULTI_S) g = SG_STR;
      else if (g == SG_BOOL) g = SG_STR_FLAG;
      else if (g == SG_MULTI_I) g = SG_INT;
      else if (g == SG_MULTI_F) g = SG_FLT;
    }
    what = cat(kSeqGetterNames[g], named ? cat(" of name ", show(name)) : cat(" of positional #", pos_index), present ? cat(" (supplied: ", show(vals), ")") : " (not supplied)",
        (g == SG_MULTI_I || g == SG_INT || g == SG_INT_DEF) ? cat(" type ", kTypeNames[code], " format ", kFmtNames[f]) : std::string());
    if (!present) {
      if (addressed[target] >= 2) absent_twice = true;
      if (g <= SG_MULTI_F) absent_multi_seen[target] = 1;
      else if (absent_multi_seen[target]) multi_then_scalar_absent = true;
    }
    // marks the first `upto` instances of the target (all of them by default)
    auto mark = [&](uint8_t state, size_t upto = SIZE_MAX) {
      if (!used) return;
      for (size_t j = 0; j < used->size() && j < upto; j++)
        if ((*used)[j] != U_READ) (*used)[j] = state;
    };
    const char* absent_sig = "seq-absent";
    std::string gname = kSeqGetterNames[g];

    // per-value expectations for the typed getters
    enum Kind { K_VALUE, K_INVALID, K_EITHER };
    auto int_kind = [&](const std::string& text, uint64_t& bits) {
      c17::Numeral m = c17::parse_numeral(text, kFmtBase[f]);
      if (m.platform) return K_EITHER;
      c17::IntExpect ex = c17::expect_int(m, code);
      bits = ex.bits;
      return ex.kind == c17::Expect::VALUE ? K_VALUE : ex.kind == c17::Expect::INVALID ? K_INVALID : K_EITHER;
    };
    auto flt_kind = [&](const std::string& text, c17::FloatLit& lit) {
      lit = c17::parse_float_literal(text);
      return !lit.complete ? K_INVALID : !lit.in_range ? K_EITHER : K_VALUE;
    };
    auto same_double = [](double g2, const c17::FloatLit& lit) { return lit.is_nan ? std::isnan(g2) : (g2 == lit.value && std::signbit(g2) == std::signbit(lit.value)); };
    // overall expectation of a typed read of all of `vals`
    auto overall = [&](auto&& kind_of) {
      Kind o = K_VALUE;
      for (const auto& v : vals) {
        Kind kd = kind_of(v);
        if (kd == K_EITHER) return K_EITHER;
        if (kd == K_INVALID) o = K_INVALID;
      }
      return o;
    };
    // A typed multi getter that throws has looked at the instances up to the one whose conversion failed and at nothing behind it:
    // the instances behind the first text that must be rejected (when the getter threw and no text must be rejected: behind the
    // last unsettled one) were never read by that call and keep their state; those before it and the failing one are unknown.
    auto throw_bound = [&](auto&& kind_of, const std::string& th) -> size_t {
      if (th.empty()) return SIZE_MAX;
      size_t last_either = SIZE_MAX;
      for (size_t j = 0; j < vals.size(); j++) {
        Kind kd = kind_of(vals[j]);
        if (kd == K_INVALID) return j + 1;
        if (kd == K_EITHER) last_either = j;
      }
      return last_either == SIZE_MAX ? SIZE_MAX : last_either + 1;
    };
    auto judge_typed = [&](Kind o, const std::string& th, bool values_ok, size_t bound = SIZE_MAX) {
      if (bound < vals.size()) partial_multi = true;
      if (o == K_VALUE) {
        VCHECK(th.empty(), cat("seq-rejects:", gname), what, " threw ", th, " but every value is a complete literal that fits", fail_ctx());
        VCHECK(values_ok, cat("seq-value:", gname), what, " returned a wrong value", fail_ctx());
        mark(U_READ);
      } else if (o == K_INVALID) {
        VCHECK(th == "invalid_argument", cat("seq-accepts:", gname), what, th.empty() ? " returned" : cat(" threw ", th), " but must throw invalid_argument", fail_ctx());
        mark(U_UNKNOWN, bound);
      } else {
        VCHECK(th.empty() || th == "invalid_argument", cat("seq-unsettled-throws:", gname), what, " threw ", th, fail_ctx());
        mark(U_UNKNOWN, bound);
      }
    };

    switch (g) {
      case SG_MULTI_S: {
        std::vector<std::string> got;
        std::string th = thrown([&] { got = a.get_multi<std::string>(name); });
        VCHECK(th.empty() && got == vals, present ? "seq-value:get_multi<string>" : absent_sig, what, ": ", th.empty() ? show(got) : th, " expected ", show(vals), fail_ctx());
        mark(U_READ);
        break;
      }
      case SG_MULTI_I: {
        with_type(code, [&](auto tag) {
          using T = decltype(tag);
          std::vector<T> got;
          std::string th = thrown([&] { got = a.get_multi<T>(name, fmt); });
          Kind o = overall([&](const std::string& v) { uint64_t b; return int_kind(v, b); });
          bool ok = got.size() == vals.size();
          if (o == K_VALUE && ok)
            for (size_t j = 0; j < vals.size(); j++) {
              uint64_t b = 0;
              int_kind(vals[j], b);
              ok &= (got[j] == static_cast<T>(b));
            }
          if (!present) VCHECK(th.empty() && got.empty(), absent_sig, what, ": ", th, " size ", got.size(), fail_ctx());
          else judge_typed(o, th, ok, throw_bound([&](const std::string& v) { uint64_t b; return int_kind(v, b); }, th));
        });
        break;
      }
      case SG_MULTI_F: {
        std::vector<double> got;
        std::string th = thrown([&] { got = a.get_multi<double>(name); });
        Kind o = overall([&](const std::string& v) { c17::FloatLit l; return flt_kind(v, l); });
        bool ok = got.size() == vals.size();
        if (o == K_VALUE && ok)
          for (size_t j = 0; j < vals.size(); j++) {
            c17::FloatLit l;
            flt_kind(vals[j], l);
            ok &= same_double(got[j], l);
          }
        if (!present) VCHECK(th.empty() && got.empty(), absent_sig, what, ": ", th, " size ", got.size(), fail_ctx());
        else judge_typed(o, th, ok, throw_bound([&](const std::string& v) { c17::FloatLit l; return flt_kind(v, l); }, th));
        break;
      }
      case SG_STR:
      case SG_STR_FLAG: {
        // named: get<string>(name) returns "" when missing, get<string>(name, true) throws; positional: get<string>(i) throws, (i, false) returns ""
        bool throws_when_missing = named ? (g == SG_STR_FLAG) : (g == SG_STR);
        std::string got = "?";
        std::string th = thrown([&] {
          if (named) got = throws_when_missing ? a.get<std::string>(name, true) : a.get<std::string>(name);
          else got = throws_when_missing ? a.get<std::string>(pos_index) : a.get<std::string>(pos_index, false);
        });
        if (present) {
          VCHECK(th.empty() && got == vals[0], cat("seq-value:", gname), what, ": ", th.empty() ? show(got) : th, fail_ctx());
          mark(U_READ);
        } else if (throws_when_missing) {
          VCHECK(th == "out_of_range", absent_sig, what, ": ", th.empty() ? cat("returned ", show(got)) : cat("threw ", th), " expected out_of_range", fail_ctx());
        } else {
          VCHECK(th.empty() && got.empty(), absent_sig, what, ": ", th.empty() ? cat("returned ", show(got)) : cat("threw ", th), " expected the empty string", fail_ctx());
        }
        break;
      }
      case SG_BOOL: {
        bool got = !present;
        std::string th = thrown([&] { got = a.get<bool>(name.c_str()); });
        VCHECK(th.empty() && got == present, present ? "seq-value:get<bool>" : absent_sig, what, ": ", th.empty() ? (got ? "returned true" : "returned false") : cat("threw ", th), fail_ctx());
        mark(U_READ);
        break;
      }
      case SG_INT:
      case SG_INT_DEF: {
        bool def = g == SG_INT_DEF;
        with_type(code, [&](auto tag) {
          using T = decltype(tag);
          T got = 0;
          std::string th = thrown([&] {
            if (named) got = def ? a.get<T>(name, static_cast<T>(77), fmt) : a.get<T>(name, fmt);
            else got = def ? a.get<T>(pos_index, static_cast<T>(77), fmt) : a.get<T>(pos_index, fmt);
          });
          if (!present) {
            if (def) VCHECK(th.empty() && got == static_cast<T>(77), absent_sig, what, ": ", th.empty() ? cat("returned ", static_cast<int64_t>(got)) : cat("threw ", th), " expected the default", fail_ctx());
            else VCHECK(th == "out_of_range", absent_sig, what, ": ", th.empty() ? cat("returned ", static_cast<int64_t>(got)) : cat("threw ", th), " expected out_of_range", fail_ctx());
          } else {
            uint64_t b = 0;
            Kind o = int_kind(vals[0], b);
            judge_typed(o, th, got == static_cast<T>(b));
          }
        });
        break;
      }
      case SG_FLT:
      case SG_FLT_DEF: {
        bool def = g == SG_FLT_DEF;
        double got = 0;
        std::string th = thrown([&] {
          if (named) got = def ? a.get<double>(name, std::optional<double>(2.5)) : a.get<double>(name);
          else got = def ? a.get<double>(pos_index, std::optional<double>(2.5)) : a.get<double>(pos_index);
        });
        if (!present) {
          if (def) VCHECK(th.empty() && got == 2.5, absent_sig, what, ": ", th.empty() ? cat("returned ", got) : cat("threw ", th), " expected the default", fail_ctx());
          else VCHECK(th == "out_of_range", absent_sig, what, ": ", th.empty() ? cat("returned ", got) : cat("threw ", th), " expected out_of_range", fail_ctx());
        } else {
          c17::FloatLit l;
          Kind o = flt_kind(vals[0], l);
          judge_typed(o, th, o != K_VALUE || same_double(got, l));
        }
        break;
      }
      default: throw std::logic_error("bad getter");
    }
    if (!named && present) used_pos[pos_index] = (*used)[0];
  }
  // at the end the used-flag bookkeeping must still agree with what was read
  {
    bool some_unread = false, some_unknown = false;
    for (uint8_t u : used_pos) some_unread |= (u == U_UNREAD), some_unknown |= (u == U_UNKNOWN);
    for (const auto& v : used_named)
      for (uint8_t u : v) some_unread |= (u == U_UNREAD), some_unknown |= (u == U_UNKNOWN);
    std::string th = thrown([&] { a.assert_none_unused(); });
    std::string tail = cat(" [after ", c.n.size(), " ops; tokens=", show(tokens), "]");
    if (some_unread) VCHECK(th == "invalid_argument", "seq-unused-not-reported", "assert_none_unused ", th.empty() ? "returned" : cat("threw ", th), " although something was never read", tail);
    else if (!some_unknown) VCHECK(th.empty(), "seq-unused-false-alarm", "everything was read but assert_none_unused threw ", th, tail);
    else VCHECK(th.empty() || th == "invalid_argument", "seq-unused-throws", "assert_none_unused threw ", th, tail);
  }
  bool twice = false;
  for (uint64_t n : addressed) twice |= (n >= 2);
  if (twice || partial_multi) ctx().nontrivial_case();
  ctx().cls(partial_multi ? "seq:a typed multi getter failed on a non-last instance of a repeated option" : multi_then_scalar_absent ? "seq:scalar getter after a multi getter on the same absent name" : absent_twice ? "seq:an absent target addressed twice" : twice ? "seq:a supplied target addressed twice" : "seq:every target addressed once");
}

// ---------------------------------------------------------------- generators

static const std::vector<std::string> kTokens = {"", "-", "--", "-a", "-ab", "--x", "--x=", "--x=1", "--x=2", "--y=v=w", "pos", "-5"};

static std::string gen_word(size_t maxlen, const std::string& alphabet) {
  size_t len = 1 + vg::scaled(maxlen - 1);
  return vg::bytes_from(alphabet, len);
}

// a word over every byte value except NUL: any byte, bytes >= 0x80 only, or well-formed UTF-8 (whose continuation bytes
// 0x80..0xBF include 0x85 / 0x89 / 0xA0, the bytes that are NEL / tab / space once a bit is dropped or a Latin-1 table is consulted)
static std::string gen_byte_word(size_t maxlen) {
  static const std::vector<std::string> utf8 = {"\xc3\xa9", "\xc2\xa0", "\xc2\x85", "\xe2\x80\x89", "\xe3\x80\x80", "\xe6\x97\xa5", "\xe6\x9c\xac", "\xf0\x9f\x98\x80", "\xc4\x89", "\xd0\xa0",
      "\xe2\x82\xac", "\xef\xbb\xbf", "\xc2\xa9", "\xe0\xa4\x89", "\xc3\xa0"};
  size_t len = 1 + vg::scaled(maxlen - 1);
  std::string w;
  switch (vg::below(4)) {
    case 0:
      w = vg::bytes(len);
      for (auto& ch : w)
        if (ch == '\0') ch = static_cast<char>(0x80 | vg::below(128));
      break;
    case 1:
      for (size_t i = 0; i < len; i++) w += static_cast<char>(0x80 | vg::below(128));
      break;
    case 2:
      for (size_t i = 0; i < len; i++) w += vg::coin() ? vg::pick(utf8) : vg::bytes_from("ab1=-", 1);
      break;
    default:
      for (size_t i = 0; i < len; i++) w += vg::coin() ? std::string(1, static_cast<char>(1 + vg::below(255))) : vg::bytes_from("ab1=- ", 1);
      break;
  }
  return w;
}

// a token from a richer grammar than the enumerated alphabet (no NUL bytes)
static std::string gen_token() {
  static const std::string name_chars = "abcxyzN_09-.";
  static const std::string value_chars = "abc019 =-\"'\\,./:\t";
  switch (vg::below(11)) {
    case 0: return vg::pick(kTokens);
    case 10: return gen_byte_word(6);
    case 1: return "--" + gen_word(6, name_chars);
    case 2: return "--" + gen_word(6, name_chars) + "=" + (vg::coin() ? std::string() : gen_word(8, value_chars));
    case 3: return "--" + vg::pick<std::string>({"x", "y", "n", "name"}) + "=" + gen_word(6, value_chars);
    case 4: return "-" + gen_word(4, "abcxyzABC0159");
    case 5: return gen_word(8, "abc019=./ ,:+") ; // positional (may contain '=' and blanks)
    case 6: return vg::pick<std::string>({"pos", "300", "4.0", "a=b", "a b", "=", "x--y", "a-", "0x10"});
    case 7: return "--" + vg::pick<std::string>({"x", "y", "n"});
    case 8: return vg::pick<std::string>({"--x=--y", "--x==", "--x=-a", "--a", "--ab", "--5", "---", "---x", "--x-y=1", "--x y=1"});
    default: return vg::pick(kTokens);
  }
}

static Case gen_classify() {
  Case c("classify");
  c.N(7);
  size_t k = vg::below(9);
  for (size_t i = 0; i < k; i++) c.S(gen_token());
  return c;
}

// quote one token for the command line, in the portable subset (token non-empty, no NUL)
static const uint64_t kRawStyle = ~0ULL; // style_seed value (with random_style = false): the whole token in the raw style
static std::string quote_token(const std::string& tok, uint64_t style_seed, bool random_style) {
  static const std::string safe = "abcdefghijklmnopqrstuvwxyzABCDEFGHIJKLMNOPQRSTUVWXYZ0123456789-_=./:,+@%^";
  std::string out;
  size_t i = 0;
  uint64_t s = style_seed;
  while (i < tok.size()) {
    // segment length and style
    size_t seglen;
    unsigned style;
    if (random_style) {
      seglen = 1 + vg::below(tok.size() - i);
      style = vg::below(5);
    } else if (style_seed == kRawStyle) {
      seglen = tok.size() - i;
      style = 4;
    } else {
      seglen = tok.size() - i;
      style = s % 4;
      s /= 4;
    }
    std::string seg = tok.substr(i, seglen);
    i += seglen;
    bool has_sq = seg.find('\'') != std::string::npos, has_bs = seg.find('\\') != std::string::npos, has_nl = seg.find('\n') != std::string::npos;
    if (style == 1 && (has_sq || has_bs)) style = 2;
    if ((style == 0 || style == 3 || style == 4) && has_nl) style = 2;
    switch (style) {
      case 4: // raw: only what the shell itself treats specially is escaped; every other byte (controls, 0x80..0xFF) stands unquoted
        for (char ch : seg) {
          if (strchr(" \t\\\"'$&|;<>()*?[]#~{}!`\r", ch)) out += '\\';
          out += ch;
        }
        break;
      case 0: // bare, escaping only what needs it
        for (char ch : seg) {
          if (safe.find(ch) == std::string::npos) out += '\\';
          out += ch;
        }
        break;
      case 1: out += "'" + seg + "'"; break;
      case 2:
        out += '"';
        for (char ch : seg) {
          if (ch == '"' || ch == '\\' || ch == '$' || ch == '`') out += '\\';
          out += ch;
        }
        out += '"';
        break;
      default: // every character escaped
        for (char ch : seg) {
          out += '\\';
          out += ch;
        }
        break;
    }
  }
  return out;
}

static std::string join_cmdline(const std::vector<std::string>& quoted, uint64_t sep_style) {
  static const char* seps[4] = {" ", "  ", "\t", " \t "};
  std::string cmd;
  if (sep_style & 4) cmd += seps[(sep_style >> 3) & 3];
  for (size_t i = 0; i < quoted.size(); i++) {
    if (i) cmd += seps[(sep_style + i) & 3];
    cmd += quoted[i];
  }
  if (sep_style & 32) cmd += seps[(sep_style >> 6) & 3];
  return cmd;
}

static Case gen_cmdline() {
  std::vector<std::string> quoted;
  size_t k = vg::below(7);
  for (size_t i = 0; i < k; i++) {
    std::string t;
    if (vg::chance(1, 4)) {
      // tokens with shell metacharacters, quotes, backslashes, blanks
      t = gen_word(8, "ab1 \t\"'\\$`*?;&|<>()#~!{}[]=-\n");
    } else if (vg::chance(1, 3)) {
      // tokens over all 255 non-NUL byte values (possibly as the name or the value of an option)
      t = vg::pick<std::string>({"", "", "--", "--n=", "-", "--x"}) + gen_byte_word(8);
    } else {
      t = gen_token();
    }
    if (t.empty()) {
      ctx().exclude("empty token on a command line (a stand-alone \"\" yields no token: DESIGN section 6 item 5)");
      continue;
    }
    quoted.push_back(quote_token(t, 0, true));
  }
  return Case("cmdline").S(join_cmdline(quoted, vg::below(256)));
}

static std::string gen_numeral_text(uint64_t code, uint64_t f) {
  // magnitude
  u128 mag;
  unsigned bits = c17::type_bits(code);
  switch (vg::below(8)) {
    case 0: mag = vg::below(300); break;
    case 1: mag = (static_cast<u128>(1) << (bits - (c17::type_signed(code) ? 1 : 0))) + vg::below(5) - 2; break;
    case 2: mag = (static_cast<u128>(1) << vg::pick<unsigned>({7, 8, 15, 16, 31, 32, 63, 64})) + vg::below(5) - 2; break;
    case 3: mag = (static_cast<u128>(1) << 64) - (static_cast<u128>(1) << vg::pick<unsigned>({7, 8, 15, 16, 31, 32})) + vg::below(5) - 2; break;
    case 4: mag = (static_cast<u128>(vg::u64()) << 64) | vg::u64(); break;
    case 5: mag = vg::interesting64(); break;
    case 6: mag = vg::u64() >> vg::below(64); break;
    default: mag = static_cast<u128>(vg::interesting64()) + vg::interesting64(); break;
  }
  // rendering: usually in a base the format accepts
  int base;
  std::string prefix;
  switch (vg::below(6)) {
    case 0: base = 10; break;
    case 1: base = 16; prefix = vg::coin() ? "0x" : "0X"; break;
    case 2: base = 8; prefix = "0"; break;
    case 3: base = 16; break; // bare hex digits
    default:
      base = kFmtBase[f] ? kFmtBase[f] : 10;
      if (f == 1 && vg::coin()) prefix = "0x";
      break;
  }
  std::string digits = c17::render(mag, base);
  if (base == 16 && vg::coin())
    for (auto& ch : digits) ch = static_cast<char>(toupper(ch));
  std::string sign = vg::pick<std::string>({"", "", "", "-", "-", "+"});
  std::string lead = vg::pick<std::string>({"", "", "", "", " ", "\t", "  ", "\n", "\v\f\r"});
  // a numeral stays a complete numeral however many blanks precede it and however many zeros precede its digits
  if (vg::chance(1, 10)) lead = vg::coin() ? std::string(vg::below(201), vg::pick<char>({' ', '\t', '\n'})) : vg::bytes_from(" \t\n\v\f\r", vg::below(201));
  std::string zeros;
  if (vg::chance(1, 6)) zeros = std::string(vg::coin() ? vg::below(30) : vg::below(201), '0');
  std::string text = lead + sign + prefix + zeros + digits;
  // garbage
  switch (vg::below(12)) {
    case 0: text += vg::pick<std::string>({" ", "x", ".", ".0", "e3", "L", "u", "h", ",", "-", "+", "_", "\t", "g", "8", "9"}); break;
    case 1: text = vg::pick<std::string>({"", " ", "+", "-", "0x", "0X", "x", "--", "+-1", "-+1", "- 1", "+ 1", "0x-1", "1 2", "0b1", "0b", "0o7", "#5", "$5", "१"}); break;
    case 2: text.insert(vg::below(text.size() + 1), vg::pick<std::string>({" ", "_", ",", "'", "x"})); break;
    default: break;
  }
  return text;
}

static Case gen_int_edge() {
  uint64_t code = vg::below(8), f = vg::below(4);
  std::string text = gen_numeral_text(code, f);
  uint64_t mode = vg::below(5);
  if ((mode == 1 || mode == 4) && !text.empty() && text[0] == '-') mode = (mode == 1) ? 0 : 3;
  return Case("int_edge").N(code).N(f).N(mode).S(text);
}

static Case gen_float() {
  std::string text;
  std::string lead = vg::pick<std::string>({"", "", "", " ", "\t", " \n"});
  std::string sign = vg::pick<std::string>({"", "", "-", "+"});
  auto digits = [](size_t max) { return vg::bytes_from("0123456789", 1 + vg::below(max)); };
  switch (vg::below(8)) {
    case 0: text = digits(18); break;
    case 1: text = digits(10) + "." + (vg::coin() ? digits(12) : std::string()); break;
    case 2: text = "." + digits(12); break;
    case 3: text = (vg::coin() ? digits(8) : digits(3) + "." + digits(8)) + vg::pick<std::string>({"e", "E"}) + vg::pick<std::string>({"", "+", "-"}) + std::to_string(vg::below(40)); break;
    case 4: text = digits(3) + "." + digits(3) + "e" + vg::pick<std::string>({"", "-"}) + std::to_string(vg::below(400)); break;
    case 5: text = vg::pick<std::string>({"0x", "0X"}) + vg::bytes_from("0123456789abcdefABCDEF", 1 + vg::below(10)) + (vg::coin() ? "." + vg::bytes_from("0123456789abcdef", vg::below(6)) : std::string()) +
          (vg::coin() ? vg::pick<std::string>({"p", "P"}) + vg::pick<std::string>({"", "+", "-"}) + std::to_string(vg::below(60)) : std::string());
      break;
    case 6: text = vg::pick<std::string>({"inf", "INF", "Infinity", "infinity", "nan", "NaN", "nan(1)", "nan(abc_9)", "0", "0.0", "-0", "1e308", "1e-308", "4.9e-324", "1.7976931348623157e308", "3.4028235e38", "16777217", "9007199254740993", "0.1", "1e23", "8.5e-1"}); break;
    default: text = digits(4) + "." + digits(4); break;
  }
  // long runs of leading blanks / leading zeros leave a literal complete (and its value unchanged)
  if (vg::chance(1, 12)) lead = vg::bytes_from(" \t\n\v\f\r", vg::below(201));
  if (vg::chance(1, 12) && !text.empty() && (isdigit(static_cast<unsigned char>(text[0])) || text[0] == '.') && text.compare(0, 2, "0x") != 0 && text.compare(0, 2, "0X") != 0)
    text = std::string(vg::below(201), '0') + text;
  text = lead + sign + text;
  switch (vg::below(10)) {
    case 0: text += vg::pick<std::string>({" ", "f", "F", "d", "x", "e", "e+", "e-", "p1", ".", "..", ",5", "L", "%", "_"}); break;
    case 1: text = vg::pick<std::string>({"", " ", ".", "+", "-", "e5", ".e5", "+.", "-.e1", "infin", "infinit", "infinityx", "nan(", "nan(a b)", "na", "in", "0x", "0x.", "0xp1", "0x1p", "0x1p+", "1e", "1e+", "- 1", "+-1", "1 2", "1,5", "--1"}); break;
    case 2: text.insert(vg::below(text.size() + 1), vg::pick<std::string>({" ", "_", ",", "x", "."})); break;
    default: break;
  }
  uint64_t mode = vg::below(4);
  if (mode == 1 && !text.empty() && text[0] == '-') mode = 0;
  return Case("float").N(vg::below(2)).N(mode).S(text);
}

static Case gen_absent() {
  std::string other = vg::pick<std::string>({"--m=5", "pos", "-a", "--n2", "--nn=1", "-N", "5", "--", "-"});
  Case c("absent");
  c.N(vg::below(12)).N(vg::below(4)).N(vg::below(5));
  if (vg::chance(4, 5)) c.S(other);
  return c;
}

static Case gen_unused() {
  Case c("unused");
  size_t k = 1 + vg::below(6);
  std::vector<std::string> toks;
  for (size_t i = 0; i < k; i++) toks.push_back(vg::chance(2, 3) ? vg::pick(kTokens) : vg::pick<std::string>({"17", "--x=3", "--n=12", "--n=7", "-n", "-xy", "--y", "0", "--z=abc"}));
  c17::RefArgs r = c17::classify(toks);
  size_t handles = r.positional.size() + r.named.size();
  uint64_t all = (handles >= 64) ? ~0ULL : ((1ULL << handles) - 1);
  uint64_t mask;
  switch (vg::below(4)) {
    case 0: mask = all; break;
    case 1: mask = all & ~(1ULL << vg::below(handles ? handles : 1)); break;
    case 2: mask = vg::u64() & all; break;
    default: mask = (1ULL << vg::below(handles ? handles : 1)) & all; break;
  }
  c.N(mask).N(vg::u64());
  for (auto& t : toks) c.S(t);
  return c;
}

static Case gen_seq() {
  Case c("seq");
  size_t k = vg::below(6);
  for (size_t i = 0; i < k; i++) {
    switch (vg::below(4)) {
      case 0: c.S(vg::pick(kTokens)); break;
      case 1: c.S(gen_token()); break;
      default: c.S(vg::pick<std::string>({"17", "--x=3", "--n=12", "--n=7", "-n", "-xy", "--y", "0", "--z=abc", "--x=0x10", "--n=-5", "--n=300", "--f=1.5", "--x=1e3", "-5", "4.0", "--n=", "--x= 7", "--n=08", "--zz=1"})); break;
    }
  }
  // a quarter of the cases: one option repeated 2..5 times whose values mix numerals with texts that a typed getter rejects
  // (or that fit only some types), other tokens in between, and a typed multi getter addressed to it early in the sequence
  bool repeated = vg::chance(1, 4);
  std::string rep_name;
  if (repeated) {
    static const std::vector<std::string> good = {"1", "3", "12", "0", "-5", "0x10", "7", "100"};
    static const std::vector<std::string> odd = {"x", "", "abc", "1.5", "300", "70000", "99999999999", "1e3", " 7", "7 ", "08", "-", "0x", "--n", "4294967296", "-129", "nan"};
    rep_name = vg::pick<std::string>({"n", "x", "f", "name"});
    size_t reps = 2 + vg::below(4);
    std::vector<std::string> toks;
    for (size_t i = 0; i < reps; i++) {
      toks.push_back("--" + rep_name + "=" + (vg::chance(2, 3) ? vg::pick(good) : vg::pick(odd)));
      if (vg::chance(1, 4) && !c.s.empty()) {
        toks.push_back(c.s.back());
        c.s.pop_back();
      }
    }
    for (auto& t : c.s) toks.push_back(t);
    c.s = toks;
  }
  c17::RefArgs r = c17::classify(c.s);
  SeqTargets tt = seq_targets(r);
  size_t nops = 1 + vg::scaled(9);
  uint64_t focus = vg::below(tt.size());
  if (repeated) {
    for (size_t t = 0; t < tt.supplied; t++)
      if (tt.names[t] == rep_name) focus = t;
    uint64_t g = vg::chance(3, 4) ? SG_MULTI_I : SG_MULTI_F;
    if (vg::chance(1, 3)) c.N(seq_op(vg::below(tt.size()), vg::below(SG_ASSERT), 6, 0));
    c.N(seq_op(focus, g, vg::chance(1, 2) ? 6 : vg::below(8), vg::chance(2, 3) ? 0 : vg::below(4)));
    if (vg::chance(1, 2)) nops = vg::below(3);
  }
  for (size_t i = 0; i < nops; i++) {
    // most operations go to one or two targets, so that the same name / index is asked several times in different ways
    uint64_t target = vg::chance(3, 5) ? focus : vg::below(tt.size());
    uint64_t g = vg::chance(1, 12) ? SG_ASSERT : vg::below(SG_ASSERT);
    uint64_t code = vg::chance(1, 2) ? 6 : vg::below(8);
    uint64_t f = vg::chance(2, 3) ? 0 : vg::below(4);
    c.N(seq_op(target, g, code, f));
  }
  return c;
}

// ---------------------------------------------------------------- enumerators

// all token lists of length <= maxlen over kTokens, in a fixed order; f(index, list)
template <typename F>
static void for_all_lists(size_t maxlen, const std::vector<std::string>& alphabet, F&& f) {
  uint64_t index = 0;
  for (size_t len = 0; len <= maxlen; len++) {
    uint64_t total = 1;
    for (size_t k = 0; k < len; k++) total *= alphabet.size();
    for (uint64_t code = 0; code < total; code++, index++) {
      if (!f(index, code, len)) return;
    }
  }
}

static std::vector<std::string> decode_list(uint64_t code, size_t len, const std::vector<std::string>& alphabet) {
  std::vector<std::string> v(len);
  for (size_t k = 0; k < len; k++) {
    v[len - 1 - k] = alphabet[code % alphabet.size()];
    code /= alphabet.size();
  }
  return v;
}

static void enum_classify(Enum& e) {
  size_t maxlen = 5;
  for_all_lists(maxlen, kTokens, [&](uint64_t index, uint64_t code, size_t len) {
    if (e.stop) return false;
    if (!e.mine(index)) return true;
    Case c("classify");
    c.s = decode_list(code, len, kTokens);
    // quick: the 5-token lists go through one of the three constructors (rotating), everything else through all three
    c.N((len == 5 && !e.thorough()) ? (1ULL << (index % 3)) : 7);
    e.exec(c);
    return true;
  });
  e.complete(cat("all token lists of <= ", maxlen, " tokens over {\"\", -, --, -a, -ab, --x, --x=, --x=1, --x=2, --y=v=w, pos, -5} through the vector, vector&& and argv constructors",
      e.thorough() ? "" : " (5-token lists: one constructor each, rotating)"));
}

static void enum_cmdline(Enum& e) {
  std::vector<std::string> alphabet(kTokens.begin() + 1, kTokens.end()); // no empty token on a command line
  ctx().exclude("empty token on a command line (a stand-alone \"\" yields no token: DESIGN section 6 item 5)", 0);
  size_t maxlen = 5;
  for_all_lists(maxlen, alphabet, [&](uint64_t index, uint64_t code, size_t len) {
    if (e.stop) return false;
    if (!e.mine(index)) return true;
    std::vector<std::string> toks = decode_list(code, len, alphabet);
    uint64_t h = mix(index, 17);
    std::vector<std::string> quoted;
    for (size_t k = 0; k < toks.size(); k++) quoted.push_back(quote_token(toks[k], (h >> (2 * k)) & 3, false));
    e.exec(Case("cmdline").S(join_cmdline(quoted, (h >> 20) & 255)));
    return true;
  });
  // every quoting style for every list of <= 3 tokens
  uint64_t idx2 = 0;
  for_all_lists(3, alphabet, [&](uint64_t, uint64_t code, size_t len) {
    if (e.stop) return false;
    uint64_t styles = 1ULL << (2 * len);
    for (uint64_t st = 0; st < styles; st++, idx2++) {
      if (!e.mine(idx2)) continue;
      std::vector<std::string> toks = decode_list(code, len, alphabet);
      std::vector<std::string> quoted;
      for (size_t k = 0; k < toks.size(); k++) quoted.push_back(quote_token(toks[k], (st >> (2 * k)) & 3, false));
      e.exec(Case("cmdline").S(join_cmdline(quoted, mix(idx2, 3) & 255)));
    }
    return true;
  });
  // every byte value 1..255 at the start, in the middle and at the end of a word, of an option name and of an option value,
  // standing unquoted (a backslash only in front of the bytes the shell treats specially; newline inside "...")
  uint64_t idx3 = 0;
  for (unsigned b = 1; b < 256 && !e.stop; b++) {
    std::string B(1, static_cast<char>(b));
    std::vector<std::vector<std::string>> lists = {{B}, {"a" + B + "c"}, {"x" + B, B + "y"}, {"--n=1" + B + "2"}, {"--n" + B + "m=1"}, {"pos", B + B, "--x"}, {"-a" + B}, {"--x=" + B, "p" + B}};
    for (const auto& toks : lists) {
      for (uint64_t sep = 0; sep < 2; sep++, idx3++) {
        if (!e.mine(idx3)) continue;
        std::vector<std::string> quoted;
        for (const auto& t : toks) quoted.push_back(quote_token(t, kRawStyle, false));
        e.exec(Case("cmdline").S(join_cmdline(quoted, sep ? (mix(idx3, 9) & 255) : 0)));
      }
    }
  }
  e.complete(cat("all lists of <= ", maxlen, " non-empty tokens of the alphabet joined into one command line (quoting style per token chosen by index hash), all lists of <= 3 tokens x every combination of the 4 quoting styles (bare, '...', \"...\", backslash per character), "
                 "and every byte value 1..255 unquoted at the start / in the middle / at the end of a word, an option name and an option value (8 token lists x 2 separator styles)"));
}

static uint64_t pick_mode(uint64_t h, const std::string& text) {
  uint64_t mode = h % 5;
  if (!text.empty() && text[0] == '-') {
    if (mode == 1) mode = 0;
    if (mode == 4) mode = 3;
  }
  return mode;
}

static void enum_int_sweep(Enum& e) {
  int64_t N = e.thorough() ? 70000 : 4000;
  for (int64_t v = -N; v <= N && !e.stop; v++) {
    if (!e.mine(static_cast<uint64_t>(v + N))) continue;
    uint64_t a = static_cast<uint64_t>(v < 0 ? -v : v);
    std::string sign = v < 0 ? "-" : "";
    std::string texts[3] = {sign + c17::render(a, 10), sign + "0x" + c17::render(a, 16), sign + "0" + c17::render(a, 8)};
    for (int t = 0; t < 3; t++) {
      for (uint64_t code : {0, 1, 2, 4, 5, 6}) {
        for (uint64_t f = 0; f < 4; f++) {
          uint64_t mode = pick_mode(mix(static_cast<uint64_t>(v + N) * 3 + t, code * 4 + f) >> 7, texts[t]);
          e.exec(Case("int_sweep").N(code).N(f).N(mode).S(texts[t]));
        }
      }
    }
  }
  e.complete(cat("every integer in [-", N, ",", N, "] rendered in decimal, 0x-hex and 0-octal x {u8,u16,u32,s8,s16,s32} x {DEFAULT,HEX,DECIMAL,OCTAL} (getter form rotates over 5 forms by hash)"));
}

static void enum_int_edge(Enum& e) {
  // magnitudes around every type boundary and around the 2^64 wrap points
  std::vector<u128> mags = {0, 1, 2, 9, 10};
  for (unsigned k : {7u, 8u, 15u, 16u, 31u, 32u, 63u, 64u}) {
    for (int d = -2; d <= 2; d++) mags.push_back((static_cast<u128>(1) << k) + d);
  }
  for (unsigned k : {7u, 8u, 15u, 16u, 31u, 32u, 63u}) {
    for (int d = -2; d <= 2; d++) mags.push_back((static_cast<u128>(1) << 64) - (static_cast<u128>(1) << k) + d);
  }
  mags.push_back((static_cast<u128>(1) << 64) * 3 + 5);
  mags.push_back((static_cast<u128>(1) << 65) - 1);
  mags.push_back((static_cast<u128>(1) << 100) + 12345);
  mags.push_back(~static_cast<u128>(0));
  std::sort(mags.begin(), mags.end());
  mags.erase(std::unique(mags.begin(), mags.end()), mags.end());
  static const char* signs[3] = {"", "-", "+"};
  struct Deco {
    const char *pre, *post;
  };
  std::vector<Deco> decos = {{"", ""}, {" ", ""}, {"\t", ""}, {"", " "}, {"", "x"}};
  if (e.thorough()) {
    for (Deco d : std::vector<Deco>{{"", "."}, {"", "e3"}, {"\n \r", ""}, {"", "\t"}, {"", "8"}, {"", "g"}, {"", "-"}, {"_", ""}}) decos.push_back(d);
  }
  uint64_t idx = 0;
  for (size_t mi = 0; mi < mags.size() && !e.stop; mi++) {
    for (int si = 0; si < 3; si++) {
      for (int r = 0; r < 5; r++, idx++) {
        if (!e.mine(idx)) continue;
        std::string body;
        switch (r) {
          case 0: body = c17::render(mags[mi], 10); break;
          case 1: body = "0x" + c17::render(mags[mi], 16); break;
          case 2: body = "0" + c17::render(mags[mi], 8); break;
          case 3: body = c17::render(mags[mi], 16); break; // bare hex digits
          default: body = "000" + c17::render(mags[mi], 10); break; // zero padded: octal under DEFAULT
        }
        for (const Deco& d : decos) {
          // the sign goes after the leading blanks
          std::string text = std::string(d.pre) + signs[si] + body + d.post;
          for (uint64_t code = 0; code < 8; code++) {
            for (uint64_t f = 0; f < 4; f++) {
              uint64_t mode = pick_mode(mix(idx, code * 4 + f) >> 9, text);
              e.exec(Case("int_edge").N(code).N(f).N(mode).S(text));
            }
          }
        }
      }
    }
  }
  // padded numerals: every run length 0..200 of leading zeros (after sign and prefix) and of leading blanks (before the sign), around small
  // values, 0 itself and the top of each width; the value does not change, so "fits" does not either
  {
    static const u128 pvals[] = {0, 1, 7, 93, 127, 128, 255, 256, 65535, 65536, 0x7FFFFFFFULL, 0xFFFFFFFFULL, (static_cast<u128>(1) << 63) - 1};
    static const char* blanks[] = {" ", "\t", "\n", " \t\n\v\f\r"};
    uint64_t pidx = 0;
    for (size_t run = 0; run <= 200 && !e.stop; run++) {
      for (int kind = 0; kind < 6; kind++, pidx++) { // 0: zeros, 1..4: blanks of one sort / mixed, 5: blanks and zeros (half each)
        if (!e.mine(pidx)) continue;
        std::string lead, zeros;
        if (kind == 0) zeros.assign(run, '0');
        else if (kind == 5) {
          lead.assign(run / 2, ' ');
          zeros.assign(run - run / 2, '0');
        } else {
          const char* b = blanks[kind - 1];
          size_t bl = strlen(b);
          for (size_t i = 0; i < run; i++) lead += b[i % bl];
        }
        for (size_t vi = 0; vi < sizeof(pvals) / sizeof(pvals[0]); vi++) {
          for (int r = 0; r < 4; r++) {
            uint64_t h = mix(pidx * 64 + vi * 4 + static_cast<uint64_t>(r), 0x9AD);
            const char* sign = signs[h % 3];
            std::string text = lead + sign + (r == 1 ? "0x" : "") + zeros + (r == 2 && zeros.empty() ? "0" : "") + c17::render(pvals[vi], r == 0 ? 10 : r == 2 ? 8 : 16);
            // two (type, format) pairs per text, rotating: the format that reads this rendering, and any
            uint64_t code = (h >> 8) % 8, code2 = (h >> 16) % 8;
            uint64_t f_match = r == 0 ? ((h >> 24) & 1 ? 2 : 0) : r == 2 ? ((h >> 24) & 1 ? 3 : 0) : r == 1 ? ((h >> 24) & 1 ? 1 : 0) : 1;
            if (r == 0 && !zeros.empty()) f_match = 2; // zero-padded decimal digits are decimal only under DECIMAL
            e.exec(Case("int_edge").N(code).N(f_match).N(pick_mode(h >> 28, text)).S(text));
            e.exec(Case("int_edge").N(code2).N((h >> 40) % 4).N(pick_mode(h >> 44, text)).S(text));
          }
        }
      }
    }
  }
  // short strings over an adversarial alphabet
  size_t maxlen = e.thorough() ? 5 : 3;
  uint64_t sidx = 0;
  for_all_strings(" +-018fxe.", maxlen, [&](const std::string& s) {
    if (e.stop) return false;
    if (!e.mine(sidx++)) return true;
    for (uint64_t code = 0; code < 8; code++) {
      for (uint64_t f = 0; f < 4; f++) {
        e.exec(Case("int_edge").N(code).N(f).N(pick_mode(mix(sidx, code * 4 + f) >> 5, s)).S(s));
      }
    }
    return true;
  });
  e.complete(cat(mags.size(), " boundary magnitudes (2^k+-2 for k in 7,8,15,16,31,32,63,64; 2^64-2^k+-2; beyond 2^64) x {no sign,-,+} x 5 renderings x ", decos.size(),
      " blank/garbage decorations x 8 types x 4 formats; 13 values (0, 1, 7, 93, tops of the widths) x 4 renderings behind every run of 0..200 leading zeros / leading blanks (space, tab, newline, mixed) / both "
      "(sign, type, format and getter form rotating by hash; one of the two formats is the one that reads the rendering); every string of length <= ", maxlen, " over {space,+,-,0,1,8,f,x,e,.} x 8 types x 4 formats"));
}

static void enum_float(Enum& e) {
  size_t maxlen = e.thorough() ? 6 : 4;
  uint64_t sidx = 0;
  for_all_strings("15.e-+ 0", maxlen, [&](const std::string& s) {
    if (e.stop) return false;
    if (!e.mine(sidx++)) return true;
    for (uint64_t ft = 0; ft < 2; ft++) {
      uint64_t mode = (mix(sidx, ft) >> 3) % 4;
      if (mode == 1 && !s.empty() && s[0] == '-') mode = 0;
      e.exec(Case("float").N(ft).N(mode).S(s));
    }
    return true;
  });
  static const char* specials[] = {"inf", "INF", "Inf", "infinity", "INFINITY", "infinit", "infin", "infinityx", "in", "nan", "NAN", "nan(1)", "nan()", "nan(abc_9)", "nan(", "nan(a b)", "nan)", "na",
      "0x1p3", "0x1.8p1", "0X1P-2", "0x.8", "0x1.", "0x", "0x.", "0xp1", "0x1p", "0x1p+", "0x1p-", "0xg", "0x1.8", "0x10", "1e", "1e+", "1e-", "1e+5", "1E5", "1.e5", ".e5", ".5e1", "..", "1..", "1e5.0", "1e5e5",
      "1 ", " 1", "\t1", "\n1", "1\n", "1f", "1.0f", "1d", "1,5", "1_0", "0", "-0", "+0", "0.0", "-0.0", "00", "007", "1e308", "1e-308", "4.9e-324", "1e309", "1e-400", "1.7976931348623157e308", "3.4028235e38",
      "3.5e38", "16777217", "9007199254740993", "0.1", "1e23", "123456789012345678901234567890", ".", "+", "-", "", " ", "+.5", "-.5", "+-1", "--1", "1-", "1+"};
  uint64_t k = 0;
  for (const char* sp : specials) {
    for (const char* sign : {"", "-", "+"}) {
      if (!e.mine(k++)) continue;
      std::string s = std::string(sign) + sp;
      for (uint64_t ft = 0; ft < 2; ft++) {
        for (uint64_t mode = 0; mode < 4; mode++) {
          if (mode == 1 && !s.empty() && s[0] == '-') continue;
          e.exec(Case("float").N(ft).N(mode).S(s));
        }
      }
    }
  }
  e.complete(cat("every string of length <= ", maxlen, " over {1,5,.,e,-,+,space,0} and ", sizeof(specials) / sizeof(specials[0]), " special literals (inf/nan/hex floats/truncated exponents) x 3 signs, float and double getters"));
}

static void enum_absent(Enum& e) {
  static const char* others[] = {nullptr, "--m=5", "pos", "-a", "--nn=1", "--"};
  uint64_t idx = 0;
  for (const char* o : others) {
    for (uint64_t code = 0; code < 12; code++) {
      for (uint64_t f = 0; f < 4; f++) {
        for (uint64_t kind = 0; kind < 5; kind++, idx++) {
          if (!e.mine(idx)) continue;
          if (code >= 8 && f != 0) continue;
          if (code == 11 && kind != 0) continue;
          Case c("absent");
          c.N(code).N(f).N(kind);
          if (o) c.S(o);
          e.exec(c);
        }
      }
    }
  }
  e.complete("every getter family (8 integer types x 4 formats, float, double, string, bool) x {named, named+default, get_multi, positional, positional+default} on an argument that was not supplied, with 6 different other tokens present");
}

static void enum_unused(Enum& e) {
  size_t maxlen = e.thorough() ? 4 : 3;
  uint64_t idx = 0;
  for_all_lists(maxlen, kTokens, [&](uint64_t, uint64_t code, size_t len) {
    if (e.stop) return false;
    std::vector<std::string> toks = decode_list(code, len, kTokens);
    c17::RefArgs r = c17::classify(toks);
    size_t handles = r.positional.size() + r.named.size();
    for (uint64_t mask = 0; mask < (1ULL << handles); mask++, idx++) {
      if (!e.mine(idx)) continue;
      Case c("unused");
      c.N(mask).N(mix(idx, 5));
      c.s = toks;
      e.exec(c);
    }
    return true;
  });
  e.complete(cat("all token lists of <= ", maxlen, " tokens over the 12-token alphabet x every subset of read handles (positional indices and distinct names) read before assert_none_unused; getter kind per handle by hash"));
}

// every ordered pair (and, for the absent names, triple) of getter calls on one object
static void enum_seq(Enum& e) {
  static const std::vector<std::vector<std::string>> lists = {{}, {"--x=1"}, {"--x=1", "--x=2"}, {"pos", "--y=v=w"}, {"-ab", "5"}, {"--n=12", "--x"}, {"--n=abc", "7"},
      {"--n=1", "--n=x", "--n=3"}, {"--n=x", "--n=1"}, {"--n=1", "--n=2", "--n=1.5", "pos"}, {"--x=1", "--n=7", "--x=", "--n=8"}};
  uint64_t idx = 0;
  for (const auto& toks : lists) {
    c17::RefArgs r = c17::classify(toks);
    SeqTargets tt = seq_targets(r);
    std::vector<uint64_t> ops;
    for (uint64_t t = 0; t < tt.size(); t++)
      for (uint64_t g = 0; g < SG_ASSERT; g++) ops.push_back(seq_op(t, g, 6, 0));
    ops.push_back(seq_op(0, SG_ASSERT, 6, 0));
    for (uint64_t o1 : ops) {
      if (e.stop) return;
      if (!e.mine(idx++)) continue;
      for (uint64_t o2 : ops) {
        Case c("seq");
        c.s = toks;
        c.N(o1).N(o2);
        e.exec(c);
      }
    }
    // triples on the targets that were not supplied (absent names and the positional index past the end)
    std::vector<uint64_t> aops;
    for (uint64_t t = tt.supplied; t < tt.size(); t++) {
      if (t >= tt.names.size() && t - tt.names.size() < tt.positionals) continue;
      if (t > tt.supplied && t < tt.names.size()) continue; // one absent name is enough for the triples
      if (t == tt.size() - 1) continue; // one index past the end is enough
      for (uint64_t g = 0; g < SG_ASSERT; g++) aops.push_back(seq_op(t, g, 6, 0));
    }
    for (uint64_t o1 : aops) {
      if (e.stop) return;
      if (!e.mine(idx++)) continue;
      for (uint64_t o2 : aops)
        for (uint64_t o3 : aops) {
          Case c("seq");
          c.s = toks;
          c.N(o1).N(o2).N(o3);
          e.exec(c);
        }
    }
  }
  e.complete("11 token lists (empty; one / repeated option; positional + option; flag group + positional; option without value; non-numeric value; an option repeated 2..3 times "
             "whose first / middle / last value is not an integer, alone, with a positional and interleaved with a second repeated option) x every ordered pair of "
             "getter calls over {every supplied name, 3 names that were not supplied, every positional index up to 2 past the end} x the 10 getter forms "
             "(get_multi<string/int32/double>, get<string> with and without flag, get<bool>, get<int32> / get<double> with and without default) and "
             "assert_none_unused; every ordered triple of the 10 getter forms on one absent name and on the positional index past the end");
}

int main(int argc, char** argv) {
  std::vector<SubCheck> checks;
  checks.push_back({"classify", run_classify, gen_classify, 30000, 200000, 100, enum_classify});
  checks.push_back({"cmdline", run_cmdline, gen_cmdline, 80000, 400000, 100, enum_cmdline});
  checks.push_back({"int_sweep", run_int, nullptr, 0, 0, 100, enum_int_sweep});
  checks.push_back({"int_edge", run_int, gen_int_edge, 250000, 1500000, 100, enum_int_edge});
  checks.push_back({"float", run_float, gen_float, 120000, 800000, 100, enum_float});
  checks.push_back({"absent", run_absent, gen_absent, 2000, 20000, 100, enum_absent});
  checks.push_back({"unused", run_unused, gen_unused, 60000, 300000, 100, enum_unused});
  checks.push_back({"seq", run_seq, gen_seq, 60000, 400000, 100, enum_seq});
  return main_(argc, argv, checks);
}
