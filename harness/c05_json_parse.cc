// C05 - JSON parser is total and standard-conformant; strict mode = no extensions.
//
// subchecks (the oracle for one text is harness/c05/oracle.hh; the reference reader is harness/c05/refjson.hh)
//   doc    grammar-generated standard documents (built by construction: arbitrary inter-token whitespace, every escape
//          incl. \/ and \u0000..ÿ in both hex cases, raw ASCII 0x20..0x7F, integers to the int64 boundaries,
//          fractions, exponents in both cases and signs, integer parts of up to 25 digits, unique keys, empty containers,
//          occasional deep nesting): all three entry points x {default, strict} must return the reference value; the
//          reader entry point must stop exactly after the value when a non-extending byte follows; string entry
//          points accept trailing whitespace and reject any other trailing byte. One document in four is also followed
//          by a "comment tail" (1..3 complete // comment lines, each ended by \n, \r or \r\n, with whitespace between
//          them): the string entry points accept document + tail with the reference value in default mode and reject it
//          in strict mode (comments are an extension), and reject document + tail + non-whitespace in both modes - a
//          comment runs to the end of its line only, so what stands after the line break is trailing data.
//   ext    a standard document with ONE documented extension injected (trailing comma, hex integer, n/t/f, // comment):
//          default mode returns the documented meaning (= the value of the original document), strict mode throws
//          parse_error/out_of_range.
//   edit   every proper prefix and every single-byte delete/replace/insert (structural alphabet) of a document, each run
//          through check_text: only parse_error/out_of_range escape, entry points agree, and whenever the edited text is
//          itself a standard document inside the domain it must be read as the reference reads it.
//   seq    a stream of texts (documents, proper prefixes, single-byte edits, unstructured bytes; a third of the streams made
//          of documents nested up to 500 deep) parsed one after the other on one thread, two thirds through the reader entry
//          point only: only parse_error/out_of_range escape, and every text that is a standard document inside the domain
//          is accepted with the reference value and extent whatever was parsed or rejected before it.
#include <thread>

#include <phosg/JSON.hh>

#include "c05/oracle.hh"
#include "verif.hh"

using namespace verif;
using jt::Node;
using phosg::JSON;

// ---------------------------------------------------------------- document generator (token level)

enum TokKind { T_WS,
  T_OPEN,
  T_CLOSE,
  T_COMMA,
  T_COLON,
  T_LITERAL,
  T_INT,
  T_NUM,
  T_STR };
struct Tok {
  TokKind k;
  std::string text;
  int64_t ival = 0; // T_INT
  bool closes_nonempty = false; // T_CLOSE
};

static std::string gen_ws() {
  if (vg::chance(3, 5)) return "";
  size_t n = 1 + vg::below(3);
  return vg::bytes_from(" \t\n\r   ", n);
}

static std::string digits(size_t n, bool no_leading_zero) {
  std::string r;
  for (size_t k = 0; k < n; k++) {
    char lo = (k == 0 && no_leading_zero && n > 1) ? '1' : '0';
    r += static_cast<char>(lo + vg::below('9' - lo + 1));
  }
  return r;
}

static Tok gen_int_tok() {
  int64_t v;
  switch (vg::below(5)) {
    case 0: v = vg::pick<int64_t>({INT64_MIN, INT64_MAX, 0, 1, -1, INT64_MIN + 1, INT64_MAX - 1, 10, 255, -256, 1000000, 9007199254740993LL}); break;
    case 1: v = vg::range(-100, 100); break;
    default: v = static_cast<int64_t>(vg::interesting64()); break;
  }
  Tok t{T_INT, std::to_string(v)};
  t.ival = v;
  if (v == 0 && vg::chance(1, 4)) t.text = "-0";
  return t;
}

// Spelling of an exponent's magnitude. exp = e [+-] 1*DIGIT puts no bound on the number of digits: e0000000002 is the exponent 2.
// A quarter of the exponents carry leading zeros: 1..3 of them or 0..20.
static std::string exp_spelling(int64_t magnitude) {
  std::string ed = std::to_string(magnitude);
  if (vg::chance(1, 4)) ed = std::string(vg::coin() ? 1 + vg::below(3) : vg::below(21), '0') + ed;
  return ed;
}

// Un-normalised mantissa. JSON does not require 1 <= m < 10: "0.001e310" (= 1e307) and "12345678901234567890e-325"
// (= 1.2e-306) are numbers within double range although the exponent ALONE is beyond what a double's exponent can hold.
// The numeral has at most 40 digits and a 3-digit exponent chosen so that the VALUE lies within 1e-290..1e291.
static std::string gen_unnormalised_num() {
  std::string s = vg::chance(1, 3) ? "-" : "";
  int64_t mag; // decimal exponent of the mantissa's leading significant digit
  if (vg::coin()) {
    size_t id = 2 + vg::below(37); // integer part of 2..38 digits
    s += digits(id, true);
    mag = static_cast<int64_t>(id) - 1;
    if (vg::chance(1, 3)) s += "." + digits(1 + vg::below(2), false);
  } else {
    size_t z = vg::below(36); // 0.<z zeros><significant digits>
    s += "0." + std::string(z, '0') + static_cast<char>('1' + vg::below(9)) + digits(vg::below(4), false);
    mag = -static_cast<int64_t>(z) - 1;
  }
  int64_t lo = -290 - mag, hi = 290 - mag, e;
  switch (vg::below(4)) {
    case 0: e = lo + static_cast<int64_t>(vg::below(45)); break; // value near 1e-290
    case 1: e = hi - static_cast<int64_t>(vg::below(45)); break; // value near 1e290
    case 2: e = -mag + vg::range(-3, 3); break; // value near 1
    default: e = vg::range(lo, hi);
  }
  if (e < lo) e = lo;
  if (e > hi) e = hi;
  s += vg::coin() ? "e" : "E";
  if (e < 0) s += "-";
  else if (vg::coin()) s += "+";
  s += exp_spelling(e < 0 ? -e : e);
  return s;
}

static Tok gen_num_tok() {
  if (vg::chance(1, 6)) return Tok{T_NUM, gen_unnormalised_num()};
  static const std::vector<std::string> specials = {"5e-1", "25e-1", "1E+2", "1e5", "0.5", "-0.0", "0e0", "1.25E-3", "12345678901234567890.5",
      "1e22", "123e20", "100e-2", "9223372036854775807e0", "9223372036854775808.0", "1e19", "1.0", "0.1e1", "-5e-1", "1e-5", "2.5E+10",
      "0.000001", "1234567890123456789012345.5", "3e0", "7E-0", "0.0e+5", "1e300", "1e-300", "-1.5e+299", "6.02214076e23", "1e1", "10e-1",
      "18446744073709551616.0", "99999999999999999999e-20", "4e18", "92233720368547758e2", "1e18", "9e18", "10e18"};
  if (vg::chance(1, 3)) return Tok{T_NUM, vg::pick(specials)};
  std::string s = vg::chance(1, 3) ? "-" : "";
  size_t id = vg::chance(1, 6) ? 19 + vg::below(7) : 1 + vg::below(8);
  std::string ip = vg::chance(1, 4) ? "0" : digits(id, true);
  s += ip;
  bool frac = vg::coin();
  size_t fd = 0;
  if (frac) {
    fd = 1 + vg::below(vg::chance(1, 5) ? 12 : 4);
    s += "." + digits(fd, false);
  }
  if (!frac || vg::coin()) {
    // exponent such that the value stays within 1e-290..1e290
    int64_t mag = static_cast<int64_t>(ip.size()) - 1;
    int64_t lo = -290 - mag + static_cast<int64_t>(ip == "0" ? fd : 0), hi = 290 - mag;
    int64_t e = vg::chance(1, 2) ? vg::range(-12, 12) : vg::range(lo, hi);
    if (e < lo) e = lo;
    if (e > hi) e = hi;
    s += vg::coin() ? "e" : "E";
    if (e < 0) s += "-";
    else if (vg::coin()) s += "+";
    s += exp_spelling(e < 0 ? -e : e);
  }
  return Tok{T_NUM, s};
}

static std::string gen_string_body() {
  std::string r;
  size_t n = vg::chance(1, 6) ? 0 : vg::scaled(10);
  static const char* simple[] = {"\\\"", "\\\\", "\\/", "\\b", "\\f", "\\n", "\\r", "\\t"};
  for (size_t k = 0; k < n; k++) {
    switch (vg::below(5)) {
      case 0: r += simple[vg::below(8)]; break;
      case 1: {
        unsigned v = vg::chance(1, 2) ? vg::pick<unsigned>({0x00, 0x22, 0x5C, 0x7F, 0x80, 0xFF, 0x1F, 0x20, 0xE9, 0x0A}) : vg::below(256);
        char b[8];
        snprintf(b, sizeof(b), vg::coin() ? "\\u%04x" : "\\u%04X", v);
        r += b;
        break;
      }
      default: {
        char c = static_cast<char>(0x20 + vg::below(0x60)); // 0x20..0x7F
        if (c == '"' || c == '\\') c = vg::pick<char>({'/', 'u', 'x', ' ', '0', 'n', '{', ']', ',', ':'});
        r += c;
      }
    }
  }
  return r;
}

static void gen_value(std::vector<Tok>& out, int depth, int& budget, int max_depth) {
  budget--;
  bool leaf = depth >= max_depth || budget <= 0;
  unsigned k = leaf ? vg::below(6) : vg::below(10);
  switch (k) {
    case 0: out.push_back({T_LITERAL, vg::pick<std::string>({"null", "true", "false"})}); return;
    case 1: out.push_back(gen_int_tok()); return;
    case 2:
    case 3: out.push_back(gen_num_tok()); return;
    case 4:
    case 5: out.push_back({T_STR, "\"" + gen_string_body() + "\""}); return;
    case 6:
    case 7: {
      out.push_back({T_OPEN, "["});
      size_t cnt = vg::chance(1, 5) ? 0 : 1 + vg::scaled(4);
      for (size_t j = 0; j < cnt; j++) {
        if (j) out.push_back({T_COMMA, ","});
        out.push_back({T_WS, gen_ws()});
        gen_value(out, depth + 1, budget, max_depth);
        out.push_back({T_WS, gen_ws()});
      }
      if (!cnt) out.push_back({T_WS, gen_ws()});
      Tok c{T_CLOSE, "]"};
      c.closes_nonempty = cnt > 0;
      out.push_back(c);
      return;
    }
    default: {
      out.push_back({T_OPEN, "{"});
      size_t cnt = vg::chance(1, 5) ? 0 : 1 + vg::scaled(4);
      for (size_t j = 0; j < cnt; j++) {
        if (j) out.push_back({T_COMMA, ","});
        out.push_back({T_WS, gen_ws()});
        // unique keys: the key value ends in a per-entry digit
        out.push_back({T_STR, "\"" + gen_string_body() + static_cast<char>('0' + j) + "\""});
        out.push_back({T_WS, gen_ws()});
        out.push_back({T_COLON, ":"});
        out.push_back({T_WS, gen_ws()});
        gen_value(out, depth + 1, budget, max_depth);
        out.push_back({T_WS, gen_ws()});
      }
      if (!cnt) out.push_back({T_WS, gen_ws()});
      Tok c{T_CLOSE, "}"};
      c.closes_nonempty = cnt > 0;
      out.push_back(c);
      return;
    }
  }
}

static std::string render(const std::vector<Tok>& t) {
  std::string r;
  for (const auto& k : t) r += k.text;
  return r;
}

static std::vector<Tok> gen_doc_tokens(int budget, int max_depth) {
  std::vector<Tok> t;
  gen_value(t, 0, budget, max_depth);
  return t;
}

// A string body that holds structural characters IN BULK (hundreds to thousands of brackets, braces, commas, colons, slashes,
// blanks, escaped quotes and escaped backslashes): what a string contains is not structure, whatever its amount, and a string
// may end in any number of escaped backslashes right before its closing quote. `elements` = number of characters/escapes.
static const char* const kBulkElems[10] = {"[", "{", "]", "}", ",", ":", "/", " ", "\\\"", "\\\\"};
static const char* const kBulkTails[6] = {"", "\\\\", "\\\\\\\\", "\\\\\\\\\\\\", "\\\"", ""}; // what stands right before the closing quote
static std::string bulk_string_body(unsigned theme, unsigned elem, size_t elements, uint64_t seed, unsigned tail) {
  std::string filler = vg::expand(seed, elements), r;
  r.reserve(2 * elements + 8);
  for (size_t k = 0; k < elements; k++) {
    unsigned v = static_cast<unsigned char>(filler[k]);
    switch (theme % 4) {
      case 0: r += kBulkElems[elem % 10]; break; // a run of one element
      case 1: r += (v % 8) ? kBulkElems[v % 2] : kBulkElems[(v / 8) % 10]; break; // mostly opening brackets
      case 2: r += kBulkElems[v % 10]; break; // uniform over the ten elements
      default: r += (k < elements / 2) ? kBulkElems[v % 2] : kBulkElems[2 + v % 2]; // text that looks like nested containers
    }
  }
  return r + kBulkTails[tail % 6];
}
static std::string gen_bulk_string_body() {
  size_t elements = vg::chance(1, 4) ? vg::below(300) : 300 + vg::below(2300);
  return bulk_string_body(vg::below(4), vg::below(10), elements, vg::u64(), vg::below(6));
}
static std::string gen_small_string_body() { return gen_string_body() + kBulkTails[vg::below(6)]; }

// A document (mostly of more than 1000 bytes) made of a few strings - keys and values - with bulk structural content, small
// strings with the same endings and small values between them.
static std::string gen_bulk_doc() {
  bool dict = vg::coin();
  size_t cnt = 2 + vg::below(3);
  std::string r = dict ? "{" : "[";
  for (size_t j = 0; j < cnt; j++) {
    if (j) r += ",";
    r += gen_ws();
    if (dict) {
      // unique keys: the key starts with a per-entry digit (so that it can END in an escaped backslash)
      r += "\"" + std::string(1, static_cast<char>('0' + j)) + (vg::coin() ? gen_bulk_string_body() : gen_small_string_body()) + "\"";
      r += gen_ws() + ":" + gen_ws();
    }
    switch (vg::below(4)) {
      case 0: r += "\"" + gen_small_string_body() + "\""; break;
      case 1: r += render(gen_doc_tokens(1 + static_cast<int>(vg::below(5)), 2)); break;
      default: r += "\"" + gen_bulk_string_body() + "\"";
    }
    r += gen_ws();
  }
  r += dict ? "}" : "]";
  return r;
}

static std::string gen_nested(size_t depth) {
  // brackets nested `depth` deep with a small payload at the bottom
  std::string open, close;
  for (size_t k = 0; k < depth; k++) {
    if (vg::coin()) {
      open += "[";
      close = "]" + close;
    } else {
      open += "{\"k\":";
      close = "}" + close;
    }
  }
  return open + vg::pick<std::string>({"[]", "{}", "1", "\"x\"", "5e-1", "null"}) + close;
}

// ---------------------------------------------------------------- doc

static const std::string kNonExtending = std::string(" ,]}:\"\n#@!z[{-/*") + std::string(1, '\0') + "\xff";
// first trailing byte for the string entry points: not whitespace, not the start of a comment, does not extend a numeral
static const std::string kGarbageFirst = std::string(",]}:\"#@!z[{-*") + std::string(1, '\0') + "\xff\x80";

// Whitespace and 1..3 COMPLETE // comment lines (every comment is ended by a line break), possibly followed by more whitespace.
static std::string gen_comment_tail() {
  std::string r;
  size_t lines = 1 + vg::below(3);
  for (size_t k = 0; k < lines; k++) {
    r += gen_ws();
    r += "//" + vg::bytes_from("abc \t\"[]{},:/\\019*#-ntfx", vg::chance(1, 4) ? 0 : vg::below(12));
    r += vg::pick<std::string>({"\n", "\n", "\r", "\r\n"});
  }
  return r + gen_ws();
}

// true when t is whitespace and // comments only, holds at least one comment, and every comment is ended by a line break
static bool is_complete_comment_tail(const std::string& t) {
  size_t k = 0, comments = 0;
  for (;;) {
    while (k < t.size() && c5::is_ws(t[k])) k++;
    if (k == t.size()) return comments > 0;
    if (k + 1 >= t.size() || t[k] != '/' || t[k + 1] != '/') return false;
    while (k < t.size() && t[k] != '\n' && t[k] != '\r') k++;
    if (k == t.size()) return false; // unterminated
    comments++;
  }
}

// what stands after the comment tail: a byte string, a numeral / literal / second document (after a line break nothing extends anything)
static std::string gen_after_comment() {
  switch (vg::below(4)) {
    case 0: return render(gen_doc_tokens(1 + static_cast<int>(vg::below(4)), 2));
    case 1: return vg::pick<std::string>({"2", "0", "-1", "null", "true", "x", "}", "]", ",", "\"a\"", "[]", "{}", "/", "/ /", "/*", "*/", "#", "\\"});
    default: {
      std::string g(1, kGarbageFirst[vg::below(kGarbageFirst.size())]);
      return g + vg::bytes(vg::below(4));
    }
  }
}

// case: s = [leading ws, core, trailing ws, reader suffix, garbage (, comment tail, data after the comment tail)]
static Case gen_doc() {
  std::string core;
  if (vg::chance(1, 40)) core = gen_nested(vg::chance(1, 3) ? 500 : 2 + vg::below(499));
  else if (vg::chance(1, 40)) core = gen_bulk_doc();
  else core = render(gen_doc_tokens(3 + static_cast<int>(vg::scaled(30)), 6));
  std::string suffix(1, kNonExtending[vg::below(kNonExtending.size())]);
  suffix += vg::bytes(vg::below(5));
  std::string garbage(1, kGarbageFirst[vg::below(kGarbageFirst.size())]);
  garbage += vg::bytes(vg::below(4));
  Case c = Case("doc").S(gen_ws()).S(core).S(gen_ws()).S(suffix).S(garbage);
  if (vg::chance(1, 4)) c.S(gen_comment_tail()).S(gen_after_comment());
  return c;
}

// number of structural characters [ ] { } , : inside the strings of a document (the reference's extents tell the strings apart)
static size_t structural_in_strings(const std::string& doc, const rj::Result& r) {
  size_t n = 0;
  for (const auto& ex : r.extents) {
    if (doc[ex.first] != '"') continue;
    for (size_t k = ex.first; k < ex.second; k++) n += (doc[k] == '[' || doc[k] == ']' || doc[k] == '{' || doc[k] == '}' || doc[k] == ',' || doc[k] == ':');
  }
  return n;
}

static void note_shape(const rj::Result& r) {
  if (r.max_depth >= 2 && (r.has_frac_or_exp || r.has_escape)) ctx().nontrivial_case();
  Ctx& x = ctx();
  if (r.has_frac_or_exp) x.cls("doc:fraction-or-exponent");
  if (r.has_escape) x.cls("doc:escape");
  x.cls(r.max_depth >= 100 ? "doc:depth>=100" : r.max_depth >= 2 ? "doc:depth 2-99" : "doc:depth<2");
}

// doc + comment tail (+ data after it) through the string entry points
static void run_doc_comment_tail(const Case& c, const std::string& doc, const rj::Result& ref) {
  const std::string &ctail = c.str(5), &after = c.str(6);
  if (!is_complete_comment_tail(ctail)) throw std::logic_error("doc case: the comment tail is not whitespace + complete // comment lines");
  if (after.empty() || c5::is_ws(after[0]) || (after.size() > 1 && after[0] == '/' && after[1] == '/')) throw std::logic_error("doc case: bad data after the comment tail");
  std::string with_tail = doc + ctail, with_data = with_tail + after;
  size_t tail_at = doc.size() > 60 ? doc.size() - 60 : 0; // messages show the end of the document
  for (int strict = 0; strict < 2; strict++) {
    const char* mode = strict ? "strict" : "default";
    for (c5::Entry en : {c5::PTR, c5::STRING}) {
      const char* ename = en == c5::PTR ? "ptr,size" : "string";
      c5::Outcome o = c5::run_parse(with_tail, strict, en);
      VCHECK(o.kind != c5::Outcome::OTHER, "exception-type:" + o.exc_type, o.what);
      if (strict) {
        VCHECK(o.threw(), "ext-strict-accepts:comment:trailing", "strict mode parse(", ename, ") accepts the // comment after the document: ...", c5::clip(with_tail.substr(tail_at), 200));
      } else {
        VCHECK(!o.threw(), "trailing-comment-rejected", "default mode parse(", ename, ") rejects (", o.what, ") a document followed by whitespace and // comment lines only: ...", c5::clip(with_tail.substr(tail_at), 200));
        jt::Diff d = jt::diff(o.value, ref.value, jt::NUMERIC_REL_1E9);
        VCHECK(d.none(), cat("ext-default-meaning:comment:trailing:", d.cls), "default mode value differs at ", d.text, " when // comment lines follow the document: ...", c5::clip(with_tail.substr(tail_at), 200));
      }
      o = c5::run_parse(with_data, strict, en);
      VCHECK(o.kind != c5::Outcome::OTHER, "exception-type:" + o.exc_type, o.what);
      VCHECK(o.threw(), cat("trailing-garbage-accepted:after-comment:", mode), "parse(", ename, ") accepted the data ", c5::clip(after, 40), " that stands after the line break ending the // comment: ...", c5::clip(with_data.substr(tail_at), 200));
    }
  }
  // the shared oracle sees the same texts (entry-point agreement, reader extent, its own model of the trailing region)
  c5::Finding f = c5::check_text(with_data, nullptr, false);
  VCHECK(f.none(), f.sig, f.msg);
  ctx().cls("doc:followed by // comment lines (then by data)");
  ctx().count(2);
}

static void run_doc(const Case& c) {
  const std::string &lead = c.str(0), &core = c.str(1), &trail = c.str(2), &suffix = c.str(3), &garbage = c.str(4);
  std::string doc = lead + core + trail;
  rj::Result ref = rj::parse_document(doc, 600);
  if (!ref.in_domain()) throw std::logic_error("doc case is not a standard in-domain document: " + ref.error);
  if (suffix.empty() || garbage.empty() || c5::is_ws(garbage[0]) || garbage[0] == '/') throw std::logic_error("doc case: bad suffix/garbage");

  // everything check_text asserts (all entry points, both modes, reference value, extent at end of input / before whitespace)
  c5::Finding f = c5::check_text(doc);
  VCHECK(f.none(), f.sig, f.msg);

  for (int strict = 0; strict < 2; strict++) {
    const char* mode = strict ? "strict" : "default";
    // reader entry point followed by a non-extending byte: stops exactly after the value
    {
      std::string t = lead + core + suffix;
      c5::Outcome o = c5::run_parse(t, strict, c5::READER);
      VCHECK(o.kind != c5::Outcome::OTHER, "exception-type:" + o.exc_type, o.what);
      VCHECK(!o.threw(), cat("reader-extent:", mode, ":throws"), "reader entry point throws (", o.what, ") on a document followed by ", c5::clip(suffix), ": ", c5::clip(t));
      jt::Diff d = jt::diff(o.value, ref.value, jt::NUMERIC_REL_1E9);
      VCHECK(d.none(), cat("reader-extent:", mode, ":value:", d.cls), "value differs when followed by ", c5::clip(suffix), ": ", d.text);
      VCHECK(o.where == lead.size() + core.size(), cat("reader-extent:", mode, ":", c5::subdoc_class(core)), "reader stopped at ", o.where, ", the value ends at ", lead.size() + core.size(), " in ", c5::clip(t));
    }
    // string entry points: trailing whitespace is fine (check_text above), any other trailing byte is rejected
    for (c5::Entry en : {c5::PTR, c5::STRING}) {
      std::string t = lead + core + trail + garbage;
      c5::Outcome o = c5::run_parse(t, strict, en);
      VCHECK(o.kind != c5::Outcome::OTHER, "exception-type:" + o.exc_type, o.what);
      VCHECK(o.threw(), cat("trailing-garbage-accepted:", mode), "parse(", en == c5::PTR ? "ptr,size" : "string", ") accepted ", c5::clip(t));
    }
  }
  if (c.s.size() > 5) run_doc_comment_tail(c, doc, ref);
  note_shape(ref);
  if (doc.size() > 1000) {
    size_t st = structural_in_strings(doc, ref);
    ctx().cls(st >= 1000 ? "doc:>1000 bytes, >=1000 structural characters inside strings" : st >= 100 ? "doc:>1000 bytes, 100-999 structural characters inside strings" : "doc:>1000 bytes");
  }
  {
    // an exponent spelled with leading zeros
    bool lz = false;
    for (size_t k = 0; k + 2 < core.size() && !lz; k++)
      if ((core[k] == 'e' || core[k] == 'E') && k > 0 && core[k - 1] >= '0' && core[k - 1] <= '9') {
        size_t j = k + 1;
        if (core[j] == '+' || core[j] == '-') j++;
        lz = j + 1 < core.size() && core[j] == '0' && core[j + 1] >= '0' && core[j + 1] <= '9';
      }
    if (lz && ref.has_frac_or_exp) ctx().cls("doc:exponent spelled with leading zeros");
  }
  ctx().count(11);
}

// ---------------------------------------------------------------- ext

static const char* kExtNames[4] = {"trailing-comma", "hex-integer", "one-letter-constant", "comment"};

static std::string hex_of(int64_t v) {
  uint64_t mag = v < 0 ? 0 - static_cast<uint64_t>(v) : static_cast<uint64_t>(v);
  char b[32];
  snprintf(b, sizeof(b), "%llx", (unsigned long long)mag);
  std::string h = b;
  for (auto& ch : h)
    if (ch >= 'a' && vg::coin()) ch = static_cast<char>(ch - 32);
  if (vg::chance(1, 5) && h.size() < 16) h = "0" + h;
  return std::string(v < 0 ? "-" : "") + "0x" + h;
}

// case: n = [extension kind, injection lies strictly inside the root container], s = [original, injected]
static Case gen_ext() {
  // root container holding at least one plain integer and one literal, so that every extension is applicable
  std::vector<Tok> t;
  bool dict = vg::coin();
  t.push_back({T_OPEN, dict ? "{" : "["});
  size_t cnt = 2 + vg::scaled(4);
  size_t int_at = vg::below(cnt), lit_at = vg::below(cnt);
  if (lit_at == int_at) lit_at = (int_at + 1) % cnt;
  for (size_t j = 0; j < cnt; j++) {
    if (j) t.push_back({T_COMMA, ","});
    t.push_back({T_WS, gen_ws()});
    if (dict) {
      t.push_back({T_STR, "\"" + gen_string_body() + static_cast<char>('0' + j) + "\""});
      t.push_back({T_WS, gen_ws()});
      t.push_back({T_COLON, ":"});
      t.push_back({T_WS, gen_ws()});
    }
    if (j == int_at) t.push_back(gen_int_tok());
    else if (j == lit_at) t.push_back({T_LITERAL, vg::pick<std::string>({"null", "true", "false"})});
    else {
      int budget = 1 + static_cast<int>(vg::scaled(8));
      gen_value(t, 1, budget, 4);
    }
    t.push_back({T_WS, gen_ws()});
  }
  Tok close{T_CLOSE, dict ? "}" : "]"};
  close.closes_nonempty = true;
  t.push_back(close);
  std::string original = render(t);

  uint64_t ext = vg::below(4);
  uint64_t inside = 1;
  std::vector<size_t> cand;
  switch (ext) {
    case 0:
      for (size_t k = 0; k < t.size(); k++)
        if (t[k].k == T_CLOSE && t[k].closes_nonempty) cand.push_back(k);
      break;
    case 1:
      for (size_t k = 0; k < t.size(); k++)
        if (t[k].k == T_INT) cand.push_back(k);
      break;
    case 2:
      for (size_t k = 0; k < t.size(); k++)
        if (t[k].k == T_LITERAL) cand.push_back(k);
      break;
    default:
      for (size_t k = 0; k <= t.size(); k++) cand.push_back(k); // whitespace (hence a comment) may stand between any two tokens
      break;
  }
  size_t at = cand[vg::below(cand.size())];
  std::vector<Tok> u = t;
  switch (ext) {
    case 0: u.insert(u.begin() + at, Tok{T_COMMA, "," + gen_ws()}); break;
    case 1: u[at].text = hex_of(t[at].ival); break;
    case 2: u[at].text = t[at].text.substr(0, 1); break;
    default: {
      std::string body = vg::bytes_from("abc \t\"[]{},:/\\019*#", vg::below(8));
      bool at_end = at == t.size();
      std::string term = (at_end && vg::coin()) ? "" : (vg::coin() ? "\n" : "\r");
      u.insert(u.begin() + at, Tok{T_WS, "//" + body + term});
      inside = (at > 0 && at < t.size()) ? 1 : 0;
    }
  }
  return Case("ext").N(ext).N(inside).S(original).S(render(u));
}

static void run_ext(const Case& c) {
  uint64_t ext = c.u(0);
  bool inside = c.u(1) != 0;
  if (ext > 3) throw std::logic_error("bad extension kind");
  const std::string &original = c.str(0), &injected = c.str(1);
  rj::Result ref = rj::parse_document(original, 600);
  if (!ref.in_domain()) throw std::logic_error("ext case: original is not a standard in-domain document");
  if (rj::parse_document(injected, 600).ok) throw std::logic_error("ext case: the injected text is still standard JSON");
  std::string name = kExtNames[ext];
  for (c5::Entry en : {c5::READER, c5::PTR, c5::STRING}) {
    c5::Outcome o = c5::run_parse(injected, false, en);
    VCHECK(o.kind != c5::Outcome::OTHER, "exception-type:" + o.exc_type, o.what);
    VCHECK(!o.threw(), "ext-default-rejects:" + name, "default mode rejects (", o.what, ") the documented extension in ", c5::clip(injected));
    jt::Diff d = jt::diff(o.value, ref.value, jt::NUMERIC_REL_1E9);
    VCHECK(d.none(), "ext-default-meaning:" + name, "default mode reads ", c5::clip(injected), " differently from ", c5::clip(original), " at ", d.text);
  }
  for (c5::Entry en : {c5::READER, c5::PTR, c5::STRING}) {
    if (en == c5::READER && !inside) continue; // a comment before/after the value is outside what the reader entry point looks at
    c5::Outcome o = c5::run_parse(injected, true, en);
    VCHECK(o.kind != c5::Outcome::OTHER, "exception-type:" + o.exc_type, o.what);
    VCHECK(o.threw(), "ext-strict-accepts:" + name, "strict mode accepts the extension in ", c5::clip(injected));
  }
  ctx().nontrivial_case();
  ctx().cls("ext:" + name);
  ctx().count(5);
}

// ---------------------------------------------------------------- edit

static Case gen_edit() {
  std::string doc;
  if (vg::chance(1, 5)) doc = vg::pick<std::string>({"5e-1", "-0.5E+2", "[]", "{}", "[1,2]", "{\"a\":1}", "\"\\u00e9\\n\"", "null", "true", "false", "[null,true,false]", "0", "-1", "1.5", "{\"a\":{\"b\":[]}}"});
  else doc = render(gen_doc_tokens(2 + static_cast<int>(vg::scaled(9)), 3));
  if (doc.size() > 400) { // the edit oracle is quadratic in the length and takes documents of up to 400 bytes: a rare longer one is replaced
    ctx().exclude("generated edit base longer than 400 bytes (replaced by a fixed document)");
    doc = "{\"a\":[1,2.5e-3,\"x\\n\"],\"b\":{}}";
  }
  return Case("edit").S(doc);
}

static void run_edit(const Case& c) {
  const std::string& doc = c.str(0);
  if (doc.size() > 400) throw std::logic_error("edit case: document too long");
  c5::Tally tally;
  c5::Finding f = c5::check_text(doc, &tally);
  VCHECK(f.none(), f.sig, f.msg);
  f = c5::check_edits(doc, &tally);
  VCHECK(f.none(), f.sig, f.msg);
  Ctx& x = ctx();
  x.count(tally.texts > 0 ? tally.texts - 1 : 0);
  x.cls("edit:texts", tally.texts);
  x.cls("edit:texts-that-are-standard-documents", tally.standard_in_domain);
  x.cls("edit:standard-but-out-of-domain (not asserted)", tally.standard_out_of_domain);
  x.cls("edit:non-standard-text-accepted-in-strict-mode (observation, not asserted)", tally.phosg_accepts_nonstandard_strict);
  x.cls("edit:texts-rejected-in-both-modes", tally.rejected_both);
  if (tally.out_of_scope) x.exclude("edited text with an exponent above 999", tally.out_of_scope);
  rj::Result ref = rj::parse_document(doc, 600);
  if (ref.ok && ref.has_container && doc.size() >= 6) x.nontrivial_case();
}

// ---------------------------------------------------------------- seq
// A stream of texts parsed one after the other on ONE thread (the way a consumer pulls values from readers and tolerates
// bad ones): the value of a standard document is a function of its text, whatever was parsed - or rejected - before it.
// case: s = [text...], n = [per text: bit0 strict, bits1-2 entry point]. The whole stream runs on a fresh thread so that
// the case is self-contained (its prelude is part of it) even if the parser keeps per-thread state.

static bool long_exponent(const std::string& t) {
  const char* why = nullptr;
  return c5::out_of_scope(reinterpret_cast<const uint8_t*>(t.data()), t.size(), &why) && why[0] == 'e';
}

static std::vector<c5::Outcome> run_stream(const Case& c, const std::vector<bool>& skip) {
  std::vector<c5::Outcome> out(c.s.size());
  std::exception_ptr err;
  std::thread th([&] {
    try {
      for (size_t k = 0; k < c.s.size(); k++) {
        if (skip[k]) continue;
        uint64_t f = c.u(k);
        out[k] = c5::run_parse(c.s[k], f & 1, static_cast<c5::Entry>((f >> 1) & 3));
      }
    } catch (...) {
      err = std::current_exception();
    }
  });
  th.join();
  if (err) std::rethrow_exception(err);
  return out;
}

static void run_seq(const Case& c) {
  if (c.s.empty() || c.s.size() > 4096 || c.n.size() != c.s.size()) throw std::logic_error("seq case: bad shape");
  size_t total = 0, skipped = 0;
  std::vector<bool> skip(c.s.size(), false);
  for (size_t k = 0; k < c.s.size(); k++) {
    if (((c.u(k) >> 1) & 3) > 2) throw std::logic_error("seq case: bad entry point");
    if (long_exponent(c.s[k])) { // outside the stated domain (only makes the scanner loop): left out of the stream and counted
      skip[k] = true;
      skipped++;
    }
    total += c.s[k].size();
  }
  if (total > (4u << 20)) throw std::logic_error("seq case: too long");
  std::vector<c5::Outcome> out = run_stream(c, skip);
  if (skipped) ctx().exclude("stream text with an exponent above 999", skipped);
  bool reader_only = true, rejected_before = false, accepted_after_reject = false;
  for (size_t k = 0; k < c.s.size(); k++) {
    if (skip[k]) continue;
    const std::string& text = c.s[k];
    bool strict = c.u(k) & 1;
    c5::Entry en = static_cast<c5::Entry>((c.u(k) >> 1) & 3);
    if (en != c5::READER) reader_only = false;
    const char* mode = strict ? "strict" : "default";
    const char* ename = en == c5::READER ? "reader" : en == c5::PTR ? "ptr,size" : "string";
    const c5::Outcome& o = out[k];
    VCHECK(o.kind != c5::Outcome::OTHER, "exception-type:" + o.exc_type, "text #", k, " of the stream (", ename, ", ", mode, "): ", o.what, " on ", c5::clip(text));
    if (en == c5::READER) VCHECK(o.where <= o.size, "reader-position", "text #", k, " of the stream: reader at ", o.where, " of ", o.size);
    rj::Result ref = rj::parse_document(text, 600);
    if (ref.in_domain()) {
      std::string cls = c5::subdoc_class(text.substr(ref.value_begin, ref.value_end - ref.value_begin));
      VCHECK(!o.threw(), cat("stream:rejects-standard-document:", ename, ":", mode, rejected_before ? ":after-a-rejected-text" : ""), "text #", k, " of ", c.s.size(),
          " parsed one after the other on one thread is a standard document and is rejected (", o.what, "): ", c5::clip(text));
      jt::Diff d = jt::diff(o.value, ref.value, jt::NUMERIC_REL_1E9);
      VCHECK(d.none(), cat("stream:value:", d.cls, ":", mode), "text #", k, " of the stream (", ename, "): value differs from the reference at ", d.text, " for ", c5::clip(text));
      if (en == c5::READER) VCHECK(o.where == ref.value_end, cat("stream:reader-extent:", mode, ":", cls), "text #", k, " of the stream: reader stopped at ", o.where, ", the value ends at ", ref.value_end, " in ", c5::clip(text));
      if (rejected_before) accepted_after_reject = true;
    }
    if (o.threw()) rejected_before = true;
  }
  Ctx& x = ctx();
  x.count(c.s.size() - 1);
  x.cls(reader_only ? "seq:reader-entry-point-only" : "seq:mixed-entry-points");
  x.cls("seq:texts", c.s.size());
  if (accepted_after_reject) {
    x.cls("seq:standard-document-read-after-a-rejected-text");
    x.nontrivial_case();
  }
}

static std::string gen_seq_text(bool deep_theme) {
  std::string doc;
  unsigned b = vg::below(10);
  if (deep_theme ? b < 8 : b < 2) doc = gen_nested(vg::chance(1, 3) ? 500 : 2 + vg::below(499));
  else doc = render(gen_doc_tokens(2 + static_cast<int>(vg::scaled(12)), 4));
  switch (vg::below(8)) {
    case 0:
    case 1:
    case 2: break; // the document itself
    case 3:
    case 4:
    case 5: doc = doc.substr(0, vg::below(doc.size())); break; // a proper prefix
    case 6: { // one single-byte edit
      const std::string& a = c5::edit_alphabet();
      size_t at = vg::below(doc.size());
      char ch = a[vg::below(a.size())];
      switch (vg::below(3)) {
        case 0: doc.erase(at, 1); break;
        case 1: doc[at] = ch; break;
        default: doc.insert(at, 1, ch);
      }
      break;
    }
    default: doc = vg::coin() ? vg::bytes(vg::below(12)) : vg::bytes_from("{}[],:\"\\019-.eEntf a", vg::below(16));
  }
  if (long_exponent(doc)) doc = "["; // outside the stated domain (only makes the scanner loop)
  return doc;
}

static Case gen_seq() {
  Case c("seq");
  size_t n = 2 + vg::scaled(22);
  bool deep_theme = vg::chance(1, 3);
  bool reader_only = vg::chance(2, 3);
  for (size_t k = 0; k < n; k++) {
    uint64_t entry = reader_only ? 0 : vg::pick<uint64_t>({0, 0, 0, 1, 2});
    c.N(vg::below(2) | (entry << 1));
    // a stream ends in documents that must be read
    bool tail = k + 2 >= n;
    if (tail && vg::coin()) {
      std::string doc = deep_theme ? gen_nested(vg::chance(1, 2) ? 500 : 1 + vg::below(500)) : render(gen_doc_tokens(2 + static_cast<int>(vg::scaled(12)), 4));
      if (long_exponent(doc)) doc = "[]"; // the textual filter also fires on  e<4 digits>  inside a string
      c.S(doc);
    } else c.S(gen_seq_text(deep_theme));
  }
  return c;
}

static const char* kSeedDocs[] = {
    "null", "true", "false", "\"\"", "\"v\"", "\"no special chars\"", "\"omg \\\"'\\\\\\t\\n\"", "0", "134", "-3214", "0.0", "1.4", "-10.5",
    "[]", "[1]", "{}", "{\"one\":1}", "[1,2.5e-3,\"x\\n\\u00e9\"]", "{\"a\":[1,{\"b\":null}],\"c\":{}}", "5e-1", "25e-1", "1E+2", "-0", "-0.0e-0",
    "\"\\/\\b\\f\\r\\u0000\\u00FF\\u00ff\"", "[null,true,false]", "{\"k\":{\"k\":[[]]}}", "[ 1 , 2 ]", " \"a\" ", "\t[\n]\r", "{ \"a\" : 1 , \"b\" : 2 }",
    "9223372036854775807", "-9223372036854775808", "12345678901234567890.5", "1e300", "[[],{}]", "[\"a\",\"b\"]", "{\"\":0}", "[0.1,0.25E+1]",
    "[true]", "[1e2,1e-2]", "{\"a\":\"//\"}", "[\"0x10\"]", "123e20", "[-1,-1.0]", "[1e300,10e18]", "{\"a\":[],\"b\":{}}"};

// texts that are NOT standard documents (documented extensions, near misses): bases for the edit enumeration only
static const char* kExtraEditSeeds[] = {"{1:2}", "[1,]", "{\"one\":1,}", "0x123", "-0xC8E", "[n,t,f]", "// c\nnull", "[\n// c\n]", "false // c", "1 // c\n", "[] //c\r//d\n ", "{} x", "\"\\x41\"",
    "{[]:1}", "{null:0}", "-", "+5", "007", "1.", "[1 2]", "{\"a\" 1}", "nul", "[\"a\":1]"};

static void enum_edit(Enum& e) {
  uint64_t idx = 0;
  size_t n = sizeof(kSeedDocs) / sizeof(kSeedDocs[0]);
  for (size_t k = 0; k < n && !e.stop; k++) {
    if (!e.mine(idx++)) continue;
    e.exec(Case("edit").S(kSeedDocs[k]));
  }
  size_t m = sizeof(kExtraEditSeeds) / sizeof(kExtraEditSeeds[0]);
  for (size_t k = 0; k < m && !e.stop; k++) {
    if (!e.mine(idx++)) continue;
    e.exec(Case("edit").S(kExtraEditSeeds[k]));
  }
  e.complete(cat("every proper prefix and every single-byte delete/replace/insert over ", c5::edit_alphabet().size(), " structural bytes of ", n, " fixed documents (JSONTest literals, every construct) and ", m, " fixed non-standard texts (extensions, near misses)"));
}

static void enum_doc(Enum& e) {
  // the fixed documents also go through the doc oracle with a fixed surrounding
  uint64_t idx = 0;
  size_t n = sizeof(kSeedDocs) / sizeof(kSeedDocs[0]);
  for (size_t k = 0; k < n && !e.stop; k++) {
    if (!e.mine(idx++)) continue;
    std::string core = kSeedDocs[k];
    size_t b = 0, en = core.size();
    while (b < en && c5::is_ws(core[b])) b++;
    while (en > b && c5::is_ws(core[en - 1])) en--;
    core = core.substr(b, en - b);
    for (const char* suf : {" x", ",", "]", "}", "#", ":"})
      e.exec(Case("doc").S(" \n").S(core).S("\t ").S(suf).S("@"));
  }
  // the fixed documents followed by complete // comment lines, then by data after the line break
  for (size_t k = 0; k < n && !e.stop; k++) {
    if (!e.mine(idx++)) continue;
    std::string core = kSeedDocs[k];
    size_t b = 0, en = core.size();
    while (b < en && c5::is_ws(core[b])) b++;
    while (en > b && c5::is_ws(core[en - 1])) en--;
    core = core.substr(b, en - b);
    for (const char* tail : {"//\n", " // c\n", "\n// a [\r\n\t//b\r ", "//c\r"})
      for (const char* after : {"@", "2", "{}", "]", "/", "null"})
        e.exec(Case("doc").S("").S(core).S(tail[0] == ' ' ? "" : " ").S(",").S("@").S(tail).S(after));
  }
  // nesting up to the stated bound
  for (size_t depth : {100, 499, 500}) {
    if (!e.mine(idx++)) continue;
    std::string o(depth, '['), cl(depth, ']');
    e.exec(Case("doc").S("").S(o + cl).S("").S(" ").S("x"));
    std::string od, cd;
    for (size_t k = 0; k < depth; k++) {
      od += "{\"a\":";
      cd += "}";
    }
    e.exec(Case("doc").S("").S(od + "{}" + cd).S("\n").S(",").S("]"));
  }
  // un-normalised mantissas: every mantissa scale 1e-36..1e37 x value scales from 1e-290 to 1e290 (the exponent alone runs to +-327)
  static const int kValueScale[] = {-290, -250, -100, -20, -1, 0, 1, 20, 100, 250, 290};
  for (int mag = -36; mag <= 37 && !e.stop; mag++) {
    if (!e.mine(idx++)) continue;
    std::string m = mag >= 0 ? "1" + std::string(mag, '0') : "0." + std::string(-mag - 1, '0') + "1";
    if (mag >= 0 && (mag % 3) == 1) m += ".5";
    for (int t : kValueScale) {
      int ex = t - mag;
      std::string num = ((mag + t) % 2 ? "-" : "") + m + ((mag % 2) ? "e" : "E") + (ex < 0 ? "-" : (t % 2) ? "+" : "") + std::to_string(ex < 0 ? -ex : ex);
      e.exec(Case("doc").S("").S(num).S("").S(",").S("@"));
      e.exec(Case("doc").S(" ").S("[" + num + ",{\"a\":" + num + "}]").S("\n").S("]").S("}"));
    }
  }
  // exponent spellings: 0..20 leading zeros x 7 exponent values x {none, +, -} x 5 mantissas (exp = e [+-] 1*DIGIT: the value counts)
  static const char* kMant[] = {"1", "5", "2.5", "0.25", "123"};
  static const int kExpVal[] = {0, 1, 2, 10, 17, 100, 290};
  for (size_t z = 0; z <= 20 && !e.stop; z++) {
    if (!e.mine(idx++)) continue;
    for (int ev : kExpVal)
      for (const char* sign : {"", "+", "-"})
        for (size_t m = 0; m < 5; m++) {
          std::string num = std::string((z + m) % 3 == 0 ? "-" : "") + kMant[m] + ((z + ev) % 2 ? "e" : "E") + sign + std::string(z, '0') + std::to_string(ev);
          if (m % 2) e.exec(Case("doc").S("").S(num).S(" ").S(",").S("@"));
          else e.exec(Case("doc").S("\n").S("{\"a\":[" + num + "]}").S("").S("}").S("]"));
        }
  }
  // bulk structural content inside strings: a first string with each kind of ending (nothing, 1..3 escaped backslashes, an escaped
  // quote), then a string of 300 / 1200 / 2500 elements of each theme and element; as list items and as key + value
  for (unsigned tail = 0; tail < 5 && !e.stop; tail++)
    for (unsigned theme = 0; theme < 4; theme++) {
      if (!e.mine(idx++)) continue;
      for (unsigned elem = 0; elem < (theme == 0 ? 10u : 1u); elem++)
        for (size_t elements : {300, 1200, 2500}) {
          std::string first = std::string("\"a") + kBulkTails[tail] + "\"";
          std::string bulk = "\"" + bulk_string_body(theme, elem, elements, 0xC05 + elements + theme, (tail + elem) % 5) + "\"";
          e.exec(Case("doc").S("").S("[" + first + "," + bulk + "]").S("\n").S(",").S("@"));
          e.exec(Case("doc").S(" ").S("{" + first + ":" + bulk + "}").S("").S("]").S("}"));
        }
    }
  e.complete("fixed documents x 6 suffixes; fixed documents x 4 // comment tails x 6 kinds of data after the comment's line break; bracket nesting 100, 499 and 500; un-normalised numerals 1e-36..1e37 (mantissa) x 11 value scales 1e-290..1e290; "
             "exponents spelled with 0..20 leading zeros x 7 values x 3 signs x 5 mantissas; two-string documents: 5 string endings x bulk structural strings "
             "(4 themes, 10 elements, 300/1200/2500 elements)");
}

static void enum_seq(Enum& e) {
  uint64_t idx = 0;
  size_t n = sizeof(kSeedDocs) / sizeof(kSeedDocs[0]);
  // every truncation of valid documents, presented as one stream to the reader entry point and followed by the documents
  // themselves (and by documents nested to the stated bound)
  for (int strict = 0; strict < 2 && !e.stop; strict++) {
    for (uint64_t entry_mix = 0; entry_mix < 2; entry_mix++) {
      if (!e.mine(idx++)) continue;
      Case c("seq");
      uint64_t j = 0;
      auto flags = [&]() -> uint64_t { return strict | ((entry_mix && (j++ % 7) == 6 ? 1 + (j % 2) : 0) << 1); };
      for (size_t k = 0; k < n; k++) {
        std::string d = kSeedDocs[k];
        for (size_t cut = 0; cut < d.size(); cut++) c.N(flags()).S(d.substr(0, cut));
      }
      for (size_t k = 0; k < n; k++) c.N(flags()).S(kSeedDocs[k]);
      e.exec(c);
    }
  }
  for (size_t depth : {20, 100, 500}) {
    for (int dict = 0; dict < 2 && !e.stop; dict++) {
      if (!e.mine(idx++)) continue;
      std::string open, close;
      for (size_t k = 0; k < depth; k++) {
        open += dict ? "{\"a\":" : "[";
        close += dict ? "}" : "]";
      }
      std::string d = open + (dict ? "{}" : "[]") + close;
      Case c("seq");
      // depth 500: about 60 evenly spaced prefixes keep the case below 100 KiB
      size_t step = depth > 100 ? d.size() / 60 : 1;
      for (size_t cut = 1; cut < d.size(); cut += step) c.N(dict).S(d.substr(0, cut));
      for (const char* v : {"[]", "{}", "[1,2]", "{\"a\":[]}", "5e-1"}) c.N(dict).S(v);
      c.N(dict).S(d);
      e.exec(c);
    }
  }
  e.complete(cat("streams on one thread: every proper prefix of ", n, " fixed documents followed by the documents (reader entry point only / with string entry points mixed in, default and strict); every (for depth 500: 60 evenly spaced) proper prefix of documents nested 20/100/500 deep followed by small documents and the nested document"));
}

int main(int argc, char** argv) {
  std::vector<SubCheck> checks;
  checks.push_back({"doc", run_doc, gen_doc, 24000, 480000, 100, enum_doc});
  checks.push_back({"ext", run_ext, gen_ext, 12000, 300000, 100, nullptr});
  checks.push_back({"edit", run_edit, gen_edit, 480, 8000, 100, enum_edit});
  checks.push_back({"seq", run_seq, gen_seq, 2400, 60000, 100, enum_seq});
  return main_(argc, argv, checks);
}
