// C12, release-configuration build: the same harness, compiled with -DNDEBUG -O2 (stage c12_ndebug of run/props.d/C12.py).
// LRUSet.hh / LRUMap.hh are header-only templates: every consumer compiles them under its own configuration, and CMake's
// Release / RelWithDebInfo / MinSizeRel configurations define NDEBUG. The library objects linked in are the shared ones.
#define C12_NDEBUG_BUILD 1
#include "c12_lru.cc"
