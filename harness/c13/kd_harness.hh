// C13 - KDTree equals a brute-force multiset under any insert / erase / erase_advance history.
//
// A case is a whole history over an integer grid (ties on every axis are the rule, not the exception). The tree is
// driven next to a plain std::vector<(point, value)>; after every mutation the query battery compares size(),
// the iteration multiset, at()/exists() for live and absent grid points, and within()/exists(low, high) for
// half-open boxes against linear scans. The tree is created inside the case and destroyed at its end in whatever
// state the history left it (never filled, emptied, full); ASan/UBSan watch the destructor, and the heap-block
// balance (c12/alloc_balance.hh) + LeakSanitizer attribute leaks to the case.
//
// Case encoding: n[0] = mode
//   mode 0: n[1] = dimensions (2|3), n[2] = grid side, n[3] = salt (query sampling), n[4..] = packed operations
//   mode 1: n[1] = k, n[2] = value mode (0: value = insertion index, 1: all values equal), n[3] = battery after each erase (enum Battery),
//           n[4..4+k) = cells of the 3x3 grid (0..8) in insertion order; stands for ALL k! erase orders
//   mode 2: query-interleaved history: n[1] = dimensions, n[2] = coordinate range (side, 1..97), n[3] = salt,
//           n[4] = coordinate type (0: int64_t, 1: double, 2: uint64_t), n[5], n[6] = coordinate map (see PointOfDouble / PointOfU64),
//           n[7] = query policy: bits 0-1 what is looked up FIRST after every mutation (0: nothing, 1: the most recently probed
//           point, 2: the last three probed points newest first, 3: oldest first), bits 2-3 what else is asked after a mutation
//           (0: size(), 1: size() + iteration, 2: the light battery in an order rotated by the salt, 3: that battery after every
//           8th mutation); n[8..] = packed operations incl. PROBE / PROBE_LIVE / BOX / BATTERY; the battery always runs at the end
//   mode 3: n[1] = k, n[2] = probed cell of the 5x5 ring grid (0..24 -> (-1..3, -1..3)), n[3..3+k) = cells of the 3x3 grid in insertion
//           order; stands for ALL single mutations (erase_advance of every non-empty subset of the entries, erase of each entry,
//           insert at each of the 9 cells) between two lookups of the probed point
//   mode 4: tall chain (subcheck kdchain): n[1] = dimensions, n[2] = shape (enum ChainShape), n[3] = number of entries (= depth of
//           the tree: it is never rebalanced), n[4] = stack size in KiB of the thread on which the whole case runs (tree built,
//           queried, partly erased and DESTROYED there), n[5] = salt (which entries are probed / erased; bit 0: destroy the tree
//           full, without the erase phase)
//   mode 5: insertions that may fail (subcheck kdx): n[1] = dimensions, n[2] = grid side, n[3] = salt, n[4..] = packed operations as in mode 0
//           on a tree whose value type has a copy constructor that throws on schedule: the value field of INSERT / EMPLACE is
//           v + 10 * k, the digit of INSERT_DUP v + 3 * k, k > 0: the k-th copy construction of a value during that insertion throws
//   double coordinates (modes 2): n[5] / 8 % 4 = how the zero coordinate is spelled when stored / when queried (DoubleMap::zero_mode)
//
// Iterators: Iterator declares std::forward_iterator_tag, so a copy is an independent position, `it++` returns the old
// position and ++(it++) == it (multipass guarantee). The iteration part of the battery therefore walks to a position
// chosen by the case (every position in the small exhaustive scopes) with a mix of ++it / it++ / continuing on the
// returned iterator / continuing on an advanced copy, and from there walks the iterator returned by it++, a copy taken
// before it and `it` itself to the end: each must visit exactly the entries the reference walk visits from that position.
// Sweeps advance and erase through the same mix of styles (erase_advance on a copy which is then assigned back); nothing
// is ever asked of an iterator other than the one handed to erase_advance once erase_advance ran.
// packed operation: code (1 digit) + 10 * a, with
//   INSERT/ERASE/EMPLACE: a = (x+1) + 100 (y+1) + 10000 (z+1) + 10^6 value
//   ERASE_LIVE:           a = r            erase the (r mod live)-th model entry
//   SWEEP:                a = t + 10 r     erase_advance every entry with mix(r, entry) % 8 < t while iterating
//   INSERT_DUP:           a = value + 10 r insert at the point of the (r mod live)-th model entry
//   PROBE (mode 2):       a as INSERT      at()/exists() of that point, now
//   PROBE_LIVE (mode 2):  a = r            at()/exists() of the point of the (r mod live)-th model entry
//   BOX (mode 2):         a = r            within()/exists(low,high) of a box derived from r
//   BATTERY (mode 2):     a = r            the battery, live points visited in an order rotated by r
#pragma once

#include <math.h>
#include <pthread.h>

#include <array>
#include <exception>
#include <functional>
#include <string>
#include <vector>

#include <phosg/KDTree.hh>
#include <phosg/Vector.hh>

#include "verif.hh"
#include "c12/alloc_balance.hh"

namespace c13 {

using namespace verif;

enum Code : unsigned { INSERT = 0, ERASE = 1, ERASE_LIVE = 2, SWEEP = 3, INSERT_DUP = 4, EMPLACE = 5, PROBE = 6, PROBE_LIVE = 7, BOX = 8, BATTERY = 9, NUM_CODES = 10 };
static const char* kCodeNames[NUM_CODES] = {"insert", "erase", "erase_live", "sweep", "insert_dup", "emplace", "probe", "probe_live", "box", "battery"};

inline uint64_t pack_pt(unsigned code, int64_t x, int64_t y, int64_t z, uint64_t value) {
  return code + 10ULL * (static_cast<uint64_t>(x + 1) + 100ULL * static_cast<uint64_t>(y + 1) + 10000ULL * static_cast<uint64_t>(z + 1) + 1000000ULL * value);
}
inline uint64_t pack_raw(unsigned code, uint64_t a) { return code + 10ULL * a; }

struct Step {
  unsigned code;
  int64_t c[3];
  uint64_t value, r, t;
};
inline Step unpack(uint64_t w) {
  Step s{};
  s.code = w % 10;
  uint64_t a = w / 10;
  if (s.code >= NUM_CODES) throw std::logic_error("C13: malformed operation word");
  switch (s.code) {
    case INSERT:
    case ERASE:
    case EMPLACE:
    case PROBE:
      s.c[0] = static_cast<int64_t>(a % 100) - 1;
      s.c[1] = static_cast<int64_t>((a / 100) % 100) - 1;
      s.c[2] = static_cast<int64_t>((a / 10000) % 100) - 1;
      s.value = a / 1000000;
      break;
    case ERASE_LIVE:
    case PROBE_LIVE:
    case BOX:
    case BATTERY:
      s.r = a;
      break;
    case SWEEP:
      s.t = a % 10;
      s.r = a / 10;
      break;
    case INSERT_DUP:
      s.value = a % 10;
      s.r = a / 10;
      break;
  }
  return s;
}
inline std::string describe(uint64_t w) {
  Step s = unpack(w);
  switch (s.code) {
    case INSERT:
    case ERASE:
    case EMPLACE: return cat(kCodeNames[s.code], "((", s.c[0], ",", s.c[1], ",", s.c[2], "),", s.value, ")");
    case PROBE: return cat("probe((", s.c[0], ",", s.c[1], ",", s.c[2], "))");
    case ERASE_LIVE:
    case PROBE_LIVE:
    case BOX:
    case BATTERY: return cat(kCodeNames[s.code], "(", s.r, ")");
    case SWEEP: return cat("sweep(threshold=", s.t, ",salt=", s.r, ")");
    default: return cat("insert_dup(", s.r, ",", s.value, ")");
  }
}

struct Where {
  const uint64_t* ops;
  size_t n, i;
  const char* label;
};
inline std::ostream& operator<<(std::ostream& o, const Where& w) {
  if (w.label) o << w.label << "; history: ";
  else o << "step #" << w.i << " of: ";
  for (size_t k = 0; k < w.n && (w.label || k <= w.i); k++) o << (k ? " ; " : "") << "#" << k << " " << describe(w.ops[k]);
  return o;
}

template <size_t D>
struct Entry {
  std::array<int64_t, D> c;
  int64_t v;
  bool operator<(const Entry& o) const { return c != o.c ? c < o.c : v < o.v; }
  bool operator==(const Entry& o) const { return c == o.c && v == o.v; }
};

// The model works on integer grid coordinates; a point-type trait maps a grid coordinate to the coordinate the tree
// sees (strictly increasing, so order, ties and half-open boxes are preserved) and back.
template <size_t D>
struct PointOf;
template <>
struct PointOf<2> {
  typedef phosg::Vector2<int64_t> T;
  static T make(const std::array<int64_t, 2>& c) { return T(c[0], c[1]); }
  static T make_stored(const std::array<int64_t, 2>& c, uint64_t) { return make(c); }
  static int64_t back(int64_t v) { return v; }
  static const char* name() { return ""; }
};
template <>
struct PointOf<3> {
  typedef phosg::Vector3<int64_t> T;
  static T make(const std::array<int64_t, 3>& c) { return T(c[0], c[1], c[2]); }
  static T make_stored(const std::array<int64_t, 3>& c, uint64_t) { return make(c); }
  static int64_t back(int64_t v) { return v; }
  static const char* name() { return ""; }
};

// coordinate map of the current case (set by the subcheck before the history is replayed; part of the case)
struct CoordMap {
  uint64_t a = 0;
  int64_t b = 0;
};
inline CoordMap& coord_map() {
  static CoordMap m;
  return m;
}

// double coordinates: grid g -> (g - b) * scale[a]. Scales below 1 put several grid lines inside one integer part
// (0.25, 0.5, 0.75, 1.0 ...), a shift b > 0 puts part of the grid below zero.
static const double kScales[] = {0.25, 0.5, 0.125, 0.75, 0.1, 1.0 / 3, 1.0, 2.5};
struct DoubleMap {
  static double scale() { return kScales[coord_map().a % (sizeof(kScales) / sizeof(kScales[0]))]; }
  static double fwd(int64_t g) { return static_cast<double>(g - coord_map().b) * scale(); }
  static int64_t back(double v) {
    int64_t g = llround(v / scale()) + coord_map().b;
    if (!(fwd(g) == v)) VFAIL("coordinate-corrupted", "the tree handed out the coordinate ", v, " which no inserted point has");
    return g;
  }
  // Signed zeros: the grid line g == b is the coordinate zero, and IEEE 754 has two of them that compare equal (-0.0 == +0.0, neither
  // is smaller). A point is the same point whichever zero it is spelled with: what is stored with one is looked up with the other.
  //   zero mode (a / 8) % 4: 0 every zero is +0.0; 1 stored points carry -0.0, every query (at / exists / erase / box corners) +0.0;
  //   2 stored +0.0, queries -0.0; 3 stored: -0.0 in every other insertion, queries: -0.0 on the even axes
  // The model stays on the integer grid, i.e. it compares coordinates by IEEE ==.
  static unsigned zero_mode() { return static_cast<unsigned>((coord_map().a / 8) % 4); }
  static double query(int64_t g, size_t axis) {
    double v = fwd(g);
    unsigned zm = zero_mode();
    if (v == 0.0 && (zm == 2 || (zm == 3 && (axis & 1) == 0))) return -0.0;
    return v;
  }
  static double stored(int64_t g, uint64_t k) {
    double v = fwd(g);
    unsigned zm = zero_mode();
    if (v == 0.0 && (zm == 1 || (zm == 3 && (k & 1)))) return -0.0;
    return v;
  }
  static std::string describe() {
    static const char* zn[4] = {"", "; stored points spell zero -0.0, queries +0.0", "; stored points spell zero +0.0, queries -0.0", "; zeros: -0.0 in every other insertion and on the even axes of queries"};
    return cat("grid coordinate g stands for the double (g - ", coord_map().b, ") * ", scale(), zn[zero_mode()]);
  }
};
template <size_t D>
struct PointOfDouble;
template <>
struct PointOfDouble<2> : DoubleMap {
  typedef phosg::Vector2<double> T;
  static T make(const std::array<int64_t, 2>& c) { return T(query(c[0], 0), query(c[1], 1)); }
  static T make_stored(const std::array<int64_t, 2>& c, uint64_t k) { return T(stored(c[0], k), stored(c[1], k)); }
  static const char* name() { return "double"; }
};
template <>
struct PointOfDouble<3> : DoubleMap {
  typedef phosg::Vector3<double> T;
  static T make(const std::array<int64_t, 3>& c) { return T(query(c[0], 0), query(c[1], 1), query(c[2], 2)); }
  static T make_stored(const std::array<int64_t, 3>& c, uint64_t k) { return T(stored(c[0], k), stored(c[1], k), stored(c[2], k)); }
  static const char* name() { return "double"; }
};

// uint64_t coordinates: grid g -> base + g with base = 2^63 - b (a = 0: the grid straddles 2^63), 1 (a = 1: g = -1 is 0)
// or 2^64 - 200 (a = 2: just below the top)
struct PointOfU64 {
  typedef phosg::Vector2<uint64_t> T;
  static uint64_t base() {
    switch (coord_map().a % 3) {
      case 0: return (1ULL << 63) - static_cast<uint64_t>(coord_map().b);
      case 1: return 1;
      default: return ~0ULL - 199;
    }
  }
  static uint64_t fwd(int64_t g) { return base() + static_cast<uint64_t>(g); }
  static int64_t back(uint64_t v) { return static_cast<int64_t>(v - base()); }
  static T make(const std::array<int64_t, 2>& c) { return T(fwd(c[0]), fwd(c[1])); }
  static T make_stored(const std::array<int64_t, 2>& c, uint64_t) { return make(c); }
  static const char* name() { return "uint64"; }
  static std::string describe() { return cat("grid coordinate g stands for the uint64_t ", base(), " + g"); }
};

// query policy of a mode-2 history (n[7])
struct Policy {
  unsigned first = 0; // bits 0-1
  unsigned rest = 0; // bits 2-3
};

struct Stats {
  bool nontrivial = false;
  uint64_t mutations = 0;
  uint64_t failed_inserts = 0; // insertions that ended with the injected exception (mode 5)
  uint64_t armed_inserts = 0;
  uint64_t failed_but_stored = 0; // ... of which the entry was in the tree afterwards (the exception came from building the returned iterator)
};

// ---------------------------------------------------------------- a value type whose copy construction can fail (mode 5)
//
// ValueType is a template parameter: copying a value may throw (a std::string value throws bad_alloc, a handle type its own error).
// After an insertion that ended with an exception the tree must still be a multiset a plain list could be: either the entry is in
// it (the exception came from building the returned iterator, which holds a copy of the entry) or it is not (the entry could not be
// constructed) - size(), iteration and every query agree with ONE of these two models, later operations work, and destroying the tree
// releases everything. A size() that counts an entry no iteration or query produces agrees with neither. The k-th copy construction after arm(k) throws InjectedFailure;
// copies are counted only while armed (around the insertion), moves never throw.
struct InjectedFailure : std::runtime_error {
  InjectedFailure() : std::runtime_error("C13: injected failure of a value copy") {}
};
struct ThrowingValue {
  static inline int64_t live = 0;
  static inline uint64_t countdown = 0, copies_from_dead = 0;
  static constexpr uint64_t kAlive = 0xA11FE0A11FE0A11FULL;
  int64_t v;
  uint64_t canary;
  ThrowingValue(int64_t v = 0) : v(v), canary(kAlive) { live++; }
  ThrowingValue(const ThrowingValue& o) : v(o.v), canary(kAlive) {
    if (countdown && --countdown == 0) throw InjectedFailure();
    if (o.canary != kAlive) copies_from_dead++;
    live++;
  }
  ThrowingValue(ThrowingValue&& o) noexcept : v(o.v), canary(kAlive) {
    if (o.canary != kAlive) copies_from_dead++;
    live++;
  }
  ThrowingValue& operator=(const ThrowingValue& o) {
    if (countdown && --countdown == 0) throw InjectedFailure();
    if (o.canary != kAlive || canary != kAlive) copies_from_dead++;
    v = o.v;
    return *this;
  }
  ThrowingValue& operator=(ThrowingValue&& o) noexcept {
    if (o.canary != kAlive || canary != kAlive) copies_from_dead++;
    v = o.v;
    return *this;
  }
  ~ThrowingValue() {
    canary = 0xDEADDEADDEADDEADULL;
    live--;
  }
  operator int64_t() const { return v; }
  friend bool operator==(const ThrowingValue& a, const ThrowingValue& b) { return a.v == b.v; }
  friend bool operator==(const ThrowingValue& a, int64_t b) { return a.v == b; }
  friend bool operator!=(const ThrowingValue& a, const ThrowingValue& b) { return a.v != b.v; }
};
template <typename V>
struct ValueOps {
  static void arm(unsigned) {}
  static void disarm() {}
  static int64_t live() { return 0; }
  static uint64_t dead_copies() { return 0; }
};
template <>
struct ValueOps<ThrowingValue> {
  static void arm(unsigned k) { ThrowingValue::countdown = k; }
  static void disarm() { ThrowingValue::countdown = 0; }
  static int64_t live() { return ThrowingValue::live; }
  static uint64_t dead_copies() { return ThrowingValue::copies_from_dead; }
};

enum Battery { LIGHT = 0, FULL = 1, LOOKUPS = 2, FULL_ABSENT = 3, MEDIUM = 4 };

// Tall chains (mode 4). The tree is never rebalanced, so n entries inserted in one of these orders form a chain n levels deep.
enum ChainShape : unsigned {
  CHAIN_ASCENDING = 0, // (i,i): every entry goes to after_or_equal
  CHAIN_DESCENDING = 1, // (n-1-i, n-1-i): every entry goes to before
  CHAIN_ALL_EQUAL = 2, // n entries at one point (values i mod 3: equal (point, value) pairs too)
  CHAIN_HALF_HALF = 3, // ascending diagonal, then the second half at the deepest point
  CHAIN_ZIGZAG = 4, // 0, n-1, 1, n-2, ... on every axis: after, before, after, ...
  CHAIN_STAIRCASE = 5, // one axis grows per step, the others tie: (0,0) (1,0) (1,1) (2,1) ...
  NUM_CHAIN_SHAPES = 6
};
static const char* kChainNames[NUM_CHAIN_SHAPES] = {"ascending", "descending", "all-equal", "half-half", "zigzag", "staircase"};

// Runs f on a new thread whose stack has the given size and waits for it. Secondary threads have small default stacks
// on several platforms (musl 128 KiB, macOS 512 KiB); a tree operation whose stack use grows with the height of the tree
// overflows there long before it does on an 8 MiB main-thread stack. A verif::Fail / exception thrown by f is rethrown here.
inline void run_on_small_stack(size_t kib, const std::function<void()>& f) {
  struct Arg {
    const std::function<void()>* f;
    std::exception_ptr err;
  } arg{&f, nullptr};
  pthread_attr_t a;
  if (pthread_attr_init(&a) != 0 || pthread_attr_setstacksize(&a, kib * 1024) != 0) throw std::logic_error("C13: cannot set the thread stack size");
  pthread_t th;
  int rc = pthread_create(
      &th, &a, [](void* p) -> void* {
        Arg* g = static_cast<Arg*>(p);
        try {
          (*g->f)();
        } catch (...) {
          g->err = std::current_exception();
        }
        return nullptr;
      },
      &arg);
  pthread_attr_destroy(&a);
  if (rc != 0) throw std::logic_error("C13: cannot create the small-stack thread");
  pthread_join(th, nullptr);
  if (arg.err) std::rethrow_exception(arg.err);
}

struct ChainInfo {
  bool bfs_is_insertion_order = false; // the iteration visited the entries in insertion order: the tree is one chain
  uint64_t erased = 0;
};

template <size_t D, typename P = PointOf<D>, typename V = int64_t>
struct KD {
  typedef typename P::T PT;
  typedef phosg::KDTree<PT, V> Tree;
  typedef Entry<D> E;
  typedef std::vector<E> Model;

  // pt: the point as a QUERY spells it; spt: as insertion number k stores it (they differ only in the sign of zero coordinates of
  // the double instantiation); same_pt: coordinate-wise IEEE equality, independent of the library's own Vector::operator==
  static PT pt(const std::array<int64_t, D>& c) { return P::make(c); }
  static PT spt(const std::array<int64_t, D>& c, uint64_t k) { return P::make_stored(c, k); }
  static bool same_pt(const PT& a, const PT& b) {
    for (size_t d = 0; d < D; d++)
      if (!(a.at(d) == b.at(d))) return false;
    return true;
  }
  static E from(const PT& p, int64_t v) {
    E e;
    for (size_t d = 0; d < D; d++) e.c[d] = P::back(p.at(d));
    e.v = v;
    return e;
  }
  static std::string show(const std::array<int64_t, D>& c) {
    std::string r = "(";
    for (size_t d = 0; d < D; d++) r += cat(d ? "," : "", c[d]);
    return r + ")";
  }
  static std::string show(const std::vector<E>& v) {
    std::string r = "{";
    for (size_t i = 0; i < v.size() && i < 24; i++) r += cat(i ? " " : "", show(v[i].c), "=", v[i].v);
    if (v.size() > 24) r += " ...";
    return r + "}";
  }

  // ---------------------------------------------------------------- query battery pieces

  static E deref(const typename Tree::Iterator& it) { return from(it->first, it->second); }

  // positions: 0 = none, 1 / 2 = that many positions chosen by sel, >= 3 = every position
  static void check_size_and_iteration(const Tree& t, const Model& m, const Where& w, uint64_t sel = 0, unsigned positions = 1) {
    VCHECK(t.size() == m.size(), "size", "size() is ", t.size(), " model holds ", m.size(), " entries after ", w);
    std::vector<E> got;
    size_t guard = 0;
    auto end = t.end();
    for (auto it = t.begin(); it != end; ++it) {
      VCHECK(++guard <= m.size() + 1, "iteration-overrun", "iteration yields more than the ", m.size(), " entries of the model after ", w);
      got.push_back(from(it->first, it->second));
      VCHECK(same_pt((*it).first, it->first) && (*it).second == it->second, "iterator-deref", "operator* and operator-> disagree after ", w);
    }
    std::vector<E> seq(got);
    std::vector<E> exp(m);
    std::sort(got.begin(), got.end());
    std::sort(exp.begin(), exp.end());
    VCHECK(got == exp, "iteration-multiset", "iteration yields ", show(got), " but the model holds ", show(exp), " after ", w);
    VCHECK((t.begin() == t.end()) == m.empty(), "begin-end", "begin()==end() is ", (t.begin() == t.end()), " with ", m.size(), " entries after ", w);
    if (seq.empty() || positions == 0) return;
    if (positions >= 3) {
      for (size_t p = 0; p < seq.size(); p++) check_iterator_position(t, seq, p, mix(sel, p), w);
    } else {
      for (unsigned k = 0; k < positions; k++) {
        uint64_t h = mix(sel, 0x17E2 + k);
        check_iterator_position(t, seq, h % seq.size(), h >> 8, w);
      }
    }
  }

  // seq: what the plain ++it walk from begin() visits. Walks to position p with a mix of stepping styles chosen by h,
  // then checks it++ there and walks the returned iterator, a copy and the iterator itself to the end.
  static void check_iterator_position(const Tree& t, const std::vector<E>& seq, size_t p, uint64_t h, const Where& w) {
    typedef typename Tree::Iterator It;
    const size_t n = seq.size();
    const It end = t.end();
    It it = t.begin();
    for (size_t k = 0; k < p; k++) {
      switch (mix(h, k) % 4) {
        case 0: ++it; break;
        case 1: it++; break;
        case 2: { // go on with the iterator it++ returned
          It old = it++;
          VCHECK(old != end && deref(old) == seq[k], "iterator-postinc-result", "the iterator returned by it++ at position ", k, " of ", n, " does not designate the entry it was at, after ", w);
          it = old;
          ++it;
          break;
        }
        default: { // go on with an advanced copy; the original must not move
          It c(it);
          ++c;
          VCHECK(it != end && deref(it) == seq[k], "iterator-copy-independent", "advancing a copy of the iterator at position ", k, " of ", n, " moved the original, after ", w);
          it = c;
          break;
        }
      }
      VCHECK(it != end, "iterator-walk-stops-early", "a walk mixing ++it, it++ and iterator copies compares equal to end() after ", k + 1, " steps of ", n, " entries, after ", w);
      VCHECK(deref(it) == seq[k + 1], "iterator-walk-order", "a walk mixing ++it, it++ and iterator copies is at ", show(deref(it).c), "=", deref(it).v, " after ", k + 1,
          " steps where the plain ++it walk is at ", show(seq[k + 1].c), "=", seq[k + 1].v, ", after ", w);
    }
    It before(it);
    It old = it++;
    VCHECK(old == before && !(old != before) && old != end, "iterator-postinc-result", "the iterator returned by it++ at position ", p, " of ", n, " does not compare equal to a copy taken before, after ", w);
    VCHECK(deref(old) == seq[p], "iterator-postinc-result", "the iterator returned by it++ at position ", p, " of ", n, " designates ", show(deref(old).c), "=", deref(old).v, " instead of ", show(seq[p].c), "=", seq[p].v, ", after ", w);
    VCHECK((it == end) == (p + 1 == n), "iterator-postinc-advances", "after it++ at position ", p, " of ", n, " it==end() is ", (it == end), ", after ", w);
    if (p + 1 < n) VCHECK(deref(it) == seq[p + 1], "iterator-postinc-advances", "after it++ at position ", p, " of ", n, " the iterator is not at the next entry, after ", w);
    {
      It nx(old);
      ++nx;
      VCHECK(nx == it && !(nx != it), "iterator-postinc-continuation", "++(it++) != it at position ", p, " of ", n, ", after ", w);
    }
    // the three iterators are independent positions: each visits exactly what the reference walk visits from there on
    auto walk = [&](It& c, size_t from_pos, bool post, const char* clause, const char* what) { // consumes c
      size_t k = from_pos;
      while (c != end) {
        VCHECK(k < n, clause, "continuing from ", what, " at position ", p, " of ", n, " visits more entries than the plain walk, after ", w);
        E cur;
        if (post) {
          auto pr = *c++;
          cur = from(pr.first, pr.second);
        } else {
          cur = deref(c);
          ++c;
        }
        VCHECK(cur == seq[k], clause, "continuing from ", what, " at position ", p, " of ", n, " visits ", show(cur.c), "=", cur.v, " where the plain walk visits ", show(seq[k].c), "=", seq[k].v, ", after ", w);
        k++;
      }
      VCHECK(k == n, clause, "continuing from ", what, " at position ", p, " of ", n, " reaches end() after ", k - from_pos, " entries; the plain walk visits ", n - from_pos, " from there, after ", w);
    };
    walk(old, p, false, "iterator-postinc-continuation", "the iterator returned by it++");
    walk(before, p, (h >> 20) & 1, "iterator-copy-independent", "a copy of the iterator taken before it++");
    walk(it, p + 1, !((h >> 20) & 1), "iterator-walk-order", "the incremented iterator");
  }

  static void check_point(const Tree& t, const Model& m, const std::array<int64_t, D>& c, const Where& w) {
    std::vector<int64_t> vals;
    for (const E& e : m)
      if (e.c == c) vals.push_back(e.v);
    PT p = pt(c);
    if (!vals.empty()) {
      VCHECK(t.exists(p), "lookup-lost:exists", "exists(", show(c), ") is false but the model holds ", vals.size(), " entr(y/ies) there after ", w);
      int64_t v;
      try {
        v = t.at(p);
      } catch (const std::out_of_range&) {
        VFAIL("lookup-lost:at", "at(", show(c), ") threw out_of_range but the model holds an entry there after ", w);
      }
      VCHECK(std::find(vals.begin(), vals.end(), v) != vals.end(), "lookup-value", "at(", show(c), ") returned ", v, " which is not a value stored at that point after ", w);
    } else {
      VCHECK(!t.exists(p), "lookup-phantom:exists", "exists(", show(c), ") is true but the model holds nothing there after ", w);
      bool threw = false;
      try {
        t.at(p);
      } catch (const std::out_of_range&) {
        threw = true;
      }
      VCHECK(threw, "lookup-phantom:at", "at(", show(c), ") returned although the model holds nothing there after ", w);
    }
  }

  static void check_box(const Tree& t, const Model& m, const std::array<int64_t, D>& lo, const std::array<int64_t, D>& hi, const Where& w) {
    std::vector<E> exp;
    for (const E& e : m) {
      bool in = true;
      for (size_t d = 0; d < D; d++) in &= (e.c[d] >= lo[d] && e.c[d] < hi[d]);
      if (in) exp.push_back(e);
    }
    std::vector<std::pair<PT, V>> res;
    try {
      res = t.within(pt(lo), pt(hi));
    } catch (const std::exception& ex) {
      VFAIL(m.empty() ? "within-throws:empty-tree" : "within-throws", "within(", show(lo), ",", show(hi), ") threw ", typeid(ex).name(), " (", ex.what(), "); a linear scan gives ", exp.size(), " entries, after ", w);
    }
    std::vector<E> got;
    for (const auto& r : res) got.push_back(from(r.first, r.second));
    std::sort(got.begin(), got.end());
    std::sort(exp.begin(), exp.end());
    VCHECK(got == exp, "within-multiset", "within(", show(lo), ",", show(hi), ") returned ", show(got), " but a linear scan gives ", show(exp), " after ", w);
    bool ex = t.exists(pt(lo), pt(hi));
    VCHECK(ex == !exp.empty(), "exists-range", "exists(", show(lo), ",", show(hi), ") is ", ex, " but a linear scan finds ", exp.size(), " entries after ", w);
  }

  template <typename F>
  static void for_each_cell(int64_t lo, int64_t hi, F&& f) { // every point of [lo,hi]^D
    std::array<int64_t, D> c;
    c.fill(lo);
    while (true) {
      f(c);
      size_t d = 0;
      while (d < D && ++c[d] > hi) c[d++] = lo;
      if (d == D) return;
    }
  }

  // battery: what is asked after a mutation
  // order = 0: the live points are visited in sorted order; otherwise starting at the (order/2 mod n)-th, downwards if order is odd
  static void check_state(const Tree& t, const Model& m, int64_t side, Battery level, uint64_t salt, const Where& w, uint64_t order = 0) {
    // iterator positions (cost: every iterator copy copies its queue): every position where the fullest battery runs (after the
    // insertions of an exhaustive block, at the end of a history) while the tree is small, otherwise one chosen by the
    // case - with the cheapest battery (innermost exhaustive loops) in a quarter of the states
    uint64_t sel = mix(salt, w.i + 0x1735);
    unsigned positions = (level == FULL_ABSENT) ? (m.size() <= 8 ? 3 : 2) : (level == LOOKUPS) ? ((sel >> 40) % 4 == 0) : 1;
    check_size_and_iteration(t, m, w, sel, positions);
    // every distinct live point: exact lookup + the single-cell box around it (two-sided descent must find it too)
    std::vector<std::array<int64_t, D>> live;
    for (const E& e : m) live.push_back(e.c);
    std::sort(live.begin(), live.end());
    live.erase(std::unique(live.begin(), live.end()), live.end());
    for (size_t k = 0; k < live.size(); k++) {
      size_t at = k;
      if (order) at = (order & 1) ? (live.size() - 1 - ((order / 2 + k) % live.size())) : ((order / 2 + k) % live.size());
      const auto& c = live[at];
      check_point(t, m, c, w);
      if (level != LOOKUPS) {
        auto hi = c;
        for (size_t d = 0; d < D; d++) hi[d]++;
        check_box(t, m, c, hi, w);
      }
    }
    if (level == LOOKUPS) {
      // cheapest battery (innermost exhaustive loops): absent cells through the exception-free range query
      for_each_cell(0, side - 1, [&](const std::array<int64_t, D>& c) {
        if (std::binary_search(live.begin(), live.end(), c)) return;
        auto hi = c;
        for (size_t d = 0; d < D; d++) hi[d]++;
        VCHECK(!t.exists(pt(c), pt(hi)), "exists-range", "exists(", show(c), ",", show(hi), ") is true but the model holds nothing there after ", w);
      });
      return;
    }
    std::array<int64_t, D> all_lo, all_hi;
    all_lo.fill(-1);
    all_hi.fill(side + 1);
    check_box(t, m, all_lo, all_hi, w);
    if (level == MEDIUM) {
      // the single-cell box of every absent cell, and every one-cell-thick slab along every axis
      for_each_cell(0, side - 1, [&](const std::array<int64_t, D>& c) {
        if (std::binary_search(live.begin(), live.end(), c)) return;
        auto hi = c;
        for (size_t d = 0; d < D; d++) hi[d]++;
        check_box(t, m, c, hi, w);
      });
      for (size_t d = 0; d < D; d++)
        for (int64_t v = 0; v < side; v++) {
          auto lo = all_lo, hi = all_hi;
          lo[d] = v;
          hi[d] = v + 1;
          check_box(t, m, lo, hi, w);
        }
      return;
    }
    uint64_t h = mix(salt, w.i + 1);
    auto rnd = [&h](uint64_t n) {
      h = mix(h, 0x51ED);
      return static_cast<int64_t>(h % n);
    };
    if (level == FULL || level == FULL_ABSENT) {
      // every box with corners on the grid lines 0..side; absent points through at()/exists(pt) - both throw inside
      // phosg, ~30 us per point under ASan - for every point of the grid and the ring around it (FULL_ABSENT) or for
      // three of them chosen by the state (FULL; the single-cell boxes below cover the other absent cells)
      uint64_t pick = 0, cells = 0;
      for_each_cell(-1, side, [&](const std::array<int64_t, D>&) { cells++; });
      for_each_cell(-1, side, [&](const std::array<int64_t, D>& c) {
        pick++;
        if (std::binary_search(live.begin(), live.end(), c)) return;
        if (level == FULL_ABSENT || ((pick + h) % cells) < 3) check_point(t, m, c, w);
      });
      for_each_cell(0, side, [&](const std::array<int64_t, D>& lo) {
        for_each_cell(0, side, [&](const std::array<int64_t, D>& hi) {
          bool ordered = true;
          for (size_t d = 0; d < D; d++) ordered &= lo[d] <= hi[d];
          if (ordered) check_box(t, m, lo, hi, w);
        });
      });
      // an inverted box is empty
      std::array<int64_t, D> a, b;
      a.fill(side);
      b.fill(0);
      check_box(t, m, a, b, w);
    } else {
      // absent points are expensive (exists(pt) is implemented with an exception): a few per step
      for (int k = 0; k < 3; k++) {
        std::array<int64_t, D> c;
        for (size_t d = 0; d < D; d++) c[d] = rnd(side + 2) - 1;
        if (!std::binary_search(live.begin(), live.end(), c)) check_point(t, m, c, w);
      }
      for (int k = 0; k < 10; k++) {
        std::array<int64_t, D> lo, hi;
        for (size_t d = 0; d < D; d++) {
          int64_t a = rnd(side + 2) - 1, b = rnd(side + 2) - 1;
          if (k < 8 && a > b) std::swap(a, b); // the last two may be inverted (empty) boxes
          lo[d] = a;
          hi[d] = b + (k & 1);
        }
        check_box(t, m, lo, hi, w);
      }
    }
  }

  static bool shares_coordinate(const Model& m, size_t idx) {
    for (size_t j = 0; j < m.size(); j++) {
      if (j == idx) continue;
      for (size_t d = 0; d < D; d++)
        if (m[j].c[d] == m[idx].c[d]) return true;
    }
    return false;
  }

  // how == 0: the plain form. The iterator that was not handed to erase_advance is never used again before it is assigned to.
  static void erase_styled(Tree& t, typename Tree::Iterator& it, uint64_t how) {
    if (how & 1) {
      auto c = it;
      t.erase_advance(c);
      it = c;
    } else {
      t.erase_advance(it);
    }
  }
  static void advance_styled(typename Tree::Iterator& it, uint64_t how) {
    switch ((how >> 1) % 4) {
      case 0: ++it; break;
      case 1: it++; break;
      case 2: { // go on with the iterator it++ returned
        auto old = it++;
        it = old;
        ++it;
        break;
      }
      default: { // go on with an advanced copy
        auto c = it;
        ++c;
        it = c;
        break;
      }
    }
  }

  // One pass over the tree that removes every entry the predicate selects with erase_advance and steps over the others;
  // updates the model. style == 0: ++it and erase_advance(it) only. Otherwise every step picks (by hash of style and
  // step number) how it advances - ++it, it++, continuing on the iterator it++ returned, continuing on an advanced copy -
  // and how it erases - erase_advance(it), or erase_advance on a copy that is then assigned back (the iterator that was
  // not handed to erase_advance is never used again before it is assigned to).
  template <typename Pred>
  static void sweep(Tree& t, Model& m, Pred&& pred, uint64_t style, Stats& st, const Where& here) {
    std::vector<E> kept, erased, exp_kept, exp_erased;
    for (size_t j = 0; j < m.size(); j++) {
      if (pred(m[j])) {
        exp_erased.push_back(m[j]);
        if (m.size() >= 3 && shares_coordinate_cheap(m, j)) st.nontrivial = true;
      } else exp_kept.push_back(m[j]);
    }
    size_t guard = 0;
    for (auto it = t.begin(); it != t.end();) {
      VCHECK(++guard <= m.size() + 1, "sweep-overrun", "an erase_advance sweep visits more than the ", m.size(), " entries of the tree at ", here);
      E cur = from(it->first, it->second);
      uint64_t how = style ? mix(style, guard) : 0;
      if (pred(cur)) {
        erased.push_back(cur);
        erase_styled(t, it, how);
      } else {
        kept.push_back(cur);
        advance_styled(it, how);
      }
    }
    std::sort(kept.begin(), kept.end());
    std::sort(erased.begin(), erased.end());
    std::sort(exp_kept.begin(), exp_kept.end());
    std::sort(exp_erased.begin(), exp_erased.end());
    const char* mixed = style ? " (the sweep mixes ++it, it++, iterator copies and erase_advance on a copy)" : "";
    VCHECK(kept == exp_kept, "sweep-visits-survivors-once", "the sweep visited the surviving entries ", show(kept), " but the survivors are ", show(exp_kept), mixed, " at ", here);
    VCHECK(erased == exp_erased, "sweep-erased", "the sweep erased ", show(erased), " but the predicate selects ", show(exp_erased), mixed, " at ", here);
    m = exp_kept;
  }

  // The same pass with the entries to remove chosen by visit number (every stride-th entry met), for trees in which many
  // entries are equal as (point, value) pairs: whatever the sweep met - stepped over or erased - must be the model's
  // multiset, every entry exactly once; the model becomes what was stepped over.
  static uint64_t sweep_by_visit(Tree& t, Model& m, uint64_t stride, uint64_t offset, uint64_t style, const Where& here) {
    std::vector<E> kept, met;
    uint64_t erased = 0;
    size_t guard = 0;
    for (auto it = t.begin(); it != t.end();) {
      VCHECK(++guard <= m.size() + 1, "sweep-overrun", "an erase_advance sweep visits more than the ", m.size(), " entries of the tree at ", here);
      E cur = from(it->first, it->second);
      met.push_back(cur);
      uint64_t how = style ? mix(style, guard) : 0;
      if (guard % stride == offset % stride) {
        erased++;
        erase_styled(t, it, how);
      } else {
        kept.push_back(cur);
        advance_styled(it, how);
      }
    }
    std::vector<E> exp(m);
    std::sort(met.begin(), met.end());
    std::sort(exp.begin(), exp.end());
    VCHECK(met == exp, "sweep-visits-survivors-once", "a sweep erasing every ", stride, "th entry it meets met ", met.size(), " entries ", show(met), " but the tree held ", exp.size(), " ", show(exp),
        style ? " (the sweep mixes ++it, it++, iterator copies and erase_advance on a copy)" : "", " at ", here);
    m = kept;
    return erased;
  }

  // shares_coordinate is quadratic over a sweep; beyond 2000 entries (tall chains, which decide non-triviality
  // from their shape) it is not evaluated
  static bool shares_coordinate_cheap(const Model& m, size_t idx) { return m.size() <= 2000 && shares_coordinate(m, idx); }

  // ---------------------------------------------------------------- one history

  // q == nullptr: mode 0 (the battery after every mutation); otherwise mode 2: the lookups between mutations are the
  // generated ones (PROBE / PROBE_LIVE / BOX / BATTERY) plus what the policy asks after a mutation
  // inject (mode 5, V = ThrowingValue): the value field of INSERT / EMPLACE is v + 10 * k and the digit of INSERT_DUP v + 3 * k;
  // k > 0 makes the k-th copy construction of a value during that insertion throw
  static void replay(const uint64_t* ops, size_t n, int64_t side, uint64_t salt, Stats& st, const Policy* q = nullptr, bool inject = false) {
    alloc_balance::Scope heap;
    const int64_t values_live_before = ValueOps<V>::live();
    const uint64_t dead_copies_before = ValueOps<V>::dead_copies();
    {
      Tree t;
      Model m;
      Battery level = (D == 2 && side <= 4) ? FULL : LIGHT;
      if (!q) check_state(t, m, side, level, salt, Where{ops, n, 0, "construction"});
      std::vector<std::array<int64_t, D>> probed; // points looked up so far, most recent last
      auto probe = [&](const std::array<int64_t, D>& c, const Where& w) {
        check_point(t, m, c, w);
        probed.erase(std::remove(probed.begin(), probed.end(), c), probed.end());
        probed.push_back(c);
        if (probed.size() > 3) probed.erase(probed.begin());
      };
      for (size_t i = 0; i < n; i++) {
        Step s = unpack(ops[i]);
        Where here{ops, n, i, nullptr};
        std::array<int64_t, D> c;
        for (size_t d = 0; d < D; d++) c[d] = s.c[d];
        if (s.code >= PROBE) {
          if (!q) throw std::logic_error("C13: query operations belong to mode-2 histories");
          if (s.code == PROBE) {
            probe(c, here);
          } else if (s.code == PROBE_LIVE) {
            if (!m.empty()) c = m[s.r % m.size()].c;
            else c.fill(0);
            probe(c, here);
          } else if (s.code == BOX) {
            uint64_t h = mix(s.r, 0xB0C5);
            std::array<int64_t, D> lo, hi;
            for (size_t d = 0; d < D; d++) {
              h = mix(h, d);
              int64_t a = static_cast<int64_t>(h % (side + 2)) - 1, b = static_cast<int64_t>((h >> 20) % (side + 2)) - 1;
              if (a > b && (s.r % 8)) std::swap(a, b); // one in eight may be inverted (empty)
              lo[d] = a;
              hi[d] = b + 1;
            }
            check_box(t, m, lo, hi, here);
          } else {
            check_state(t, m, side, level, salt, here, 1 + s.r);
          }
          continue;
        }
        switch (s.code) {
          case INSERT_DUP:
            if (!m.empty()) c = m[s.r % m.size()].c;
            else c.fill(0);
            // fall through
          case INSERT:
          case EMPLACE: {
            int64_t v = static_cast<int64_t>(s.value);
            unsigned inj = 0;
            if (inject) {
              if (s.code == INSERT_DUP) {
                inj = static_cast<unsigned>(v / 3);
                v %= 3;
              } else {
                inj = static_cast<unsigned>((v / 10) % 10);
                v %= 10;
              }
            }
            const PT sp = spt(c, i);
            const V val(v);
            bool threw = false;
            if (inj) st.armed_inserts++;
            ValueOps<V>::arm(inj);
            try {
#ifdef C13_GATED
              auto it = (s.code == EMPLACE) ? t.emplace(sp, val) : t.insert(sp, val);
#else
              if (s.code == EMPLACE) throw std::logic_error("C13: emplace is only exercised by the gated build");
              auto it = t.insert(sp, val);
#endif
              ValueOps<V>::disarm();
              VCHECK(same_pt(it->first, sp) && it->second == v, "insert-iterator", "the iterator returned by ", kCodeNames[s.code], " does not designate the new entry at ", here);
            } catch (const InjectedFailure&) {
              ValueOps<V>::disarm();
              threw = true;
            }
            bool stored = !threw;
            if (threw) {
              // The exception may come from constructing the entry (nothing was stored) or from building the returned iterator, which
              // holds a copy of the entry (the entry is stored by then). The statement leaves open which of the two states the tree is
              // in, not that it is in one of them: size() and the iteration must agree with each other, on the old multiset or on the
              // old multiset plus this entry, and the battery below compares everything else with the model chosen that way.
              st.failed_inserts++;
              size_t visited = 0;
              for (auto it = t.begin(); it != t.end(); ++it) VCHECK(++visited <= m.size() + 2, "iteration-overrun", "iteration does not end after an insertion that threw, at ", here);
              VCHECK(t.size() == visited, "failed-insert:size-vs-iteration", "after an insertion that ended with an exception (copy #", inj, " of the value threw) size() is ", t.size(), " but iteration visits ", visited,
                  " entries (the tree held ", m.size(), " before), at ", here);
              VCHECK(visited == m.size() || visited == m.size() + 1, "failed-insert:entry-count", "after an insertion that ended with an exception the tree holds ", visited, " entries; it held ", m.size(), " before, at ", here);
              stored = visited == m.size() + 1;
              if (stored) st.failed_but_stored++;
            }
            if (stored) {
              E e;
              e.c = c;
              e.v = v;
              m.push_back(e);
            }
            break;
          }
          case ERASE_LIVE:
          case ERASE: {
            int64_t v = static_cast<int64_t>(s.value);
            if (s.code == ERASE_LIVE) {
              if (!m.empty()) {
                c = m[s.r % m.size()].c;
                v = m[s.r % m.size()].v;
              } else {
                c.fill(0);
                v = 0;
              }
            }
            size_t idx = m.size();
            for (size_t j = 0; j < m.size(); j++)
              if (m[j].c == c && m[j].v == v) {
                idx = j;
                break;
              }
            bool r = t.erase(pt(c), v);
            if (idx == m.size()) {
              VCHECK(!r, "erase-phantom", "erase(", show(c), ",", v, ") returned true but the model holds no such entry at ", here);
            } else {
              VCHECK(r, "lookup-lost:erase", "erase(", show(c), ",", v, ") returned false but the model holds that entry at ", here);
              if (m.size() >= 3 && shares_coordinate(m, idx)) st.nontrivial = true;
              m.erase(m.begin() + idx);
            }
            break;
          }
          case SWEEP: {
            // iterate and erase_advance every entry the predicate selects; everything else must be visited exactly once
            auto pred = [&](const E& e) {
              uint64_t h = mix(s.r, static_cast<uint64_t>(e.v));
              for (size_t d = 0; d < D; d++) h = mix(h, static_cast<uint64_t>(e.c[d]));
              return (h % 8) < s.t;
            };
            // a third of the sweeps use ++it / erase_advance(it) only, the others mix the stepping styles
            sweep(t, m, pred, (s.r % 3) == 0 ? 0 : (mix(s.r, 0x57E9) | 1), st, here);
            break;
          }
          default:
            throw std::logic_error("C13: unknown operation");
        }
        st.mutations++;
        if (q) {
          // first the points that were looked up before the mutation (in the order the policy says), then the rest
          if (q->first == 1 && !probed.empty()) {
            check_point(t, m, probed.back(), here);
          } else if (q->first == 2) {
            for (size_t k = probed.size(); k-- > 0;) check_point(t, m, probed[k], here);
          } else if (q->first == 3) {
            for (size_t k = 0; k < probed.size(); k++) check_point(t, m, probed[k], here);
          }
          if (q->rest == 0) VCHECK(t.size() == m.size(), "size", "size() is ", t.size(), " model holds ", m.size(), " entries after ", here);
          else if (q->rest == 1) check_size_and_iteration(t, m, here, mix(salt, i), 1);
          else if (q->rest == 2 || (st.mutations % 8) == 0) check_state(t, m, side, LIGHT, salt, here, 1 + mix(salt, i));
          continue;
        }
        Battery lv = level;
        if (lv == LIGHT && (i + 1 == n || (i % 16) == 15) && side <= 6) lv = (D == 2) ? FULL : LIGHT;
        if (lv == FULL && i + 1 == n) lv = FULL_ABSENT;
        check_state(t, m, side, lv, salt, here);
      }
      if (q) check_state(t, m, side, level == FULL ? FULL_ABSENT : LIGHT, salt, Where{ops, n, n, "at the end"}, 1 + salt);
    } // the tree is destroyed here, in whatever state the history left it
    VCHECK(!heap.leaked(), "leak", heap.excess(), " heap block(s) allocated during the history are still live after the tree was destroyed and LeakSanitizer reports a leak");
    VCHECK(ValueOps<V>::live() == values_live_before, "value-leak", ValueOps<V>::live() - values_live_before, " value object(s) constructed during the history were not destroyed with the tree");
    VCHECK(ValueOps<V>::dead_copies() == dead_copies_before, "value-used-after-destruction", "a value object was copied from / assigned to after its destructor ran");
  }

  // ---------------------------------------------------------------- tall chains (mode 4)

  static std::array<int64_t, D> chain_point(unsigned shape, uint64_t n, uint64_t i, uint64_t salt) {
    std::array<int64_t, D> c;
    for (size_t d = 0; d < D; d++) {
      uint64_t v;
      switch (shape) {
        case CHAIN_ASCENDING: v = i; break;
        case CHAIN_DESCENDING: v = n - 1 - i; break;
        case CHAIN_ALL_EQUAL: v = ((salt >> 8) + d) % 5; break;
        case CHAIN_HALF_HALF: v = std::min<uint64_t>(i, n / 2); break;
        case CHAIN_ZIGZAG: v = (i & 1) ? n - 1 - i / 2 : i / 2; break;
        case CHAIN_STAIRCASE: v = (i + D - 1 - d) / D; break;
        default: throw std::logic_error("C13: unknown chain shape");
      }
      c[d] = static_cast<int64_t>(v);
    }
    return c;
  }

  // Everything a chain case does; runs on the small-stack thread, the tree is destroyed there too.
  static void chain_body(unsigned shape, uint64_t n, uint64_t salt, Stats& st, ChainInfo& info) {
    const std::string what = cat("a chain of ", n, " entries (", kChainNames[shape], ", ", D, "-D, entry i has value i mod 3)");
    const std::string l_built = what + ", all inserted", l_erase = what + ", erase phase", l_swept = what + ", after the erases and an erase_advance sweep";
    const int64_t top = static_cast<int64_t>(n) + 2;
    alloc_balance::Scope heap;
    {
      Tree t;
      Model m;
      m.reserve(n);
      for (uint64_t i = 0; i < n; i++) {
        E e;
        e.c = chain_point(shape, n, i, salt);
        e.v = static_cast<int64_t>(i % 3);
        auto it = t.insert(pt(e.c), e.v);
        VCHECK(same_pt(it->first, pt(e.c)) && it->second == e.v, "insert-iterator", "the iterator returned by insert #", i, " does not designate the new entry, building ", what);
        m.push_back(e);
      }
      auto queries = [&](const Where& w, uint64_t h0) {
        check_size_and_iteration(t, m, w, mix(salt, h0), 2);
        if (m.empty()) return;
        // lookups: both ends of the chain, the middle, entries chosen by the salt, and points that are absent (outside the
        // range, off the chain, erased)
        std::vector<std::array<int64_t, D>> pts = {m.front().c, m.back().c, m[m.size() / 2].c};
        for (unsigned k = 0; k < 5; k++) pts.push_back(m[mix(mix(salt, h0), k) % m.size()].c);
        std::array<int64_t, D> a;
        a.fill(-1);
        pts.push_back(a);
        a.fill(top);
        pts.push_back(a);
        a = m[m.size() / 3].c;
        a[D - 1] += top; // off the chain
        pts.push_back(a);
        pts.push_back(chain_point(shape, n, mix(salt, h0 + 7) % n, salt)); // live or erased by now
        for (const auto& c : pts) check_point(t, m, c, w);
        // boxes: everything, nothing, inverted, single cells of live points, segments of the diagonal, a slab along one axis
        std::array<int64_t, D> lo, hi;
        lo.fill(-1);
        hi.fill(top);
        check_box(t, m, lo, hi, w);
        check_box(t, m, hi, lo, w);
        lo.fill(top);
        hi.fill(top + 5);
        check_box(t, m, lo, hi, w);
        for (unsigned k = 0; k < 3; k++) {
          lo = pts[k * 2];
          hi = lo;
          for (size_t d = 0; d < D; d++) hi[d]++;
          check_box(t, m, lo, hi, w);
        }
        for (unsigned k = 0; k < 4; k++) {
          uint64_t h = mix(mix(salt, h0), 0xB0 + k);
          int64_t x = static_cast<int64_t>(h % (n + 2)) - 1, y = static_cast<int64_t>((h >> 24) % (n + 2)) - 1;
          if (x > y) std::swap(x, y);
          lo.fill(x);
          hi.fill(y + 1);
          if (k == 3) { // a slab: bounded along one axis only
            size_t d = (h >> 50) % D;
            lo.fill(-1);
            hi.fill(top);
            lo[d] = x;
            hi[d] = y + 1;
          }
          check_box(t, m, lo, hi, w);
        }
      };
      queries(Where{nullptr, 0, 0, l_built.c_str()}, 1);
      {
        // one chain <=> the breadth-first iteration visits the entries in insertion order (recorded, not asserted)
        size_t k = 0;
        bool same = true;
        for (auto it = t.begin(); it != t.end() && k < m.size(); ++it, k++) same &= (from(it->first, it->second) == m[k]);
        info.bfs_is_insertion_order = same && k == m.size();
      }
      if (!(salt & 1)) {
        Where w{nullptr, 0, 0, l_erase.c_str()};
        // erase(point, value): root, deepest entry, middle, five chosen by the salt; then entries that are not there
        std::vector<size_t> idxs = {0, m.size() - 1, m.size() / 2};
        for (unsigned k = 0; k < 5; k++) idxs.push_back(mix(salt, 0xE0 + k) % m.size());
        for (size_t idx : idxs) {
          if (m.size() < 4) break;
          idx %= m.size();
          E e = m[idx];
          VCHECK(t.erase(pt(e.c), e.v), "lookup-lost:erase", "erase(", show(e.c), ",", e.v, ") returned false but the model holds that entry, ", w);
          m.erase(m.begin() + idx);
          info.erased++;
          VCHECK(t.size() == m.size(), "size", "size() is ", t.size(), " model holds ", m.size(), " entries after erase(", show(e.c), ",", e.v, "), ", w);
          check_point(t, m, e.c, w);
          VCHECK(!t.erase(pt(e.c), 7), "erase-phantom", "erase(", show(e.c), ",7) returned true but no entry has the value 7, ", w);
        }
        {
          std::array<int64_t, D> a;
          a.fill(top);
          VCHECK(!t.erase(pt(a), 0), "erase-phantom", "erase(", show(a), ",0) returned true but the model holds no such entry, ", w);
          VCHECK(t.size() == m.size(), "size", "size() is ", t.size(), " model holds ", m.size(), " entries after erases of absent entries, ", w);
        }
        // an erase_advance sweep over the whole chain removing about 24 entries (every stride-th one met), stepping styles mixed
        uint64_t stride = std::max<uint64_t>(2, m.size() / 24);
        info.erased += sweep_by_visit(t, m, stride, mix(salt, 0x5EE9), (salt & 2) ? (mix(salt, 0x57E9) | 1) : 0, w);
        queries(Where{nullptr, 0, 0, l_swept.c_str()}, 2);
        // non-trivial by the rule of the property (an erased entry shared a coordinate with a live one): decided by the shape
        if (info.erased && (shape == CHAIN_ALL_EQUAL || shape == CHAIN_HALF_HALF || shape == CHAIN_STAIRCASE)) st.nontrivial = true;
      }
    } // the chain is destroyed here, on the small stack
    VCHECK(!heap.leaked(), "leak", heap.excess(), " heap block(s) allocated for the chain are still live after the tree was destroyed and LeakSanitizer reports a leak");
  }

  // ---------------------------------------------------------------- exhaustive block: one insertion sequence, all erase orders (2-D, 3x3)
};

inline std::array<int64_t, 2> cell(uint64_t idx) { return {static_cast<int64_t>(idx % 3), static_cast<int64_t>(idx / 3)}; }

// builds the mode-0 history (insert all, erase in `order`) - the precise replay of one history of a block
inline std::vector<uint64_t> block_history(const std::vector<uint64_t>& cells, bool equal_values, const std::vector<unsigned>& order) {
  std::vector<uint64_t> ops;
  for (size_t i = 0; i < cells.size(); i++) ops.push_back(pack_pt(INSERT, cell(cells[i])[0], cell(cells[i])[1], -1, equal_values ? 7 : i));
  for (unsigned o : order) ops.push_back(pack_pt(ERASE, cell(cells[o])[0], cell(cells[o])[1], -1, equal_values ? 7 : o));
  return ops;
}

// returns the number of (insertion sequence, erase order) histories executed; on a failure *failed_order holds the order
inline uint64_t run_exhaustive_block(const std::vector<uint64_t>& cells, bool equal_values, Battery level, Stats& st, std::vector<unsigned>* failed_order) {
  typedef KD<2> K;
  size_t k = cells.size();
  std::vector<K::E> entries(k);
  for (size_t i = 0; i < k; i++) {
    entries[i].c = cell(cells[i]);
    entries[i].v = equal_values ? 7 : static_cast<int64_t>(i);
  }
  std::vector<unsigned> order(k);
  for (size_t i = 0; i < k; i++) order[i] = i;
  uint64_t count = 0;
  std::vector<uint64_t> ops; // only for messages; capacity reserved here so that refilling it inside a heap-balance scope allocates nothing
  ops.reserve(2 * k + 2);
  try {
    // the state after the k insertions (the states after fewer insertions were compared when the shorter sequence was enumerated)
    {
      alloc_balance::Scope heap;
      {
        K::Tree t;
        K::Model m;
        for (size_t i = 0; i < k; i++) {
          auto it = t.insert(K::pt(entries[i].c), entries[i].v);
          VCHECK(it->first == K::pt(entries[i].c) && it->second == entries[i].v, "insert-iterator", "the iterator returned by insert does not designate the new entry");
          m.push_back(entries[i]);
        }
        ops = block_history(cells, equal_values, {});
        K::check_state(t, m, 3, FULL_ABSENT, 0, Where{ops.data(), ops.size(), ops.size(), "after the insertions"});
      } // destroyed while full
      VCHECK(!heap.leaked(), "leak", "heap blocks still live after a full tree was destroyed and LeakSanitizer reports a leak");
      count++;
    }
    do {
      // battery after erase j only where this permutation is the first (lexicographically) to reach that state
      alloc_balance::Scope heap;
      {
        K::Tree t;
        K::Model m(entries);
        std::vector<bool> live(k, true);
        for (size_t i = 0; i < k; i++) t.insert(K::pt(entries[i].c), entries[i].v);
        for (size_t j = 0; j < k; j++) {
          const K::E& e = entries[order[j]];
          bool r = t.erase(K::pt(e.c), e.v);
          size_t idx = std::find(m.begin(), m.end(), e) - m.begin();
          if (!r || std::is_sorted(order.begin() + j + 1, order.end())) {
            ops = block_history(cells, equal_values, std::vector<unsigned>(order.begin(), order.begin() + j + 1));
          }
          Where here{ops.data(), ops.size(), ops.size(), "after the last erase"};
          VCHECK(r, "lookup-lost:erase", "erase(", K::show(e.c), ",", e.v, ") returned false but the model holds that entry, ", here);
          if (m.size() >= 3 && K::shares_coordinate(m, idx)) st.nontrivial = true;
          m.erase(m.begin() + idx);
          if (std::is_sorted(order.begin() + j + 1, order.end())) K::check_state(t, m, 3, level, mix(j, order[j]), here);
        }
      } // destroyed while empty
      VCHECK(!heap.leaked(), "leak", "heap blocks still live after the emptied tree was destroyed and LeakSanitizer reports a leak");
      count++;
    } while (std::next_permutation(order.begin(), order.end()));
  } catch (const Fail&) {
    if (failed_order) *failed_order = order;
    throw;
  }
  return count;
}

// mode 3: lookup of one point, ONE mutation, the same lookup first, then the cheap battery - for every mutation of the
// tree built from `cells`: erase_advance of every non-empty subset of the entries while iterating, erase of each entry,
// insert at each cell. Returns the number of histories executed.
inline uint64_t run_probe_block(const std::vector<uint64_t>& cells, uint64_t probe_cell, Stats& st) {
  typedef KD<2> K;
  size_t k = cells.size();
  std::array<int64_t, 2> pc = {static_cast<int64_t>(probe_cell % 5) - 1, static_cast<int64_t>(probe_cell / 5) - 1};
  std::vector<K::E> entries(k);
  for (size_t i = 0; i < k; i++) {
    entries[i].c = cell(cells[i]);
    entries[i].v = static_cast<int64_t>(i);
  }
  uint64_t count = 0;
  uint64_t subsets = (1ULL << k) - 1, total = subsets + k + 9;
  std::string label;
  label.reserve(256);
  for (uint64_t mu = 0; mu < total; mu++) {
    label.clear();
    alloc_balance::Scope heap;
    {
      K::Tree t;
      K::Model m;
      for (size_t i = 0; i < k; i++) {
        t.insert(K::pt(entries[i].c), entries[i].v);
        m.push_back(entries[i]);
      }
      auto say = [&](const char* stage) {
        label = cat(stage, ": insert ", K::show(entries), " then look up ", K::show(pc), ", then ");
        if (mu < subsets) {
          label += "erase_advance the entries with values {";
          for (size_t i = 0; i < k; i++)
            if ((mu + 1) >> i & 1) label += cat(i, " ");
          label += "} while iterating";
        } else if (mu < subsets + k) {
          label += cat("erase entry ", mu - subsets);
        } else {
          label += cat("insert(", K::show(cell(mu - subsets - k)), ",", k, ")");
        }
        return Where{nullptr, 0, 0, label.c_str()};
      };
      try {
        K::check_point(t, m, pc, Where{nullptr, 0, 0, "the insertions"});
      } catch (const Fail&) {
        say("before the mutation");
        throw;
      }
      try {
        if (mu < subsets) {
          uint64_t sel = mu + 1;
          size_t guard = 0;
          for (auto it = t.begin(); it != t.end();) {
            VCHECK(++guard <= k + 1, "sweep-overrun", "an erase_advance sweep visits more than the ", k, " entries of the tree");
            if ((sel >> it->second) & 1) {
              K::E cur = K::from(it->first, it->second);
              size_t idx = std::find(m.begin(), m.end(), cur) - m.begin();
              VCHECK(idx < m.size(), "sweep-erased", "the sweep met an entry the model does not hold");
              if (m.size() >= 3 && K::shares_coordinate(m, idx)) st.nontrivial = true;
              m.erase(m.begin() + idx);
              t.erase_advance(it);
            } else {
              ++it;
            }
          }
          for (const K::E& e : m) VCHECK(!((sel >> e.v) & 1), "sweep-erased", "the sweep did not reach a selected entry");
        } else if (mu < subsets + k) {
          const K::E& e = entries[mu - subsets];
          VCHECK(t.erase(K::pt(e.c), e.v), "lookup-lost:erase", "erase returned false for a live entry");
          m.erase(std::find(m.begin(), m.end(), e));
        } else {
          K::E e;
          e.c = cell(mu - subsets - k);
          e.v = static_cast<int64_t>(k);
          t.insert(K::pt(e.c), e.v);
          m.push_back(e);
        }
        Where w{nullptr, 0, 0, "the mutation"};
        K::check_point(t, m, pc, w); // the same lookup first
        K::check_state(t, m, 3, LOOKUPS, mu, w);
      } catch (const Fail& f) {
        Where w = say("lookup / one mutation / same lookup");
        throw Fail{f.sig, cat(f.msg, " [", w.label, "]")};
      }
    }
    VCHECK(!heap.leaked(), "leak", "heap blocks still live after the tree was destroyed and LeakSanitizer reports a leak");
    count++;
  }
  return count;
}

} // namespace c13
