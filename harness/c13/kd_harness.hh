// C13 - KDTree equals a brute-force multiset under any insert / erase / erase_advance history.
//
// A case is a whole history over an integer grid (ties on every axis are the rule, not the exception). The tree is
// driven next to a plain std::vector<(point, value)>; after every mutation the query battery compares size(),
// the iteration multiset, at()/exists() for live and absent grid points, and within()/exists(low, high) for
// half-open boxes against linear scans. The tree is created inside the case and destroyed at its end in whatever
// state the history left it (never filled, emptied, full); ASan/UBSan watch the destructor, and the heap-block
// balance (c12/alloc_balance.hh) + LeakSanitizer attribute leaks to the case.
//
// Case encoding: n[0] = mode
//   mode 0: n[1] = dimensions (2|3), n[2] = grid side, n[3] = salt (query sampling), n[4..] = packed operations
//   mode 1: n[1] = k, n[2] = value mode (0: value = insertion index, 1: all values equal), n[3] = battery after each erase (enum Battery),
//           n[4..4+k) = cells of the 3x3 grid (0..8) in insertion order; stands for ALL k! erase orders
//   mode 2: query-interleaved history: n[1] = dimensions, n[2] = coordinate range (side, 1..97), n[3] = salt,
//           n[4] = coordinate type (0: int64_t, 1: double, 2: uint64_t), n[5], n[6] = coordinate map (see PointOfDouble / PointOfU64),
//           n[7] = query policy: bits 0-1 what is looked up FIRST after every mutation (0: nothing, 1: the most recently probed
//           point, 2: the last three probed points newest first, 3: oldest first), bits 2-3 what else is asked after a mutation
//           (0: size(), 1: size() + iteration, 2: the light battery in an order rotated by the salt, 3: that battery after every
//           8th mutation); n[8..] = packed operations incl. PROBE / PROBE_LIVE / BOX / BATTERY; the battery always runs at the end
//   mode 3: n[1] = k, n[2] = probed cell of the 5x5 ring grid (0..24 -> (-1..3, -1..3)), n[3..3+k) = cells of the 3x3 grid in insertion
//           order; stands for ALL single mutations (erase_advance of every non-empty subset of the entries, erase of each entry,
//           insert at each of the 9 cells) between two lookups of the probed point
// packed operation: code (1 digit) + 10 * a, with
//   INSERT/ERASE/EMPLACE: a = (x+1) + 100 (y+1) + 10000 (z+1) + 10^6 value
//   ERASE_LIVE:           a = r            erase the (r mod live)-th model entry
//   SWEEP:                a = t + 10 r     erase_advance every entry with mix(r, entry) % 8 < t while iterating
//   INSERT_DUP:           a = value + 10 r insert at the point of the (r mod live)-th model entry
//   PROBE (mode 2):       a as INSERT      at()/exists() of that point, now
//   PROBE_LIVE (mode 2):  a = r            at()/exists() of the point of the (r mod live)-th model entry
//   BOX (mode 2):         a = r            within()/exists(low,high) of a box derived from r
//   BATTERY (mode 2):     a = r            the battery, live points visited in an order rotated by r
#pragma once

#include <math.h>

#include <array>
#include <string>
#include <vector>

#include <phosg/KDTree.hh>
#include <phosg/Vector.hh>

#include "verif.hh"
#include "c12/alloc_balance.hh"

namespace c13 {

using namespace verif;

enum Code : unsigned { INSERT = 0, ERASE = 1, ERASE_LIVE = 2, SWEEP = 3, INSERT_DUP = 4, EMPLACE = 5, PROBE = 6, PROBE_LIVE = 7, BOX = 8, BATTERY = 9, NUM_CODES = 10 };
static const char* kCodeNames[NUM_CODES] = {"insert", "erase", "erase_live", "sweep", "insert_dup", "emplace", "probe", "probe_live", "box", "battery"};

inline uint64_t pack_pt(unsigned code, int64_t x, int64_t y, int64_t z, uint64_t value) {
  return code + 10ULL * (static_cast<uint64_t>(x + 1) + 100ULL * static_cast<uint64_t>(y + 1) + 10000ULL * static_cast<uint64_t>(z + 1) + 1000000ULL * value);
}
inline uint64_t pack_raw(unsigned code, uint64_t a) { return code + 10ULL * a; }

struct Step {
  unsigned code;
  int64_t c[3];
  uint64_t value, r, t;
};
inline Step unpack(uint64_t w) {
  Step s{};
  s.code = w % 10;
  uint64_t a = w / 10;
  if (s.code >= NUM_CODES) throw std::logic_error("C13: malformed operation word");
  switch (s.code) {
    case INSERT:
    case ERASE:
    case EMPLACE:
    case PROBE:
      s.c[0] = static_cast<int64_t>(a % 100) - 1;
      s.c[1] = static_cast<int64_t>((a / 100) % 100) - 1;
      s.c[2] = static_cast<int64_t>((a / 10000) % 100) - 1;
      s.value = a / 1000000;
      break;
    case ERASE_LIVE:
    case PROBE_LIVE:
    case BOX:
    case BATTERY:
      s.r = a;
      break;
    case SWEEP:
      s.t = a % 10;
      s.r = a / 10;
      break;
    case INSERT_DUP:
      s.value = a % 10;
      s.r = a / 10;
      break;
  }
  return s;
}
inline std::string describe(uint64_t w) {
  Step s = unpack(w);
  switch (s.code) {
    case INSERT:
    case ERASE:
    case EMPLACE: return cat(kCodeNames[s.code], "((", s.c[0], ",", s.c[1], ",", s.c[2], "),", s.value, ")");
    case PROBE: return cat("probe((", s.c[0], ",", s.c[1], ",", s.c[2], "))");
    case ERASE_LIVE:
    case PROBE_LIVE:
    case BOX:
    case BATTERY: return cat(kCodeNames[s.code], "(", s.r, ")");
    case SWEEP: return cat("sweep(threshold=", s.t, ",salt=", s.r, ")");
    default: return cat("insert_dup(", s.r, ",", s.value, ")");
  }
}

struct Where {
  const uint64_t* ops;
  size_t n, i;
  const char* label;
};
inline std::ostream& operator<<(std::ostream& o, const Where& w) {
  if (w.label) o << w.label << "; history: ";
  else o << "step #" << w.i << " of: ";
  for (size_t k = 0; k < w.n && (w.label || k <= w.i); k++) o << (k ? " ; " : "") << "#" << k << " " << describe(w.ops[k]);
  return o;
}

template <size_t D>
struct Entry {
  std::array<int64_t, D> c;
  int64_t v;
  bool operator<(const Entry& o) const { return c != o.c ? c < o.c : v < o.v; }
  bool operator==(const Entry& o) const { return c == o.c && v == o.v; }
};

// The model works on integer grid coordinates; a point-type trait maps a grid coordinate to the coordinate the tree
// sees (strictly increasing, so order, ties and half-open boxes are preserved) and back.
template <size_t D>
struct PointOf;
template <>
struct PointOf<2> {
  typedef phosg::Vector2<int64_t> T;
  static T make(const std::array<int64_t, 2>& c) { return T(c[0], c[1]); }
  static int64_t back(int64_t v) { return v; }
  static const char* name() { return ""; }
};
template <>
struct PointOf<3> {
  typedef phosg::Vector3<int64_t> T;
  static T make(const std::array<int64_t, 3>& c) { return T(c[0], c[1], c[2]); }
  static int64_t back(int64_t v) { return v; }
  static const char* name() { return ""; }
};

// coordinate map of the current case (set by the subcheck before the history is replayed; part of the case)
struct CoordMap {
  uint64_t a = 0;
  int64_t b = 0;
};
inline CoordMap& coord_map() {
  static CoordMap m;
  return m;
}

// double coordinates: grid g -> (g - b) * scale[a]. Scales below 1 put several grid lines inside one integer part
// (0.25, 0.5, 0.75, 1.0 ...), a shift b > 0 puts part of the grid below zero.
static const double kScales[] = {0.25, 0.5, 0.125, 0.75, 0.1, 1.0 / 3, 1.0, 2.5};
struct DoubleMap {
  static double scale() { return kScales[coord_map().a % (sizeof(kScales) / sizeof(kScales[0]))]; }
  static double fwd(int64_t g) { return static_cast<double>(g - coord_map().b) * scale(); }
  static int64_t back(double v) {
    int64_t g = llround(v / scale()) + coord_map().b;
    if (!(fwd(g) == v)) VFAIL("coordinate-corrupted", "the tree handed out the coordinate ", v, " which no inserted point has");
    return g;
  }
  static std::string describe() { return cat("grid coordinate g stands for the double (g - ", coord_map().b, ") * ", scale()); }
};
template <size_t D>
struct PointOfDouble;
template <>
struct PointOfDouble<2> : DoubleMap {
  typedef phosg::Vector2<double> T;
  static T make(const std::array<int64_t, 2>& c) { return T(fwd(c[0]), fwd(c[1])); }
  static const char* name() { return "double"; }
};
template <>
struct PointOfDouble<3> : DoubleMap {
  typedef phosg::Vector3<double> T;
  static T make(const std::array<int64_t, 3>& c) { return T(fwd(c[0]), fwd(c[1]), fwd(c[2])); }
  static const char* name() { return "double"; }
};

// uint64_t coordinates: grid g -> base + g with base = 2^63 - b (a = 0: the grid straddles 2^63), 1 (a = 1: g = -1 is 0)
// or 2^64 - 200 (a = 2: just below the top)
struct PointOfU64 {
  typedef phosg::Vector2<uint64_t> T;
  static uint64_t base() {
    switch (coord_map().a % 3) {
      case 0: return (1ULL << 63) - static_cast<uint64_t>(coord_map().b);
      case 1: return 1;
      default: return ~0ULL - 199;
    }
  }
  static uint64_t fwd(int64_t g) { return base() + static_cast<uint64_t>(g); }
  static int64_t back(uint64_t v) { return static_cast<int64_t>(v - base()); }
  static T make(const std::array<int64_t, 2>& c) { return T(fwd(c[0]), fwd(c[1])); }
  static const char* name() { return "uint64"; }
  static std::string describe() { return cat("grid coordinate g stands for the uint64_t ", base(), " + g"); }
};

// query policy of a mode-2 history (n[7])
struct Policy {
  unsigned first = 0; // bits 0-1
  unsigned rest = 0; // bits 2-3
};

struct Stats {
  bool nontrivial = false;
  uint64_t mutations = 0;
};

enum Battery { LIGHT = 0, FULL = 1, LOOKUPS = 2, FULL_ABSENT = 3, MEDIUM = 4 };

template <size_t D, typename P = PointOf<D>>
struct KD {
  typedef typename P::T PT;
  typedef phosg::KDTree<PT, int64_t> Tree;
  typedef Entry<D> E;
  typedef std::vector<E> Model;

  static PT pt(const std::array<int64_t, D>& c) { return P::make(c); }
  static E from(const PT& p, int64_t v) {
    E e;
    for (size_t d = 0; d < D; d++) e.c[d] = P::back(p.at(d));
    e.v = v;
    return e;
  }
  static std::string show(const std::array<int64_t, D>& c) {
    std::string r = "(";
    for (size_t d = 0; d < D; d++) r += cat(d ? "," : "", c[d]);
    return r + ")";
  }
  static std::string show(const std::vector<E>& v) {
    std::string r = "{";
    for (size_t i = 0; i < v.size() && i < 24; i++) r += cat(i ? " " : "", show(v[i].c), "=", v[i].v);
    if (v.size() > 24) r += " ...";
    return r + "}";
  }

  // ---------------------------------------------------------------- query battery pieces

  static void check_size_and_iteration(const Tree& t, const Model& m, const Where& w) {
    VCHECK(t.size() == m.size(), "size", "size() is ", t.size(), " model holds ", m.size(), " entries after ", w);
    std::vector<E> got;
    size_t guard = 0;
    auto end = t.end();
    for (auto it = t.begin(); it != end; ++it) {
      VCHECK(++guard <= m.size() + 1, "iteration-overrun", "iteration yields more than the ", m.size(), " entries of the model after ", w);
      got.push_back(from(it->first, it->second));
      VCHECK((*it).first == it->first && (*it).second == it->second, "iterator-deref", "operator* and operator-> disagree after ", w);
    }
    std::vector<E> exp(m);
    std::sort(got.begin(), got.end());
    std::sort(exp.begin(), exp.end());
    VCHECK(got == exp, "iteration-multiset", "iteration yields ", show(got), " but the model holds ", show(exp), " after ", w);
    VCHECK((t.begin() == t.end()) == m.empty(), "begin-end", "begin()==end() is ", (t.begin() == t.end()), " with ", m.size(), " entries after ", w);
  }

  static void check_point(const Tree& t, const Model& m, const std::array<int64_t, D>& c, const Where& w) {
    std::vector<int64_t> vals;
    for (const E& e : m)
      if (e.c == c) vals.push_back(e.v);
    PT p = pt(c);
    if (!vals.empty()) {
      VCHECK(t.exists(p), "lookup-lost:exists", "exists(", show(c), ") is false but the model holds ", vals.size(), " entr(y/ies) there after ", w);
      int64_t v;
      try {
        v = t.at(p);
      } catch (const std::out_of_range&) {
        VFAIL("lookup-lost:at", "at(", show(c), ") threw out_of_range but the model holds an entry there after ", w);
      }
      VCHECK(std::find(vals.begin(), vals.end(), v) != vals.end(), "lookup-value", "at(", show(c), ") returned ", v, " which is not a value stored at that point after ", w);
    } else {
      VCHECK(!t.exists(p), "lookup-phantom:exists", "exists(", show(c), ") is true but the model holds nothing there after ", w);
      bool threw = false;
      try {
        t.at(p);
      } catch (const std::out_of_range&) {
        threw = true;
      }
      VCHECK(threw, "lookup-phantom:at", "at(", show(c), ") returned although the model holds nothing there after ", w);
    }
  }

  static void check_box(const Tree& t, const Model& m, const std::array<int64_t, D>& lo, const std::array<int64_t, D>& hi, const Where& w) {
    std::vector<E> exp;
    for (const E& e : m) {
      bool in = true;
      for (size_t d = 0; d < D; d++) in &= (e.c[d] >= lo[d] && e.c[d] < hi[d]);
      if (in) exp.push_back(e);
    }
    std::vector<std::pair<PT, int64_t>> res;
    try {
      res = t.within(pt(lo), pt(hi));
    } catch (const std::exception& ex) {
      VFAIL(m.empty() ? "within-throws:empty-tree" : "within-throws", "within(", show(lo), ",", show(hi), ") threw ", typeid(ex).name(), " (", ex.what(), "); a linear scan gives ", exp.size(), " entries, after ", w);
    }
    std::vector<E> got;
    for (const auto& r : res) got.push_back(from(r.first, r.second));
    std::sort(got.begin(), got.end());
    std::sort(exp.begin(), exp.end());
    VCHECK(got == exp, "within-multiset", "within(", show(lo), ",", show(hi), ") returned ", show(got), " but a linear scan gives ", show(exp), " after ", w);
    bool ex = t.exists(pt(lo), pt(hi));
    VCHECK(ex == !exp.empty(), "exists-range", "exists(", show(lo), ",", show(hi), ") is ", ex, " but a linear scan finds ", exp.size(), " entries after ", w);
  }

  template <typename F>
  static void for_each_cell(int64_t lo, int64_t hi, F&& f) { // every point of [lo,hi]^D
    std::array<int64_t, D> c;
    c.fill(lo);
    while (true) {
      f(c);
      size_t d = 0;
      while (d < D && ++c[d] > hi) c[d++] = lo;
      if (d == D) return;
    }
  }

  // battery: what is asked after a mutation
  // order = 0: the live points are visited in sorted order; otherwise starting at the (order/2 mod n)-th, downwards if order is odd
  static void check_state(const Tree& t, const Model& m, int64_t side, Battery level, uint64_t salt, const Where& w, uint64_t order = 0) {
    check_size_and_iteration(t, m, w);
    // every distinct live point: exact lookup + the single-cell box around it (two-sided descent must find it too)
    std::vector<std::array<int64_t, D>> live;
    for (const E& e : m) live.push_back(e.c);
    std::sort(live.begin(), live.end());
    live.erase(std::unique(live.begin(), live.end()), live.end());
    for (size_t k = 0; k < live.size(); k++) {
      size_t at = k;
      if (order) at = (order & 1) ? (live.size() - 1 - ((order / 2 + k) % live.size())) : ((order / 2 + k) % live.size());
      const auto& c = live[at];
      check_point(t, m, c, w);
      if (level != LOOKUPS) {
        auto hi = c;
        for (size_t d = 0; d < D; d++) hi[d]++;
        check_box(t, m, c, hi, w);
      }
    }
    if (level == LOOKUPS) {
      // cheapest battery (innermost exhaustive loops): absent cells through the exception-free range query
      for_each_cell(0, side - 1, [&](const std::array<int64_t, D>& c) {
        if (std::binary_search(live.begin(), live.end(), c)) return;
        auto hi = c;
        for (size_t d = 0; d < D; d++) hi[d]++;
        VCHECK(!t.exists(pt(c), pt(hi)), "exists-range", "exists(", show(c), ",", show(hi), ") is true but the model holds nothing there after ", w);
      });
      return;
    }
    std::array<int64_t, D> all_lo, all_hi;
    all_lo.fill(-1);
    all_hi.fill(side + 1);
    check_box(t, m, all_lo, all_hi, w);
    if (level == MEDIUM) {
      // the single-cell box of every absent cell, and every one-cell-thick slab along every axis
      for_each_cell(0, side - 1, [&](const std::array<int64_t, D>& c) {
        if (std::binary_search(live.begin(), live.end(), c)) return;
        auto hi = c;
        for (size_t d = 0; d < D; d++) hi[d]++;
        check_box(t, m, c, hi, w);
      });
      for (size_t d = 0; d < D; d++)
        for (int64_t v = 0; v < side; v++) {
          auto lo = all_lo, hi = all_hi;
          lo[d] = v;
          hi[d] = v + 1;
          check_box(t, m, lo, hi, w);
        }
      return;
    }
    uint64_t h = mix(salt, w.i + 1);
    auto rnd = [&h](uint64_t n) {
      h = mix(h, 0x51ED);
      return static_cast<int64_t>(h % n);
    };
    if (level == FULL || level == FULL_ABSENT) {
      // every box with corners on the grid lines 0..side; absent points through at()/exists(pt) - both throw inside
      // phosg, ~30 us per point under ASan - for every point of the grid and the ring around it (FULL_ABSENT) or for
      // three of them chosen by the state (FULL; the single-cell boxes below cover the other absent cells)
      uint64_t pick = 0, cells = 0;
      for_each_cell(-1, side, [&](const std::array<int64_t, D>&) { cells++; });
      for_each_cell(-1, side, [&](const std::array<int64_t, D>& c) {
        pick++;
        if (std::binary_search(live.begin(), live.end(), c)) return;
        if (level == FULL_ABSENT || ((pick + h) % cells) < 3) check_point(t, m, c, w);
      });
      for_each_cell(0, side, [&](const std::array<int64_t, D>& lo) {
        for_each_cell(0, side, [&](const std::array<int64_t, D>& hi) {
          bool ordered = true;
          for (size_t d = 0; d < D; d++) ordered &= lo[d] <= hi[d];
          if (ordered) check_box(t, m, lo, hi, w);
        });
      });
      // an inverted box is empty
      std::array<int64_t, D> a, b;
      a.fill(side);
      b.fill(0);
      check_box(t, m, a, b, w);
    } else {
      // absent points are expensive (exists(pt) is implemented with an exception): a few per step
      for (int k = 0; k < 3; k++) {
        std::array<int64_t, D> c;
        for (size_t d = 0; d < D; d++) c[d] = rnd(side + 2) - 1;
        if (!std::binary_search(live.begin(), live.end(), c)) check_point(t, m, c, w);
      }
      for (int k = 0; k < 10; k++) {
        std::array<int64_t, D> lo, hi;
        for (size_t d = 0; d < D; d++) {
          int64_t a = rnd(side + 2) - 1, b = rnd(side + 2) - 1;
          if (k < 8 && a > b) std::swap(a, b); // the last two may be inverted (empty) boxes
          lo[d] = a;
          hi[d] = b + (k & 1);
        }
        check_box(t, m, lo, hi, w);
      }
    }
  }

  static bool shares_coordinate(const Model& m, size_t idx) {
    for (size_t j = 0; j < m.size(); j++) {
      if (j == idx) continue;
      for (size_t d = 0; d < D; d++)
        if (m[j].c[d] == m[idx].c[d]) return true;
    }
    return false;
  }

  // ---------------------------------------------------------------- one history

  // q == nullptr: mode 0 (the battery after every mutation); otherwise mode 2: the lookups between mutations are the
  // generated ones (PROBE / PROBE_LIVE / BOX / BATTERY) plus what the policy asks after a mutation
  static void replay(const uint64_t* ops, size_t n, int64_t side, uint64_t salt, Stats& st, const Policy* q = nullptr) {
    alloc_balance::Scope heap;
    {
      Tree t;
      Model m;
      Battery level = (D == 2 && side <= 4) ? FULL : LIGHT;
      if (!q) check_state(t, m, side, level, salt, Where{ops, n, 0, "construction"});
      std::vector<std::array<int64_t, D>> probed; // points looked up so far, most recent last
      auto probe = [&](const std::array<int64_t, D>& c, const Where& w) {
        check_point(t, m, c, w);
        probed.erase(std::remove(probed.begin(), probed.end(), c), probed.end());
        probed.push_back(c);
        if (probed.size() > 3) probed.erase(probed.begin());
      };
      for (size_t i = 0; i < n; i++) {
        Step s = unpack(ops[i]);
        Where here{ops, n, i, nullptr};
        std::array<int64_t, D> c;
        for (size_t d = 0; d < D; d++) c[d] = s.c[d];
        if (s.code >= PROBE) {
          if (!q) throw std::logic_error("C13: query operations belong to mode-2 histories");
          if (s.code == PROBE) {
            probe(c, here);
          } else if (s.code == PROBE_LIVE) {
            if (!m.empty()) c = m[s.r % m.size()].c;
            else c.fill(0);
            probe(c, here);
          } else if (s.code == BOX) {
            uint64_t h = mix(s.r, 0xB0C5);
            std::array<int64_t, D> lo, hi;
            for (size_t d = 0; d < D; d++) {
              h = mix(h, d);
              int64_t a = static_cast<int64_t>(h % (side + 2)) - 1, b = static_cast<int64_t>((h >> 20) % (side + 2)) - 1;
              if (a > b && (s.r % 8)) std::swap(a, b); // one in eight may be inverted (empty)
              lo[d] = a;
              hi[d] = b + 1;
            }
            check_box(t, m, lo, hi, here);
          } else {
            check_state(t, m, side, level, salt, here, 1 + s.r);
          }
          continue;
        }
        switch (s.code) {
          case INSERT_DUP:
            if (!m.empty()) c = m[s.r % m.size()].c;
            else c.fill(0);
            // fall through
          case INSERT:
          case EMPLACE: {
            int64_t v = static_cast<int64_t>(s.value);
#ifdef C13_GATED
            auto it = (s.code == EMPLACE) ? t.emplace(pt(c), v) : t.insert(pt(c), v);
#else
            if (s.code == EMPLACE) throw std::logic_error("C13: emplace is only exercised by the gated build");
            auto it = t.insert(pt(c), v);
#endif
            VCHECK(it->first == pt(c) && it->second == v, "insert-iterator", "the iterator returned by ", kCodeNames[s.code], " does not designate the new entry at ", here);
            E e;
            e.c = c;
            e.v = v;
            m.push_back(e);
            break;
          }
          case ERASE_LIVE:
          case ERASE: {
            int64_t v = static_cast<int64_t>(s.value);
            if (s.code == ERASE_LIVE) {
              if (!m.empty()) {
                c = m[s.r % m.size()].c;
                v = m[s.r % m.size()].v;
              } else {
                c.fill(0);
                v = 0;
              }
            }
            size_t idx = m.size();
            for (size_t j = 0; j < m.size(); j++)
              if (m[j].c == c && m[j].v == v) {
                idx = j;
                break;
              }
            bool r = t.erase(pt(c), v);
            if (idx == m.size()) {
              VCHECK(!r, "erase-phantom", "erase(", show(c), ",", v, ") returned true but the model holds no such entry at ", here);
            } else {
              VCHECK(r, "lookup-lost:erase", "erase(", show(c), ",", v, ") returned false but the model holds that entry at ", here);
              if (m.size() >= 3 && shares_coordinate(m, idx)) st.nontrivial = true;
              m.erase(m.begin() + idx);
            }
            break;
          }
          case SWEEP: {
            // iterate and erase_advance every entry the predicate selects; everything else must be visited exactly once
            auto pred = [&](const E& e) {
              uint64_t h = mix(s.r, static_cast<uint64_t>(e.v));
              for (size_t d = 0; d < D; d++) h = mix(h, static_cast<uint64_t>(e.c[d]));
              return (h % 8) < s.t;
            };
            std::vector<E> kept, erased, exp_kept, exp_erased;
            for (size_t j = 0; j < m.size(); j++) {
              if (pred(m[j])) {
                exp_erased.push_back(m[j]);
                if (m.size() >= 3 && shares_coordinate(m, j)) st.nontrivial = true;
              } else exp_kept.push_back(m[j]);
            }
            size_t guard = 0;
            for (auto it = t.begin(); it != t.end();) {
              VCHECK(++guard <= m.size() + 1, "sweep-overrun", "an erase_advance sweep visits more than the ", m.size(), " entries of the tree at ", here);
              E cur = from(it->first, it->second);
              if (pred(cur)) {
                erased.push_back(cur);
                t.erase_advance(it);
              } else {
                kept.push_back(cur);
                ++it;
              }
            }
            std::sort(kept.begin(), kept.end());
            std::sort(erased.begin(), erased.end());
            std::sort(exp_kept.begin(), exp_kept.end());
            std::sort(exp_erased.begin(), exp_erased.end());
            VCHECK(kept == exp_kept, "sweep-visits-survivors-once", "the sweep visited the surviving entries ", show(kept), " but the survivors are ", show(exp_kept), " at ", here);
            VCHECK(erased == exp_erased, "sweep-erased", "the sweep erased ", show(erased), " but the predicate selects ", show(exp_erased), " at ", here);
            m = exp_kept;
            break;
          }
          default:
            throw std::logic_error("C13: unknown operation");
        }
        st.mutations++;
        if (q) {
          // first the points that were looked up before the mutation (in the order the policy says), then the rest
          if (q->first == 1 && !probed.empty()) {
            check_point(t, m, probed.back(), here);
          } else if (q->first == 2) {
            for (size_t k = probed.size(); k-- > 0;) check_point(t, m, probed[k], here);
          } else if (q->first == 3) {
            for (size_t k = 0; k < probed.size(); k++) check_point(t, m, probed[k], here);
          }
          if (q->rest == 0) VCHECK(t.size() == m.size(), "size", "size() is ", t.size(), " model holds ", m.size(), " entries after ", here);
          else if (q->rest == 1) check_size_and_iteration(t, m, here);
          else if (q->rest == 2 || (st.mutations % 8) == 0) check_state(t, m, side, LIGHT, salt, here, 1 + mix(salt, i));
          continue;
        }
        Battery lv = level;
        if (lv == LIGHT && (i + 1 == n || (i % 16) == 15) && side <= 6) lv = (D == 2) ? FULL : LIGHT;
        if (lv == FULL && i + 1 == n) lv = FULL_ABSENT;
        check_state(t, m, side, lv, salt, here);
      }
      if (q) check_state(t, m, side, level == FULL ? FULL_ABSENT : LIGHT, salt, Where{ops, n, n, "at the end"}, 1 + salt);
    } // the tree is destroyed here, in whatever state the history left it
    VCHECK(!heap.leaked(), "leak", heap.excess(), " heap block(s) allocated during the history are still live after the tree was destroyed and LeakSanitizer reports a leak");
  }

  // ---------------------------------------------------------------- exhaustive block: one insertion sequence, all erase orders (2-D, 3x3)
};

inline std::array<int64_t, 2> cell(uint64_t idx) { return {static_cast<int64_t>(idx % 3), static_cast<int64_t>(idx / 3)}; }

// builds the mode-0 history (insert all, erase in `order`) - the precise replay of one history of a block
inline std::vector<uint64_t> block_history(const std::vector<uint64_t>& cells, bool equal_values, const std::vector<unsigned>& order) {
  std::vector<uint64_t> ops;
  for (size_t i = 0; i < cells.size(); i++) ops.push_back(pack_pt(INSERT, cell(cells[i])[0], cell(cells[i])[1], -1, equal_values ? 7 : i));
  for (unsigned o : order) ops.push_back(pack_pt(ERASE, cell(cells[o])[0], cell(cells[o])[1], -1, equal_values ? 7 : o));
  return ops;
}

// returns the number of (insertion sequence, erase order) histories executed; on a failure *failed_order holds the order
inline uint64_t run_exhaustive_block(const std::vector<uint64_t>& cells, bool equal_values, Battery level, Stats& st, std::vector<unsigned>* failed_order) {
  typedef KD<2> K;
  size_t k = cells.size();
  std::vector<K::E> entries(k);
  for (size_t i = 0; i < k; i++) {
    entries[i].c = cell(cells[i]);
    entries[i].v = equal_values ? 7 : static_cast<int64_t>(i);
  }
  std::vector<unsigned> order(k);
  for (size_t i = 0; i < k; i++) order[i] = i;
  uint64_t count = 0;
  std::vector<uint64_t> ops; // only for messages; capacity reserved here so that refilling it inside a heap-balance scope allocates nothing
  ops.reserve(2 * k + 2);
  try {
    // the state after the k insertions (the states after fewer insertions were compared when the shorter sequence was enumerated)
    {
      alloc_balance::Scope heap;
      {
        K::Tree t;
        K::Model m;
        for (size_t i = 0; i < k; i++) {
          auto it = t.insert(K::pt(entries[i].c), entries[i].v);
          VCHECK(it->first == K::pt(entries[i].c) && it->second == entries[i].v, "insert-iterator", "the iterator returned by insert does not designate the new entry");
          m.push_back(entries[i]);
        }
        ops = block_history(cells, equal_values, {});
        K::check_state(t, m, 3, FULL_ABSENT, 0, Where{ops.data(), ops.size(), ops.size(), "after the insertions"});
      } // destroyed while full
      VCHECK(!heap.leaked(), "leak", "heap blocks still live after a full tree was destroyed and LeakSanitizer reports a leak");
      count++;
    }
    do {
      // battery after erase j only where this permutation is the first (lexicographically) to reach that state
      alloc_balance::Scope heap;
      {
        K::Tree t;
        K::Model m(entries);
        std::vector<bool> live(k, true);
        for (size_t i = 0; i < k; i++) t.insert(K::pt(entries[i].c), entries[i].v);
        for (size_t j = 0; j < k; j++) {
          const K::E& e = entries[order[j]];
          bool r = t.erase(K::pt(e.c), e.v);
          size_t idx = std::find(m.begin(), m.end(), e) - m.begin();
          if (!r || std::is_sorted(order.begin() + j + 1, order.end())) {
            ops = block_history(cells, equal_values, std::vector<unsigned>(order.begin(), order.begin() + j + 1));
          }
          Where here{ops.data(), ops.size(), ops.size(), "after the last erase"};
          VCHECK(r, "lookup-lost:erase", "erase(", K::show(e.c), ",", e.v, ") returned false but the model holds that entry, ", here);
          if (m.size() >= 3 && K::shares_coordinate(m, idx)) st.nontrivial = true;
          m.erase(m.begin() + idx);
          if (std::is_sorted(order.begin() + j + 1, order.end())) K::check_state(t, m, 3, level, mix(j, order[j]), here);
        }
      } // destroyed while empty
      VCHECK(!heap.leaked(), "leak", "heap blocks still live after the emptied tree was destroyed and LeakSanitizer reports a leak");
      count++;
    } while (std::next_permutation(order.begin(), order.end()));
  } catch (const Fail&) {
    if (failed_order) *failed_order = order;
    throw;
  }
  return count;
}

// mode 3: lookup of one point, ONE mutation, the same lookup first, then the cheap battery - for every mutation of the
// tree built from `cells`: erase_advance of every non-empty subset of the entries while iterating, erase of each entry,
// insert at each cell. Returns the number of histories executed.
inline uint64_t run_probe_block(const std::vector<uint64_t>& cells, uint64_t probe_cell, Stats& st) {
  typedef KD<2> K;
  size_t k = cells.size();
  std::array<int64_t, 2> pc = {static_cast<int64_t>(probe_cell % 5) - 1, static_cast<int64_t>(probe_cell / 5) - 1};
  std::vector<K::E> entries(k);
  for (size_t i = 0; i < k; i++) {
    entries[i].c = cell(cells[i]);
    entries[i].v = static_cast<int64_t>(i);
  }
  uint64_t count = 0;
  uint64_t subsets = (1ULL << k) - 1, total = subsets + k + 9;
  std::string label;
  label.reserve(256);
  for (uint64_t mu = 0; mu < total; mu++) {
    label.clear();
    alloc_balance::Scope heap;
    {
      K::Tree t;
      K::Model m;
      for (size_t i = 0; i < k; i++) {
        t.insert(K::pt(entries[i].c), entries[i].v);
        m.push_back(entries[i]);
      }
      auto say = [&](const char* stage) {
        label = cat(stage, ": insert ", K::show(entries), " then look up ", K::show(pc), ", then ");
        if (mu < subsets) {
          label += "erase_advance the entries with values {";
          for (size_t i = 0; i < k; i++)
            if ((mu + 1) >> i & 1) label += cat(i, " ");
          label += "} while iterating";
        } else if (mu < subsets + k) {
          label += cat("erase entry ", mu - subsets);
        } else {
          label += cat("insert(", K::show(cell(mu - subsets - k)), ",", k, ")");
        }
        return Where{nullptr, 0, 0, label.c_str()};
      };
      try {
        K::check_point(t, m, pc, Where{nullptr, 0, 0, "the insertions"});
      } catch (const Fail&) {
        say("before the mutation");
        throw;
      }
      try {
        if (mu < subsets) {
          uint64_t sel = mu + 1;
          size_t guard = 0;
          for (auto it = t.begin(); it != t.end();) {
            VCHECK(++guard <= k + 1, "sweep-overrun", "an erase_advance sweep visits more than the ", k, " entries of the tree");
            if ((sel >> it->second) & 1) {
              K::E cur = K::from(it->first, it->second);
              size_t idx = std::find(m.begin(), m.end(), cur) - m.begin();
              VCHECK(idx < m.size(), "sweep-erased", "the sweep met an entry the model does not hold");
              if (m.size() >= 3 && K::shares_coordinate(m, idx)) st.nontrivial = true;
              m.erase(m.begin() + idx);
              t.erase_advance(it);
            } else {
              ++it;
            }
          }
          for (const K::E& e : m) VCHECK(!((sel >> e.v) & 1), "sweep-erased", "the sweep did not reach a selected entry");
        } else if (mu < subsets + k) {
          const K::E& e = entries[mu - subsets];
          VCHECK(t.erase(K::pt(e.c), e.v), "lookup-lost:erase", "erase returned false for a live entry");
          m.erase(std::find(m.begin(), m.end(), e));
        } else {
          K::E e;
          e.c = cell(mu - subsets - k);
          e.v = static_cast<int64_t>(k);
          t.insert(K::pt(e.c), e.v);
          m.push_back(e);
        }
        Where w{nullptr, 0, 0, "the mutation"};
        K::check_point(t, m, pc, w); // the same lookup first
        K::check_state(t, m, 3, LOOKUPS, 0, w);
      } catch (const Fail& f) {
        Where w = say("lookup / one mutation / same lookup");
        throw Fail{f.sig, cat(f.msg, " [", w.label, "]")};
      }
    }
    VCHECK(!heap.leaked(), "leak", "heap blocks still live after the tree was destroyed and LeakSanitizer reports a leak");
    count++;
  }
  return count;
}

} // namespace c13
