// C13 - KDTree equals a brute-force multiset under any insert / erase / erase_advance history.
//
// A case is a whole history over an integer grid (ties on every axis are the rule, not the exception). The tree is
// driven next to a plain std::vector<(point, value)>; after every mutation the query battery compares size(),
// the iteration multiset, at()/exists() for live and absent grid points, and within()/exists(low, high) for
// half-open boxes against linear scans. The tree is created inside the case and destroyed at its end in whatever
// state the history left it (never filled, emptied, full); ASan/UBSan watch the destructor, and the heap-block
// balance (c12/alloc_balance.hh) + LeakSanitizer attribute leaks to the case.
//
// Case encoding: n[0] = mode
//   mode 0: n[1] = dimensions (2|3), n[2] = grid side, n[3] = salt (query sampling), n[4..] = packed operations
//   mode 1: n[1] = k, n[2] = value mode (0: value = insertion index, 1: all values equal), n[3] = battery after each erase (enum Battery),
//           n[4..4+k) = cells of the 3x3 grid (0..8) in insertion order; stands for ALL k! erase orders
// packed operation: code (1 digit) + 10 * a, with
//   INSERT/ERASE/EMPLACE: a = (x+1) + 100 (y+1) + 10000 (z+1) + 10^6 value
//   ERASE_LIVE:           a = r            erase the (r mod live)-th model entry
//   SWEEP:                a = t + 10 r     erase_advance every entry with mix(r, entry) % 8 < t while iterating
//   INSERT_DUP:           a = value + 10 r insert at the point of the (r mod live)-th model entry
#pragma once

#include <array>
#include <string>
#include <vector>

#include <phosg/KDTree.hh>
#include <phosg/Vector.hh>

#include "verif.hh"
#include "c12/alloc_balance.hh"

namespace c13 {

using namespace verif;

enum Code : unsigned { INSERT = 0, ERASE = 1, ERASE_LIVE = 2, SWEEP = 3, INSERT_DUP = 4, EMPLACE = 5, NUM_CODES = 6 };
static const char* kCodeNames[NUM_CODES] = {"insert", "erase", "erase_live", "sweep", "insert_dup", "emplace"};

inline uint64_t pack_pt(unsigned code, int64_t x, int64_t y, int64_t z, uint64_t value) {
  return code + 10ULL * (static_cast<uint64_t>(x + 1) + 100ULL * static_cast<uint64_t>(y + 1) + 10000ULL * static_cast<uint64_t>(z + 1) + 1000000ULL * value);
}
inline uint64_t pack_raw(unsigned code, uint64_t a) { return code + 10ULL * a; }

struct Step {
  unsigned code;
  int64_t c[3];
  uint64_t value, r, t;
};
inline Step unpack(uint64_t w) {
  Step s{};
  s.code = w % 10;
  uint64_t a = w / 10;
  if (s.code >= NUM_CODES) throw std::logic_error("C13: malformed operation word");
  switch (s.code) {
    case INSERT:
    case ERASE:
    case EMPLACE:
      s.c[0] = static_cast<int64_t>(a % 100) - 1;
      s.c[1] = static_cast<int64_t>((a / 100) % 100) - 1;
      s.c[2] = static_cast<int64_t>((a / 10000) % 100) - 1;
      s.value = a / 1000000;
      break;
    case ERASE_LIVE:
      s.r = a;
      break;
    case SWEEP:
      s.t = a % 10;
      s.r = a / 10;
      break;
    case INSERT_DUP:
      s.value = a % 10;
      s.r = a / 10;
      break;
  }
  return s;
}
inline std::string describe(uint64_t w) {
  Step s = unpack(w);
  switch (s.code) {
    case INSERT:
    case ERASE:
    case EMPLACE: return cat(kCodeNames[s.code], "((", s.c[0], ",", s.c[1], ",", s.c[2], "),", s.value, ")");
    case ERASE_LIVE: return cat("erase_live(", s.r, ")");
    case SWEEP: return cat("sweep(threshold=", s.t, ",salt=", s.r, ")");
    default: return cat("insert_dup(", s.r, ",", s.value, ")");
  }
}

struct Where {
  const uint64_t* ops;
  size_t n, i;
  const char* label;
};
inline std::ostream& operator<<(std::ostream& o, const Where& w) {
  if (w.label) o << w.label << "; history: ";
  else o << "step #" << w.i << " of: ";
  for (size_t k = 0; k < w.n && (w.label || k <= w.i); k++) o << (k ? " ; " : "") << "#" << k << " " << describe(w.ops[k]);
  return o;
}

template <size_t D>
struct Entry {
  std::array<int64_t, D> c;
  int64_t v;
  bool operator<(const Entry& o) const { return c != o.c ? c < o.c : v < o.v; }
  bool operator==(const Entry& o) const { return c == o.c && v == o.v; }
};

template <size_t D>
struct PointOf;
template <>
struct PointOf<2> {
  typedef phosg::Vector2<int64_t> T;
  static T make(const std::array<int64_t, 2>& c) { return T(c[0], c[1]); }
};
template <>
struct PointOf<3> {
  typedef phosg::Vector3<int64_t> T;
  static T make(const std::array<int64_t, 3>& c) { return T(c[0], c[1], c[2]); }
};

struct Stats {
  bool nontrivial = false;
  uint64_t mutations = 0;
};

enum Battery { LIGHT = 0, FULL = 1, LOOKUPS = 2, FULL_ABSENT = 3, MEDIUM = 4 };

template <size_t D>
struct KD {
  typedef typename PointOf<D>::T PT;
  typedef phosg::KDTree<PT, int64_t> Tree;
  typedef Entry<D> E;
  typedef std::vector<E> Model;

  static PT pt(const std::array<int64_t, D>& c) { return PointOf<D>::make(c); }
  static E from(const PT& p, int64_t v) {
    E e;
    for (size_t d = 0; d < D; d++) e.c[d] = p.at(d);
    e.v = v;
    return e;
  }
  static std::string show(const std::array<int64_t, D>& c) {
    std::string r = "(";
    for (size_t d = 0; d < D; d++) r += cat(d ? "," : "", c[d]);
    return r + ")";
  }
  static std::string show(const std::vector<E>& v) {
    std::string r = "{";
    for (size_t i = 0; i < v.size() && i < 24; i++) r += cat(i ? " " : "", show(v[i].c), "=", v[i].v);
    if (v.size() > 24) r += " ...";
    return r + "}";
  }

  // ---------------------------------------------------------------- query battery pieces

  static void check_size_and_iteration(const Tree& t, const Model& m, const Where& w) {
    VCHECK(t.size() == m.size(), "size", "size() is ", t.size(), " model holds ", m.size(), " entries after ", w);
    std::vector<E> got;
    size_t guard = 0;
    auto end = t.end();
    for (auto it = t.begin(); it != end; ++it) {
      VCHECK(++guard <= m.size() + 1, "iteration-overrun", "iteration yields more than the ", m.size(), " entries of the model after ", w);
      got.push_back(from(it->first, it->second));
      VCHECK((*it).first == it->first && (*it).second == it->second, "iterator-deref", "operator* and operator-> disagree after ", w);
    }
    std::vector<E> exp(m);
    std::sort(got.begin(), got.end());
    std::sort(exp.begin(), exp.end());
    VCHECK(got == exp, "iteration-multiset", "iteration yields ", show(got), " but the model holds ", show(exp), " after ", w);
    VCHECK((t.begin() == t.end()) == m.empty(), "begin-end", "begin()==end() is ", (t.begin() == t.end()), " with ", m.size(), " entries after ", w);
  }

  static void check_point(const Tree& t, const Model& m, const std::array<int64_t, D>& c, const Where& w) {
    std::vector<int64_t> vals;
    for (const E& e : m)
      if (e.c == c) vals.push_back(e.v);
    PT p = pt(c);
    if (!vals.empty()) {
      VCHECK(t.exists(p), "lookup-lost:exists", "exists(", show(c), ") is false but the model holds ", vals.size(), " entr(y/ies) there after ", w);
      int64_t v;
      try {
        v = t.at(p);
      } catch (const std::out_of_range&) {
        VFAIL("lookup-lost:at", "at(", show(c), ") threw out_of_range but the model holds an entry there after ", w);
      }
      VCHECK(std::find(vals.begin(), vals.end(), v) != vals.end(), "lookup-value", "at(", show(c), ") returned ", v, " which is not a value stored at that point after ", w);
    } else {
      VCHECK(!t.exists(p), "lookup-phantom:exists", "exists(", show(c), ") is true but the model holds nothing there after ", w);
      bool threw = false;
      try {
        t.at(p);
      } catch (const std::out_of_range&) {
        threw = true;
      }
      VCHECK(threw, "lookup-phantom:at", "at(", show(c), ") returned although the model holds nothing there after ", w);
    }
  }

  static void check_box(const Tree& t, const Model& m, const std::array<int64_t, D>& lo, const std::array<int64_t, D>& hi, const Where& w) {
    std::vector<E> exp;
    for (const E& e : m) {
      bool in = true;
      for (size_t d = 0; d < D; d++) in &= (e.c[d] >= lo[d] && e.c[d] < hi[d]);
      if (in) exp.push_back(e);
    }
    std::vector<std::pair<PT, int64_t>> res;
    try {
      res = t.within(pt(lo), pt(hi));
    } catch (const std::exception& ex) {
      VFAIL(m.empty() ? "within-throws:empty-tree" : "within-throws", "within(", show(lo), ",", show(hi), ") threw ", typeid(ex).name(), " (", ex.what(), "); a linear scan gives ", exp.size(), " entries, after ", w);
    }
    std::vector<E> got;
    for (const auto& r : res) got.push_back(from(r.first, r.second));
    std::sort(got.begin(), got.end());
    std::sort(exp.begin(), exp.end());
    VCHECK(got == exp, "within-multiset", "within(", show(lo), ",", show(hi), ") returned ", show(got), " but a linear scan gives ", show(exp), " after ", w);
    bool ex = t.exists(pt(lo), pt(hi));
    VCHECK(ex == !exp.empty(), "exists-range", "exists(", show(lo), ",", show(hi), ") is ", ex, " but a linear scan finds ", exp.size(), " entries after ", w);
  }

  template <typename F>
  static void for_each_cell(int64_t lo, int64_t hi, F&& f) { // every point of [lo,hi]^D
    std::array<int64_t, D> c;
    c.fill(lo);
    while (true) {
      f(c);
      size_t d = 0;
      while (d < D && ++c[d] > hi) c[d++] = lo;
      if (d == D) return;
    }
  }

  // battery: what is asked after a mutation
  static void check_state(const Tree& t, const Model& m, int64_t side, Battery level, uint64_t salt, const Where& w) {
    check_size_and_iteration(t, m, w);
    // every distinct live point: exact lookup + the single-cell box around it (two-sided descent must find it too)
    std::vector<std::array<int64_t, D>> live;
    for (const E& e : m) live.push_back(e.c);
    std::sort(live.begin(), live.end());
    live.erase(std::unique(live.begin(), live.end()), live.end());
    for (const auto& c : live) {
      check_point(t, m, c, w);
      if (level != LOOKUPS) {
        auto hi = c;
        for (size_t d = 0; d < D; d++) hi[d]++;
        check_box(t, m, c, hi, w);
      }
    }
    if (level == LOOKUPS) {
      // cheapest battery (innermost exhaustive loops): absent cells through the exception-free range query
      for_each_cell(0, side - 1, [&](const std::array<int64_t, D>& c) {
        if (std::binary_search(live.begin(), live.end(), c)) return;
        auto hi = c;
        for (size_t d = 0; d < D; d++) hi[d]++;
        VCHECK(!t.exists(pt(c), pt(hi)), "exists-range", "exists(", show(c), ",", show(hi), ") is true but the model holds nothing there after ", w);
      });
      return;
    }
    std::array<int64_t, D> all_lo, all_hi;
    all_lo.fill(-1);
    all_hi.fill(side + 1);
    check_box(t, m, all_lo, all_hi, w);
    if (level == MEDIUM) {
      // the single-cell box of every absent cell, and every one-cell-thick slab along every axis
      for_each_cell(0, side - 1, [&](const std::array<int64_t, D>& c) {
        if (std::binary_search(live.begin(), live.end(), c)) return;
        auto hi = c;
        for (size_t d = 0; d < D; d++) hi[d]++;
        check_box(t, m, c, hi, w);
      });
      for (size_t d = 0; d < D; d++)
        for (int64_t v = 0; v < side; v++) {
          auto lo = all_lo, hi = all_hi;
          lo[d] = v;
          hi[d] = v + 1;
          check_box(t, m, lo, hi, w);
        }
      return;
    }
    uint64_t h = mix(salt, w.i + 1);
    auto rnd = [&h](uint64_t n) {
      h = mix(h, 0x51ED);
      return static_cast<int64_t>(h % n);
    };
    if (level == FULL || level == FULL_ABSENT) {
      // every box with corners on the grid lines 0..side; absent points through at()/exists(pt) - both throw inside
      // phosg, ~30 us per point under ASan - for every point of the grid and the ring around it (FULL_ABSENT) or for
      // three of them chosen by the state (FULL; the single-cell boxes below cover the other absent cells)
      uint64_t pick = 0, cells = 0;
      for_each_cell(-1, side, [&](const std::array<int64_t, D>&) { cells++; });
      for_each_cell(-1, side, [&](const std::array<int64_t, D>& c) {
        pick++;
        if (std::binary_search(live.begin(), live.end(), c)) return;
        if (level == FULL_ABSENT || ((pick + h) % cells) < 3) check_point(t, m, c, w);
      });
      for_each_cell(0, side, [&](const std::array<int64_t, D>& lo) {
        for_each_cell(0, side, [&](const std::array<int64_t, D>& hi) {
          bool ordered = true;
          for (size_t d = 0; d < D; d++) ordered &= lo[d] <= hi[d];
          if (ordered) check_box(t, m, lo, hi, w);
        });
      });
      // an inverted box is empty
      std::array<int64_t, D> a, b;
      a.fill(side);
      b.fill(0);
      check_box(t, m, a, b, w);
    } else {
      // absent points are expensive (exists(pt) is implemented with an exception): a few per step
      for (int k = 0; k < 3; k++) {
        std::array<int64_t, D> c;
        for (size_t d = 0; d < D; d++) c[d] = rnd(side + 2) - 1;
        if (!std::binary_search(live.begin(), live.end(), c)) check_point(t, m, c, w);
      }
      for (int k = 0; k < 10; k++) {
        std::array<int64_t, D> lo, hi;
        for (size_t d = 0; d < D; d++) {
          int64_t a = rnd(side + 2) - 1, b = rnd(side + 2) - 1;
          if (k < 8 && a > b) std::swap(a, b); // the last two may be inverted (empty) boxes
          lo[d] = a;
          hi[d] = b + (k & 1);
        }
        check_box(t, m, lo, hi, w);
      }
    }
  }

  static bool shares_coordinate(const Model& m, size_t idx) {
    for (size_t j = 0; j < m.size(); j++) {
      if (j == idx) continue;
      for (size_t d = 0; d < D; d++)
        if (m[j].c[d] == m[idx].c[d]) return true;
    }
    return false;
  }

  // ---------------------------------------------------------------- one history

  static void replay(const uint64_t* ops, size_t n, int64_t side, uint64_t salt, Stats& st) {
    alloc_balance::Scope heap;
    {
      Tree t;
      Model m;
      Battery level = (D == 2 && side <= 4) ? FULL : LIGHT;
      check_state(t, m, side, level, salt, Where{ops, n, 0, "construction"});
      for (size_t i = 0; i < n; i++) {
        Step s = unpack(ops[i]);
        Where here{ops, n, i, nullptr};
        std::array<int64_t, D> c;
        for (size_t d = 0; d < D; d++) c[d] = s.c[d];
        switch (s.code) {
          case INSERT_DUP:
            if (!m.empty()) c = m[s.r % m.size()].c;
            else c.fill(0);
            // fall through
          case INSERT:
          case EMPLACE: {
            int64_t v = static_cast<int64_t>(s.value);
#ifdef C13_GATED
            auto it = (s.code == EMPLACE) ? t.emplace(pt(c), v) : t.insert(pt(c), v);
#else
            if (s.code == EMPLACE) throw std::logic_error("C13: emplace is only exercised by the gated build");
            auto it = t.insert(pt(c), v);
#endif
            VCHECK(it->first == pt(c) && it->second == v, "insert-iterator", "the iterator returned by ", kCodeNames[s.code], " does not designate the new entry at ", here);
            E e;
            e.c = c;
            e.v = v;
            m.push_back(e);
            break;
          }
          case ERASE_LIVE:
          case ERASE: {
            int64_t v = static_cast<int64_t>(s.value);
            if (s.code == ERASE_LIVE) {
              if (!m.empty()) {
                c = m[s.r % m.size()].c;
                v = m[s.r % m.size()].v;
              } else {
                c.fill(0);
                v = 0;
              }
            }
            size_t idx = m.size();
            for (size_t j = 0; j < m.size(); j++)
              if (m[j].c == c && m[j].v == v) {
                idx = j;
                break;
              }
            bool r = t.erase(pt(c), v);
            if (idx == m.size()) {
              VCHECK(!r, "erase-phantom", "erase(", show(c), ",", v, ") returned true but the model holds no such entry at ", here);
            } else {
              VCHECK(r, "lookup-lost:erase", "erase(", show(c), ",", v, ") returned false but the model holds that entry at ", here);
              if (m.size() >= 3 && shares_coordinate(m, idx)) st.nontrivial = true;
              m.erase(m.begin() + idx);
            }
            break;
          }
          case SWEEP: {
            // iterate and erase_advance every entry the predicate selects; everything else must be visited exactly once
            auto pred = [&](const E& e) {
              uint64_t h = mix(s.r, static_cast<uint64_t>(e.v));
              for (size_t d = 0; d < D; d++) h = mix(h, static_cast<uint64_t>(e.c[d]));
              return (h % 8) < s.t;
            };
            std::vector<E> kept, erased, exp_kept, exp_erased;
            for (size_t j = 0; j < m.size(); j++) {
              if (pred(m[j])) {
                exp_erased.push_back(m[j]);
                if (m.size() >= 3 && shares_coordinate(m, j)) st.nontrivial = true;
              } else exp_kept.push_back(m[j]);
            }
            size_t guard = 0;
            for (auto it = t.begin(); it != t.end();) {
              VCHECK(++guard <= m.size() + 1, "sweep-overrun", "an erase_advance sweep visits more than the ", m.size(), " entries of the tree at ", here);
              E cur = from(it->first, it->second);
              if (pred(cur)) {
                erased.push_back(cur);
                t.erase_advance(it);
              } else {
                kept.push_back(cur);
                ++it;
              }
            }
            std::sort(kept.begin(), kept.end());
            std::sort(erased.begin(), erased.end());
            std::sort(exp_kept.begin(), exp_kept.end());
            std::sort(exp_erased.begin(), exp_erased.end());
            VCHECK(kept == exp_kept, "sweep-visits-survivors-once", "the sweep visited the surviving entries ", show(kept), " but the survivors are ", show(exp_kept), " at ", here);
            VCHECK(erased == exp_erased, "sweep-erased", "the sweep erased ", show(erased), " but the predicate selects ", show(exp_erased), " at ", here);
            m = exp_kept;
            break;
          }
          default:
            throw std::logic_error("C13: unknown operation");
        }
        st.mutations++;
        Battery lv = level;
        if (lv == LIGHT && (i + 1 == n || (i % 16) == 15) && side <= 6) lv = (D == 2) ? FULL : LIGHT;
        if (lv == FULL && i + 1 == n) lv = FULL_ABSENT;
        check_state(t, m, side, lv, salt, here);
      }
    } // the tree is destroyed here, in whatever state the history left it
    VCHECK(!heap.leaked(), "leak", heap.excess(), " heap block(s) allocated during the history are still live after the tree was destroyed and LeakSanitizer reports a leak");
  }

  // ---------------------------------------------------------------- exhaustive block: one insertion sequence, all erase orders (2-D, 3x3)
};

inline std::array<int64_t, 2> cell(uint64_t idx) { return {static_cast<int64_t>(idx % 3), static_cast<int64_t>(idx / 3)}; }

// builds the mode-0 history (insert all, erase in `order`) - the precise replay of one history of a block
inline std::vector<uint64_t> block_history(const std::vector<uint64_t>& cells, bool equal_values, const std::vector<unsigned>& order) {
  std::vector<uint64_t> ops;
  for (size_t i = 0; i < cells.size(); i++) ops.push_back(pack_pt(INSERT, cell(cells[i])[0], cell(cells[i])[1], -1, equal_values ? 7 : i));
  for (unsigned o : order) ops.push_back(pack_pt(ERASE, cell(cells[o])[0], cell(cells[o])[1], -1, equal_values ? 7 : o));
  return ops;
}

// returns the number of (insertion sequence, erase order) histories executed; on a failure *failed_order holds the order
inline uint64_t run_exhaustive_block(const std::vector<uint64_t>& cells, bool equal_values, Battery level, Stats& st, std::vector<unsigned>* failed_order) {
  typedef KD<2> K;
  size_t k = cells.size();
  std::vector<K::E> entries(k);
  for (size_t i = 0; i < k; i++) {
    entries[i].c = cell(cells[i]);
    entries[i].v = equal_values ? 7 : static_cast<int64_t>(i);
  }
  std::vector<unsigned> order(k);
  for (size_t i = 0; i < k; i++) order[i] = i;
  uint64_t count = 0;
  std::vector<uint64_t> ops; // only for messages; capacity reserved here so that refilling it inside a heap-balance scope allocates nothing
  ops.reserve(2 * k + 2);
  try {
    // the state after the k insertions (the states after fewer insertions were compared when the shorter sequence was enumerated)
    {
      alloc_balance::Scope heap;
      {
        K::Tree t;
        K::Model m;
        for (size_t i = 0; i < k; i++) {
          auto it = t.insert(K::pt(entries[i].c), entries[i].v);
          VCHECK(it->first == K::pt(entries[i].c) && it->second == entries[i].v, "insert-iterator", "the iterator returned by insert does not designate the new entry");
          m.push_back(entries[i]);
        }
        ops = block_history(cells, equal_values, {});
        K::check_state(t, m, 3, FULL_ABSENT, 0, Where{ops.data(), ops.size(), ops.size(), "after the insertions"});
      } // destroyed while full
      VCHECK(!heap.leaked(), "leak", "heap blocks still live after a full tree was destroyed and LeakSanitizer reports a leak");
      count++;
    }
    do {
      // battery after erase j only where this permutation is the first (lexicographically) to reach that state
      alloc_balance::Scope heap;
      {
        K::Tree t;
        K::Model m(entries);
        std::vector<bool> live(k, true);
        for (size_t i = 0; i < k; i++) t.insert(K::pt(entries[i].c), entries[i].v);
        for (size_t j = 0; j < k; j++) {
          const K::E& e = entries[order[j]];
          bool r = t.erase(K::pt(e.c), e.v);
          size_t idx = std::find(m.begin(), m.end(), e) - m.begin();
          if (!r || std::is_sorted(order.begin() + j + 1, order.end())) {
            ops = block_history(cells, equal_values, std::vector<unsigned>(order.begin(), order.begin() + j + 1));
          }
          Where here{ops.data(), ops.size(), ops.size(), "after the last erase"};
          VCHECK(r, "lookup-lost:erase", "erase(", K::show(e.c), ",", e.v, ") returned false but the model holds that entry, ", here);
          if (m.size() >= 3 && K::shares_coordinate(m, idx)) st.nontrivial = true;
          m.erase(m.begin() + idx);
          if (std::is_sorted(order.begin() + j + 1, order.end())) K::check_state(t, m, 3, level, mix(j, order[j]), here);
        }
      } // destroyed while empty
      VCHECK(!heap.leaked(), "leak", "heap blocks still live after the emptied tree was destroyed and LeakSanitizer reports a leak");
      count++;
    } while (std::next_permutation(order.begin(), order.end()));
  } catch (const Fail&) {
    if (failed_order) *failed_order = order;
    throw;
  }
  return count;
}

} // namespace c13
