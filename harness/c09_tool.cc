// C09, tool stage - the parse-data program (src/ParseData.cc) outputs the bytes the data-string syntax defines for its
// input text, however the text reaches it and however long it is.
//
// Built and started by oracle/c09_tool.py, which compiles the tool from the tree under test and passes its path in the
// environment variable C09_PARSE_DATA.
//
// Subcheck
//   tool   a generated text of 0..1 MB (a pure function of the case's seed / length / profile) made of the documented
//          constructs, with parser state that lives across line boundaries: $ switched on for thousands of lines with
//          multi-byte numerals, floats and '...' strings inside, /* */ comments of many lines (full of things that look
//          like data), "..." strings with raw newlines, a hex pair split by a newline, ? toggles. Expected bytes are known
//          by construction and must agree with the reference interpreter (harness/c09/ref.hh). The text is handed to the
//          tool (a) as a file argument, (b) on stdin redirected from the file, (c) on stdin through a pipe, written in
//          chunks of a generated size; the output is taken from stdout or from the file named by the second argument.
//          Clauses: exit status 0, output == expected bytes per delivery; the library call parse_data_string on the same
//          text is compared as well (a difference there gets its own signature).
//   tooltail  how the text ENDS: the tool is the command-line face of parse_data_string, so for exactly the bytes delivered
//          its output is what the library call returns for those bytes - also when the text stops in the middle of a
//          construct. A generated documented text (0..~6000 characters, sometimes around 4096 / 65536) is followed by a
//          tail: an open "..." or '...' string (some content, optionally a backslash last), an open /* comment, a //
//          comment without its newline, a # / % marker with or without a numeral, a single hex digit, a cut through the
//          generated text at an arbitrary character, or nothing (closed text) - and then 0..8 bytes drawn from space, tab,
//          CR, LF (inside an open string those are data: 1 byte each in "...", 2 in '...'). Where such a text ends inside
//          an open construct the syntax documents no closing, so the expectation is the differential one: exit status 0
//          and output == parse_data_string(text) for each of the three deliveries (the harness calls the library of the
//          same tree in-process; mask.size() == data.size() there). When the reference interpreter says the whole text is
//          documented syntax (closed text + blanks, // comment at the end, ...) the library result must equal the
//          reference bytes as well. Exhaustive part: 2 heads x 14 open-ended tails x every blank string of length 0..2.
#include <errno.h>
#include <signal.h>
#include <spawn.h>
#include <sys/wait.h>

#include <phosg/Strings.hh>

#include "c09/ref.hh"
#include "verif.hh"

using namespace verif;
using std::string;
using std::vector;

extern char** environ;

static string g_tool;

// ---------------------------------------------------------------- text generator (deterministic in the seed)

struct Rng {
  uint64_t s;
  uint64_t next() {
    uint64_t z = (s += 0x9E3779B97F4A7C15ULL);
    z = (z ^ (z >> 30)) * 0xBF58476D1CE4E5B9ULL;
    z = (z ^ (z >> 27)) * 0x94D049BB133111EBULL;
    return z ^ (z >> 31);
  }
  uint64_t below(uint64_t n) { return n <= 1 ? 0 : next() % n; }
  bool chance(unsigned num, unsigned den) { return below(den) < num; }
};

enum Profile : uint64_t { P_MIXED = 0, P_ENDIAN, P_COMMENT, P_STRING, P_PLAIN, P_COUNT };
static const char* kProfileNames[P_COUNT] = {"mixed", "endianness", "comments", "strings", "plain-hex"};

struct Text {
  string text, data;
  bool big = false;
  uint64_t live_newlines = 0; // newlines at which some parser state is live ($ on, open comment / string, pending nybble)
  uint64_t constructs = 0;
  void out(char b) { data.push_back(b); }
  void out_int(uint64_t v, unsigned bytes) {
    for (unsigned k = 0; k < bytes; k++) out(static_cast<char>(v >> (big ? 8 * (bytes - 1 - k) : 8 * k)));
  }
  // appends raw text that belongs to an open construct (comment / string body) or to a separator
  void raw(const string& t, bool inside_construct) {
    for (char ch : t)
      if (ch == '\n' && (inside_construct || big)) live_newlines++;
    text += t;
  }
};

static const char kHex[] = "0123456789abcdefABCDEF";
static const char kJunk[] = "0123456789abcdefABCDEF  \n\n$?#%\"'/*x-+.,:<>ghijkXYZ\t";

static string junk(Rng& r, size_t n, bool one_line) {
  string b(n, ' ');
  for (auto& ch : b) {
    ch = kJunk[r.below(sizeof(kJunk) - 1)];
    if (one_line && ch == '\n') ch = ' ';
  }
  return b;
}

static void gen_hex_run(Text& g, Rng& r) {
  size_t pairs = 1 + r.below(16);
  for (size_t p = 0; p < pairs; p++) {
    char a = kHex[r.below(22)], b = kHex[r.below(22)];
    g.text += a;
    if (r.chance(1, 12)) {
      // the two digits of a pair may be separated; a newline there leaves a pending digit across the line boundary
      if (r.chance(1, 2)) {
        g.text += '\n';
        g.live_newlines++;
      } else {
        g.text += ' ';
      }
    }
    g.text += b;
    g.out(static_cast<char>((c09ref::hex_value(a) << 4) | c09ref::hex_value(b)));
    if (r.chance(2, 3)) g.raw(r.chance(1, 10) ? "\n" : (r.chance(1, 8) ? "," : " "), false);
  }
}

static void gen_number(Text& g, Rng& r) {
  unsigned hashes = 1 + static_cast<unsigned>(r.below(4));
  unsigned bytes = 1u << (hashes - 1);
  uint64_t maxv = (bytes == 8) ? UINT64_MAX : ((1ULL << (8 * bytes)) - 1);
  g.text += string(hashes, '#');
  char buf[40];
  switch (r.below(3)) {
    case 0: {
      uint64_t v = r.next() & maxv;
      if (r.chance(1, 3)) v &= 0xFFFF;
      snprintf(buf, sizeof(buf), "%llu", (unsigned long long)v);
      g.text += buf;
      g.out_int(v, bytes);
      break;
    }
    case 1: {
      uint64_t lim = 1ULL << (8 * bytes - 1);
      uint64_t mag = 1 + r.next() % lim;
      snprintf(buf, sizeof(buf), "-%llu", (unsigned long long)mag);
      g.text += buf;
      g.out_int(0 - mag, bytes);
      break;
    }
    default: {
      uint64_t v = r.next() & maxv;
      snprintf(buf, sizeof(buf), r.chance(1, 2) ? "0x%llX" : "0x%llx", (unsigned long long)v);
      g.text += buf;
      g.out_int(v, bytes);
      break;
    }
  }
  g.raw(r.chance(1, 4) ? "\n" : " ", false);
  g.constructs++;
}

static void gen_float(Text& g, Rng& r) {
  bool dbl = r.chance(1, 2);
  g.text += dbl ? "%%" : "%";
  char buf[64];
  // values with a short exact decimal form: k / 8
  int64_t k = static_cast<int64_t>(r.below(2000001)) - 1000000;
  if (dbl) {
    double v = static_cast<double>(k) / 8.0;
    snprintf(buf, sizeof(buf), "%.17g", v);
    uint64_t bits;
    memcpy(&bits, &v, 8);
    g.text += buf;
    g.out_int(bits, 8);
  } else {
    float v = static_cast<float>(k) / 8.0f;
    snprintf(buf, sizeof(buf), "%.9g", static_cast<double>(v));
    uint32_t bits;
    memcpy(&bits, &v, 4);
    g.text += buf;
    g.out_int(bits, 4);
  }
  g.raw(r.chance(1, 4) ? "\n" : " ", false);
  g.constructs++;
}

static void gen_dq_string(Text& g, Rng& r, bool many_lines) {
  g.text += '"';
  size_t n = many_lines ? r.below(400) : r.below(24);
  for (size_t k = 0; k < n; k++) {
    char ch;
    switch (r.below(8)) {
      case 0: ch = '\n'; break;
      case 1: ch = "\"\\'?$#%/*"[r.below(9)]; break;
      case 2: ch = static_cast<char>(0x80 + r.below(0x80)); break;
      default: ch = static_cast<char>(0x20 + r.below(0x5F)); break;
    }
    if (ch == '"' || ch == '\\') {
      g.text += '\\';
      g.text += ch;
    } else if (ch == '\n' && r.chance(1, 3)) {
      g.text += "\\n";
    } else {
      if (ch == '\n') g.live_newlines++;
      g.text += ch;
    }
    g.out(ch);
  }
  g.text += '"';
  g.constructs++;
}

static void gen_sq_string(Text& g, Rng& r) {
  g.text += '\'';
  size_t n = r.below(10);
  for (size_t k = 0; k < n; k++) {
    char ch = r.chance(1, 10) ? '\n' : static_cast<char>(0x20 + r.below(0x5F));
    if (ch == '\'' || ch == '\\') {
      g.text += '\\';
      g.text += ch;
    } else {
      if (ch == '\n') g.live_newlines++;
      g.text += ch;
    }
    g.out_int(static_cast<uint8_t>(ch), 2);
  }
  g.text += '\'';
  g.constructs++;
}

static void gen_block_comment(Text& g, Rng& r, uint64_t profile, size_t room) {
  size_t n;
  uint64_t pick = r.below(100);
  if (pick < 55) n = r.below(40);
  else if (pick < 90) n = 40 + r.below(3000);
  else n = 3000 + r.below(profile == P_COMMENT ? 150000 : 20000);
  if (n > room) n = room;
  string body = junk(r, n, false);
  size_t at = 0;
  while ((at = body.find("*/", at)) != string::npos) body[at + 1] = '.';
  if (!body.empty() && body[0] == '/') body[0] = ' '; // "/*/" is a comment opener followed by '/', keep clear of the corner
  g.text += "/*";
  g.raw(body, true);
  g.text += "*/";
  g.constructs++;
}

// weights per profile: hex run, newline, $, ?, number, float, "string", 'string', // comment, /* comment */
static const unsigned kWeights[P_COUNT][10] = {
    {30, 10, 2, 2, 12, 6, 8, 5, 5, 6}, // mixed
    {15, 12, 1, 1, 40, 12, 2, 12, 3, 2}, // endianness: few toggles, many multi-byte constructs
    {25, 10, 1, 1, 8, 2, 3, 2, 10, 25}, // comments
    {20, 8, 1, 2, 6, 2, 40, 12, 3, 3}, // strings
    {70, 20, 0, 0, 0, 0, 0, 0, 10, 0}, // plain hex and one-line comments: no state ever crosses a line
};

static Text gen_text(uint64_t seed, uint64_t target, uint64_t profile) {
  Rng r{seed * 0x2545F4914F6CDD1DULL + profile};
  Text g;
  g.text.reserve(target + 16);
  const unsigned* w = kWeights[profile];
  unsigned total = 0;
  for (int k = 0; k < 10; k++) total += w[k];
  while (g.text.size() + 96 < target) {
    size_t room = target - g.text.size() - 96;
    uint64_t pick = r.below(total);
    int item = 0;
    while (pick >= w[item]) pick -= w[item++];
    switch (item) {
      case 0: gen_hex_run(g, r); break;
      case 1: g.raw("\n", false); break;
      case 2:
        g.text += '$';
        g.big = !g.big;
        g.constructs++;
        break;
      case 3:
        g.text += '?';
        g.constructs++;
        break;
      case 4: gen_number(g, r); break;
      case 5: gen_float(g, r); break;
      case 6:
        if (room >= 900) gen_dq_string(g, r, profile == P_STRING && r.chance(1, 4));
        break;
      case 7: gen_sq_string(g, r); break;
      case 8: {
        g.text += "//" + junk(r, r.below(60), true);
        g.raw("\n", false);
        g.constructs++;
        break;
      }
      default: gen_block_comment(g, r, profile, room); break;
    }
  }
  // pad to exactly the requested length with separators (short texts are all padding or a few hex pairs)
  while (g.text.size() + 2 <= target && target - g.text.size() >= 3 && r.chance(1, 2)) {
    char a = kHex[r.below(22)], b = kHex[r.below(22)];
    g.text += a;
    g.text += b;
    g.text += ' ';
    g.out(static_cast<char>((c09ref::hex_value(a) << 4) | c09ref::hex_value(b)));
  }
  while (g.text.size() < target) g.raw(r.chance(1, 6) ? "\n" : " ", false);
  return g;
}

// ---------------------------------------------------------------- running the tool

struct ToolRun {
  int status = -1; // exit status, or 1000 + signal
  bool hung = false;
  string out, err;
};

static string slurp(const string& path) {
  string r;
  FILE* f = fopen(path.c_str(), "rb");
  if (!f) return r;
  char buf[65536];
  size_t k;
  while ((k = fread(buf, 1, sizeof(buf), f)) > 0) r.append(buf, k);
  fclose(f);
  return r;
}

// delivery: 0 file argument, 1 stdin redirected from the file, 2 stdin through a pipe
// out_named: the output goes to the file named by the second argument instead of stdout
// dash: write "-" for stdin / stdout explicitly where the command line allows leaving it out
static ToolRun run_tool_once(const string& text, const string& in_path, unsigned delivery, bool out_named, bool dash, size_t chunk, const string& tag) {
  ToolRun res;
  string out_path = tag + "-out.bin", err_path = tag + "-err.txt", named_path = tag + "-named.bin";
  unlink(out_path.c_str());
  unlink(err_path.c_str());
  unlink(named_path.c_str());
  vector<string> args = {g_tool};
  if (delivery == 0) args.push_back(in_path);
  else if (dash || out_named) args.push_back("-");
  if (out_named) args.push_back(named_path);
  else if (dash && args.size() == 2) args.push_back("-");
  vector<char*> argv;
  for (auto& a : args) argv.push_back(const_cast<char*>(a.c_str()));
  argv.push_back(nullptr);

  posix_spawn_file_actions_t fa;
  posix_spawn_file_actions_init(&fa);
  int pfd[2] = {-1, -1};
  if (delivery == 2) {
    if (pipe(pfd) != 0) throw std::runtime_error("pipe() failed");
    posix_spawn_file_actions_adddup2(&fa, pfd[0], 0);
    posix_spawn_file_actions_addclose(&fa, pfd[0]);
    posix_spawn_file_actions_addclose(&fa, pfd[1]);
  } else if (delivery == 1) {
    posix_spawn_file_actions_addopen(&fa, 0, in_path.c_str(), O_RDONLY, 0);
  } else {
    posix_spawn_file_actions_addopen(&fa, 0, "/dev/null", O_RDONLY, 0);
  }
  posix_spawn_file_actions_addopen(&fa, 1, out_path.c_str(), O_WRONLY | O_CREAT | O_TRUNC, 0666);
  posix_spawn_file_actions_addopen(&fa, 2, err_path.c_str(), O_WRONLY | O_CREAT | O_TRUNC, 0666);
  // the child gets the default SIGPIPE disposition back (this process ignores it for the pipe delivery)
  posix_spawnattr_t at;
  posix_spawnattr_init(&at);
  sigset_t defs;
  sigemptyset(&defs);
  sigaddset(&defs, SIGPIPE);
  posix_spawnattr_setsigdefault(&at, &defs);
  posix_spawnattr_setflags(&at, POSIX_SPAWN_SETSIGDEF);
  pid_t pid = 0;
  int rc = posix_spawn(&pid, g_tool.c_str(), &fa, &at, argv.data(), environ);
  posix_spawnattr_destroy(&at);
  posix_spawn_file_actions_destroy(&fa);
  if (rc != 0) {
    if (pfd[0] >= 0) close(pfd[0]), close(pfd[1]);
    throw std::runtime_error(cat("posix_spawn(", g_tool, ") failed: ", strerror(rc)));
  }
  if (delivery == 2) {
    close(pfd[0]);
    size_t at = 0;
    while (at < text.size()) {
      size_t k = std::min(chunk ? chunk : text.size(), text.size() - at);
      ssize_t wr = write(pfd[1], text.data() + at, k);
      if (wr < 0) {
        if (errno == EINTR) continue;
        break; // EPIPE: the tool stopped reading; its exit status / output tell the rest
      }
      at += static_cast<size_t>(wr);
    }
    close(pfd[1]);
  }
  // wait, at most 300 s of wall-clock time (the tool is an ASan build on a possibly loaded machine)
  int st = 0;
  for (unsigned ticks = 0;; ticks++) {
    pid_t w = waitpid(pid, &st, WNOHANG);
    if (w == pid) break;
    if (w < 0 && errno != EINTR) throw std::runtime_error("waitpid failed");
    if (ticks > 150000) {
      kill(pid, SIGKILL);
      waitpid(pid, &st, 0);
      res.hung = true;
      break;
    }
    usleep(2000);
  }
  res.status = WIFEXITED(st) ? WEXITSTATUS(st) : 1000 + (WIFSIGNALED(st) ? WTERMSIG(st) : 0);
  res.err = slurp(err_path);
  string so = slurp(out_path);
  if (out_named) {
    res.out = slurp(named_path);
    if (!so.empty()) res.err += cat("[", so.size(), " bytes on stdout although an output file was named]");
  } else {
    res.out = so;
  }
  unlink(out_path.c_str());
  unlink(err_path.c_str());
  unlink(named_path.c_str());
  return res;
}

static string first_diff(const string& a, const string& b) {
  size_t k = 0;
  while (k < a.size() && k < b.size() && a[k] == b[k]) k++;
  return cat("first difference at output byte ", k, " (", a.size(), " vs ", b.size(), " bytes)");
}

static const char* kDeliveryNames[3] = {"file-argument", "stdin-redirected", "stdin-pipe"};

// case: n = [seed, text length, profile, delivery options], s = [] ; or s = [text] for a saved text (n = [0, 0, 0, options])
//   options: bits 0-2: output to a named file for delivery 0/1/2; bits 3-5: explicit "-" for delivery 0/1/2;
//            bits 8..: pipe chunk size (0 = one write)
static void run_tool(const Case& c) {
  uint64_t seed = c.u(0), target = c.u(1), profile = c.u(2), opts = c.u(3);
  if (target > (1u << 21) || profile >= P_COUNT) throw std::logic_error("case outside the generated domain");
  string text, want;
  uint64_t live = 0;
  if (!c.s.empty()) {
    text = c.str(0);
  } else {
    Text g = gen_text(seed, target, profile);
    if (g.text.size() != target) throw std::logic_error(cat("ORACLE: generator produced ", g.text.size(), " characters for a target of ", target));
    text.swap(g.text);
    want.swap(g.data);
    live = g.live_newlines;
  }
  c09ref::Parsed ref = c09ref::ref_parse(text);
  VCHECK(ref.documented, "ORACLE-tool-text-left-documented-syntax", ref.why);
  if (c.s.empty()) VCHECK(ref.data == want, "ORACLE-reference-disagrees-with-construction", first_diff(ref.data, want), " seed ", seed, " length ", target, " profile ", kProfileNames[profile]);
  else want = ref.data;

  string how = cat("text of ", text.size(), " characters (profile ", kProfileNames[profile], ", ", live, " newlines with live parser state)");
  // the library call on the same text (the tool is supposed to be exactly this call)
  string lib = phosg::parse_data_string(text);
  VCHECK(lib == want, "library-data:long-text", "parse_data_string on a ", how, ": ", first_diff(lib, want));

  string tag = cat("c09tool-", getpid());
  string in_path = tag + "-in.txt";
  {
    FILE* f = fopen(in_path.c_str(), "wb");
    if (!f) throw std::runtime_error("cannot write the input file in the scratch directory");
    if (!text.empty() && fwrite(text.data(), 1, text.size(), f) != text.size()) {
      fclose(f);
      throw std::runtime_error("short write of the input file");
    }
    fclose(f);
  }
  struct Cleanup {
    string p;
    ~Cleanup() { unlink(p.c_str()); }
  } cleanup{in_path};
  size_t chunk = static_cast<size_t>(opts >> 8);
  for (unsigned delivery = 0; delivery < 3; delivery++) {
    bool out_named = (opts >> delivery) & 1, dash = (opts >> (3 + delivery)) & 1;
    ToolRun tr = run_tool_once(text, in_path, delivery, out_named, dash, chunk, tag);
    string via = cat(kDeliveryNames[delivery], out_named ? ", output to a named file" : ", output on stdout", delivery == 2 ? cat(", written in chunks of ", chunk ? chunk : text.size(), " bytes") : string());
    VCHECK(!tr.hung, cat("tool-hang:", kDeliveryNames[delivery]), "parse-data did not finish within 300 s on a ", how, " via ", via);
    VCHECK(tr.status == 0, cat("tool-exit:", kDeliveryNames[delivery]), "parse-data exited with status ", tr.status, " on a ", how, " via ", via, "; stderr: ", tr.err.substr(0, 600));
    VCHECK(tr.out == want, cat("tool-output:", kDeliveryNames[delivery]), "parse-data output differs from the bytes the syntax defines for a ", how, " via ", via, ": ", first_diff(tr.out, want),
        "; the library call on the same text is right");
  }
  if (ref.constructs > 0) ctx().nontrivial_case();
  ctx().cls(text.size() < 4096 ? "tool:text < 4 KiB" : text.size() < 65536 ? "tool:text 4..64 KiB" : text.size() <= 131072 ? "tool:text 64..128 KiB" : "tool:text > 128 KiB");
  ctx().cls(live ? "tool:parser state live across a line boundary" : "tool:no state across line boundaries");
  ctx().cls(cat("tool:profile ", kProfileNames[profile]));
}

// ---------------------------------------------------------------- texts that end in the middle of a construct

enum TailKind : uint64_t { T_DQ = 0, T_SQ, T_BLOCK, T_LINE, T_NUMERAL, T_NYBBLE, T_TRUNC, T_CLOSED, T_COUNT };
static const char* kTailNames[T_COUNT] = {"open \"...\" string", "open '...' string", "open /* comment", "// comment without newline",
    "# / % marker at the end", "single hex digit at the end", "generated text cut at an arbitrary character", "closed text"};
static const char kBlanks[] = " \t\r\n";

// the body of a string that is never closed: no unescaped closing quote; optionally a backslash as the last character
static void open_string_body(string& t, Rng& r, char q) {
  size_t n = r.below(3) ? r.below(14) : 0;
  for (size_t k = 0; k < n; k++) {
    char ch;
    switch (r.below(8)) {
      case 0: ch = kBlanks[r.below(4)]; break;
      case 1: ch = "\"\\'?$#%/*"[r.below(9)]; break;
      case 2: ch = (q == '"') ? static_cast<char>(0x80 + r.below(0x80)) : 'w'; break;
      default: ch = static_cast<char>(0x20 + r.below(0x5F)); break;
    }
    if (ch == q || ch == '\\') t += '\\';
    t += ch;
  }
  if (r.chance(1, 4)) t += '\\'; // the blank that follows is then an escaped character
}

static string gen_tail_text(uint64_t seed, uint64_t prefix_len, uint64_t profile, uint64_t kind, uint64_t blanks) {
  string t = gen_text(seed, prefix_len, profile).text;
  Rng r{(seed ^ 0x7461696C5F5F3039ULL) * 0x9E3779B97F4A7C15ULL + kind * 131 + blanks};
  switch (kind) {
    case T_DQ:
      t += '"';
      open_string_body(t, r, '"');
      break;
    case T_SQ:
      t += '\'';
      open_string_body(t, r, '\'');
      break;
    case T_BLOCK: {
      string body = junk(r, r.below(40), false);
      size_t at = 0;
      while ((at = body.find("*/", at)) != string::npos) body[at + 1] = '.';
      if (!body.empty() && body[0] == '/') body[0] = ' ';
      t += "/*" + body;
      break;
    }
    case T_LINE: t += "//" + junk(r, r.below(30), true); break;
    case T_NUMERAL: {
      static const char* const markers[] = {"#", "##", "###", "####", "%", "%%"};
      t += markers[r.below(6)];
      if (r.chance(1, 2)) t += cat(1 + r.below(100));
      break;
    }
    case T_NYBBLE: t += kHex[r.below(22)]; break;
    case T_TRUNC: t.resize(r.below(t.size() + 1)); break;
    default: break;
  }
  for (uint64_t k = 0; k < blanks; k++) t += kBlanks[r.below(4)];
  return t;
}

// case: n = [seed, prefix length, profile, delivery options, tail kind, number of blanks]; or s = [text] for a text given in full
static void run_tail(const Case& c) {
  string text;
  uint64_t opts = c.u(3), kind = T_COUNT;
  if (!c.s.empty()) {
    text = c.str(0);
  } else {
    uint64_t prefix_len = c.u(1), profile = c.u(2), blanks = c.u(5);
    kind = c.u(4);
    if (prefix_len > (1u << 18) || profile >= P_COUNT || kind >= T_COUNT || blanks > 64) throw std::logic_error("case outside the generated domain");
    text = gen_tail_text(c.u(0), prefix_len, profile, kind, blanks);
  }
  if (text.find('\0') != string::npos) throw std::logic_error("ORACLE: a tail text contains a NUL byte");
  size_t trailing = 0;
  while (trailing < text.size() && strchr(kBlanks, text[text.size() - 1 - trailing])) trailing++;
  string shown = text.size() <= 48 ? text : "..." + text.substr(text.size() - 45);
  string how = cat("text of ", text.size(), " characters ending in ", c09ref::ref_parse(text).documented ? "documented syntax" : "an unfinished construct",
      " with ", trailing, " trailing blank(s) (", kind < T_COUNT ? kTailNames[kind] : "given text", "; end of text: ", hex(shown), ")");

  // the library of the same tree on exactly these bytes
  string mask;
  string lib = phosg::parse_data_string(text, &mask);
  VCHECK(mask.size() == lib.size(), "library-mask-size:tail-text", "parse_data_string returned ", lib.size(), " data bytes and ", mask.size(), " mask bytes on a ", how);
  c09ref::Parsed ref = c09ref::ref_parse(text);
  if (ref.documented) {
    VCHECK(lib == ref.data, "library-data:tail-text", "parse_data_string on a ", how, ": ", first_diff(lib, ref.data));
    VCHECK(mask == ref.mask, "library-mask:tail-text", "parse_data_string mask on a ", how, ": ", first_diff(mask, ref.mask));
  }

  string tag = cat("c09tail-", getpid());
  string in_path = tag + "-in.txt";
  {
    FILE* f = fopen(in_path.c_str(), "wb");
    if (!f) throw std::runtime_error("cannot write the input file in the scratch directory");
    if (!text.empty() && fwrite(text.data(), 1, text.size(), f) != text.size()) {
      fclose(f);
      throw std::runtime_error("short write of the input file");
    }
    fclose(f);
  }
  struct Cleanup {
    string p;
    ~Cleanup() { unlink(p.c_str()); }
  } cleanup{in_path};
  size_t chunk = static_cast<size_t>(opts >> 8);
  for (unsigned delivery = 0; delivery < 3; delivery++) {
    bool out_named = (opts >> delivery) & 1, dash = (opts >> (3 + delivery)) & 1;
    ToolRun tr = run_tool_once(text, in_path, delivery, out_named, dash, chunk, tag);
    string via = cat(kDeliveryNames[delivery], out_named ? ", output to a named file" : ", output on stdout", delivery == 2 ? cat(", written in chunks of ", chunk ? chunk : text.size(), " bytes") : string());
    VCHECK(!tr.hung, cat("tool-hang:", kDeliveryNames[delivery]), "parse-data did not finish within 300 s on a ", how, " via ", via);
    VCHECK(tr.status == 0, cat("tool-exit:", kDeliveryNames[delivery]), "parse-data exited with status ", tr.status, " on a ", how, " via ", via, "; stderr: ", tr.err.substr(0, 600));
    VCHECK(tr.out == lib, cat("tool-vs-library:", kDeliveryNames[delivery]), "parse-data output differs from what parse_data_string of the same tree returns for exactly the bytes delivered, a ", how,
        " via ", via, ": ", first_diff(tr.out, lib), " (tool vs library)");
  }
  if (!ref.documented || trailing > 0) ctx().nontrivial_case();
  ctx().cls(cat("tail:", kind < T_COUNT ? kTailNames[kind] : "given text"));
  ctx().cls(trailing == 0 ? "tail:no trailing blank" : trailing == 1 ? "tail:1 trailing blank" : "tail:2+ trailing blanks");
  ctx().cls(ref.documented ? "tail:whole text documented" : cat("tail:text ends unfinished (", ref.why, ")"));
  if (!text.empty() && text.back() == '\n') ctx().cls("tail:text ends with LF");
}

// ---------------------------------------------------------------- generator / enumerator

static uint64_t gen_length() {
  switch (vg::below(20)) {
    case 0: return vg::below(4);
    case 1:
    case 2:
    case 3: return vg::below(300);
    case 4:
    case 5:
    case 6:
    case 7: return 200 + vg::below(8000);
    case 8:
    case 9:
    case 10:
    case 11:
    case 12: { // around the powers of two between a page and a megabyte (buffer and block sizes of stdio, pipes, tools)
      uint64_t p = 1ULL << vg::range(12, 20);
      return p - 300 + vg::below(601);
    }
    case 13:
    case 14:
    case 15:
    case 16:
    case 17: { // log-uniform 8 KiB .. 512 KiB
      uint64_t p = 1ULL << vg::range(13, 18);
      return p + vg::below(p);
    }
    default: return (1u << 19) + vg::below(1u << 19) + vg::below(2000);
  }
}

static uint64_t gen_opts(uint64_t len) {
  uint64_t chunk;
  switch (vg::below(6)) {
    case 0: chunk = 0; break;
    case 1: chunk = 1ULL << vg::range(9, 17); break;
    case 2: chunk = 4096 + vg::below(3) - 1; break;
    case 3: chunk = 65536 + vg::below(3) - 1; break;
    default: chunk = 1 + vg::below(100000); break;
  }
  if (chunk && len / chunk > 4000) chunk = len / 4000 + 1; // at most ~4000 write() calls per case
  return vg::below(64) | (chunk << 8);
}

static Case gen_tool() {
  uint64_t len = gen_length();
  uint64_t profile = vg::chance(1, 12) ? P_PLAIN : vg::below(P_PLAIN);
  return Case("tool").N(vg::u64()).N(len).N(profile).N(gen_opts(len));
}

static void enum_tool(Enum& e) {
  static const uint64_t lens[] = {0, 1, 2, 100, 4095, 4096, 4097, 65535, 65536, 65537, 200000};
  uint64_t idx = 0;
  for (uint64_t profile = 0; profile < P_COUNT; profile++)
    for (uint64_t len : lens) {
      if (e.stop) return;
      if (!e.mine(idx++)) continue;
      e.exec(Case("tool").N(1000 + idx).N(len).N(profile).N((idx * 11) & 63));
    }
  e.complete("5 text profiles (mixed, endianness, comments, strings, plain hex) x text lengths {0, 1, 2, 100, 4095, 4096, 4097, 65535, 65536, 65537, 200000} x 3 deliveries (file argument, redirected stdin, pipe)");
}

static Case gen_tail() {
  uint64_t len;
  switch (vg::below(10)) {
    case 0: len = 0; break;
    case 1:
    case 2:
    case 3: len = vg::below(200); break;
    case 4:
    case 5:
    case 6: len = 200 + vg::below(6000); break;
    case 7: len = 4096 - 40 + vg::below(60); break; // the end of the text near a page / stdio buffer boundary
    case 8: len = 65536 - 40 + vg::below(60); break;
    default: len = vg::below(20000); break;
  }
  uint64_t kind = vg::chance(1, 2) ? vg::below(2) : vg::below(T_COUNT);
  uint64_t blanks = vg::chance(1, 8) ? 0 : vg::chance(3, 4) ? 1 + vg::below(3) : 1 + vg::below(8);
  uint64_t profile = vg::chance(1, 12) ? P_PLAIN : vg::below(P_PLAIN);
  return Case("tooltail").N(vg::u64()).N(len).N(profile).N(gen_opts(len + 64)).N(kind).N(blanks);
}

static void enum_tail(Enum& e) {
  static const char* const heads[] = {"", "$41 ?\"x\" ##7 "};
  static const char* const tails[] = {"", "\"", "'", "\"ab", "'ab", "\"a\\", "'a\\", "\"\\", "/*", "/* x *", "//x", "#", "%", "4"};
  vector<string> blanks;
  for_all_strings(" \t\r\n", 2, [&](const string& b) {
    blanks.push_back(b);
    return true;
  });
  uint64_t idx = 0;
  for (const char* head : heads)
    for (const char* tail : tails)
      for (const string& b : blanks) {
        if (e.stop) return;
        if (!e.mine(idx++)) continue;
        e.exec(Case("tooltail").N(0).N(0).N(0).N((idx * 11) & 63).S(string(head) + tail + b));
      }
  e.complete("2 heads (empty, a few closed constructs with $ and ? switched) x 14 tails (nothing, open \"...\" / '...' strings empty, with content, with a backslash last, "
             "open /* comment, // comment, # and % markers, one hex digit) x every string of length 0..2 over {space, tab, CR, LF} x 3 deliveries");
}

int main(int argc, char** argv) {
  const char* tool = getenv("C09_PARSE_DATA");
  if (!tool || access(tool, X_OK) != 0) {
    fprintf(stderr, "c09_tool: C09_PARSE_DATA does not name the parse-data binary (this harness is started by oracle/c09_tool.py)\n");
    return 2;
  }
  g_tool = tool;
  signal(SIGPIPE, SIG_IGN);
  vector<SubCheck> checks;
  checks.push_back({"tool", run_tool, gen_tool, 600, 6000, 100, enum_tool});
  checks.push_back({"tooltail", run_tail, gen_tail, 400, 5000, 100, enum_tail});
  return main_(argc, argv, checks);
}
