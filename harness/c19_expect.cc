// C19 - the unit-test expectation helpers are a sound and complete oracle.
//
// Two finite matrices (enumerated completely) plus random operand pairs for the relation macros:
//   rel_int / rel_str / rel_dbl : relation {eq,ne,gt,ge,lt,le,expect,expect_msg} x operand pair
//   raises                      : expected type E (10) x behaviour of fn (returns, throws each of the 10 types,
//                                 throws int) x entry point (expect_raises macro / expect_raises_fn directly)
//   raises_nested               : E (the 15 + std::nested_exception) x thrown object built by std::throw_with_nested / an own class
//                                 deriving from the outer type and std::nested_exception, 1..4 layers deep, carrying any of the
//                                 types / an int / nothing: the verdict follows the OUTER type, not what is carried inside
//   truth                       : expect / expect_msg x a raw (non-bool) arithmetic predicate of 15 types; the relation
//                                 of these two macros is "the predicate converts to true"
// Every helper call is also made under ambient states of the C++ runtime that do not depend on the operands:
// from a destructor that runs during stack unwinding (the call sits in a try/catch inside the destructor, so
// nothing leaves it), from inside a catch handler, from a destructor unwinding inside a handler, from another thread.
// Oracle: the native C++ relation on the same operands, and std::is_convertible<const T*, const E*> (a compile
// time fact about the hierarchy - exactly the types a `catch (const E&)` handler matches - independent of the
// catch ladder under test).
#include <math.h>

#include <exception>
#include <new>
#include <thread>
#include <type_traits>

#include <phosg/JSON.hh>
#include <phosg/UnitTest.hh>

#include "c19/tu_local.hh"
#include "verif.hh"

using namespace verif;
// the macros expand to unqualified names
using phosg::expect_generic;
using phosg::expect_raises_fn;

// ---------------------------------------------------------------- observing one helper call

struct Outcome {
  bool threw = false; // anything left the helper
  bool is_expectation_failed = false; // ... and it is a phosg::expectation_failed (or derived from it)
  std::string other_type; // typeid name when it was something else
  std::string what;
  std::string file;
  uint64_t line = 0;
  // the message, copied while the exception object is alive - and only on request: for the comparison macros the statement
  // promises the message; what expect_raises puts there is not specified (in /repo it points into a string that is gone)
  bool has_msg = false;
  std::string msg;
};

// (type-erased on purpose: one instantiation of the catch ladder / of the contexts instead of one per matrix cell)
static Outcome observe(const std::function<void()>& f, bool copy_msg = false) {
  Outcome o;
  try {
    f();
  } catch (const phosg::expectation_failed& e) {
    o.threw = true;
    // "throws expectation_failed": a class derived from it IS-A expectation_failed (the handler above selects it)
    o.is_expectation_failed = true;
    if (typeid(e) != typeid(phosg::expectation_failed)) ctx().cls("failure-is-a-class-derived-from-expectation_failed");
    o.what = e.what();
    o.file = e.file ? e.file : "(null)";
    o.line = e.line;
    if (copy_msg && e.msg) {
      o.has_msg = true;
      o.msg = e.msg;
    }
  } catch (const std::exception& e) {
    o.threw = true;
    o.other_type = typeid(e).name();
    o.what = e.what();
  } catch (...) {
    o.threw = true;
    o.other_type = "(not a std::exception)";
  }
  return o;
}

// ---------------------------------------------------------------- ambient state of the call
//
// "Throws exactly when the relation is false" does not depend on where the call is made. where:
//   0 plain   1 from a destructor running during stack unwinding (std::uncaught_exceptions() == 1)
//   2 inside a catch handler (an exception is being handled, none is in flight)
//   3 from a destructor unwinding inside a catch handler   4 on a freshly started thread
// The callable given to in_context never lets an exception out (it observes / catches inside), which is what makes
// the call legal inside a destructor: an exception may be thrown and caught within a destructor during unwinding.
static const uint64_t kNumWhere = 5;
static const char* kWhereNames[kNumWhere] = {"plain", "unwinding-destructor", "catch-handler", "unwinding-inside-handler", "other-thread"};

struct Carrier {
  int tag;
}; // the exception whose propagation provides the context

using Thunk = std::function<void()>;
struct AtUnwind {
  const Thunk& f;
  ~AtUnwind() { f(); }
};

static void in_context(uint64_t where, const Thunk& f) {
  switch (where) {
    case 0:
      f();
      return;
    case 1:
      try {
        AtUnwind g{f};
        throw Carrier{1};
      } catch (const Carrier&) {
      }
      return;
    case 2:
      try {
        throw Carrier{2};
      } catch (const Carrier&) {
        f();
      }
      return;
    case 3:
      try {
        throw std::runtime_error("being handled");
      } catch (const std::exception&) {
        try {
          AtUnwind g{f};
          throw Carrier{3};
        } catch (const Carrier&) {
        }
      }
      return;
    case 4: {
      std::thread t([&f] { f(); });
      t.join();
      return;
    }
    default:
      throw std::logic_error("bad context code");
  }
}

static Outcome observe_in(uint64_t where, const Thunk& f, bool copy_msg = false) {
  Outcome o;
  in_context(where, [&] { o = observe(f, copy_msg); });
  return o;
}

static std::string at(uint64_t where) { return where == 0 ? std::string() : cat("@", kWhereNames[where]); }

// the failure must carry the call site and the message
// generated_wording: the message is one the macro makes up (expect_eq(a, b) -> "a != b" in /repo): that there is one and that what()
// shows it is checked, its wording is not (only expect_msg's message is the caller's own text)
static void check_failure(const Outcome& o, const char* file, uint64_t line, const std::string& msg, bool msg_is_literal, const std::string& what_must_contain_in, const std::string& cls, bool generated_wording = false) {
  std::string what_must_contain = generated_wording ? (o.has_msg ? o.msg : std::string()) : what_must_contain_in;
  VCHECK(o.threw, cat("must-fail:", cls), "helper returned normally although the expectation is false");
  VCHECK(o.is_expectation_failed, cat("failure-type:", cls), "helper threw ", o.other_type, " (", o.what, ") instead of expectation_failed");
  VCHECK(o.file == file, cat("failure-file:", cls), "expectation_failed::file is '", o.file, "' expected '", file, "'");
  VCHECK(o.line == line, cat("failure-line:", cls), "expectation_failed::line is ", o.line, " expected ", line);
  VCHECK(o.what.find(file) != std::string::npos, cat("what-file:", cls), "what() = '", o.what, "' does not name the file");
  VCHECK(o.what.find(cat(":", line)) != std::string::npos, cat("what-line:", cls), "what() = '", o.what, "' does not contain ':", line, "'");
  VCHECK(o.what.find(cat(file, ":", line)) != std::string::npos, cat("what-site:", cls), "what() = '", o.what, "' does not contain '", file, ":", line, "'");
  if (!what_must_contain.empty()) {
    VCHECK(o.what.find(what_must_contain) != std::string::npos, cat("what-message:", cls), "what() = '", o.what, "' does not contain '", what_must_contain, "'");
  }
  if (msg_is_literal && generated_wording) {
    VCHECK(o.has_msg && !o.msg.empty(), cat("failure-msg:", cls), "expectation_failed::msg is empty or null");
  } else if (msg_is_literal) {
    VCHECK(o.has_msg && msg == o.msg, cat("failure-msg:", cls), "expectation_failed::msg is '", (o.has_msg ? o.msg : std::string("(null)")), "' expected '", msg, "'");
  }
}

static void check_success(const Outcome& o, const std::string& cls) {
  VCHECK(!o.threw, cat("must-pass:", cls), "helper threw ", (o.is_expectation_failed ? "expectation_failed" : o.other_type), " (", o.what, ") although the expectation is true");
}

// ---------------------------------------------------------------- relations

static const char* kRelNames[8] = {"expect_eq", "expect_ne", "expect_gt", "expect_ge", "expect_lt", "expect_le", "expect", "expect_msg"};
// text the macro puts between the stringified operands
static const char* kRelMsg[6] = {"a != b", "a == b", "a <= b", "a < b", "a >= b", "a > b"};

// Each helper call and the __LINE__ capture sit on one source line.
#define SITE(stmt)   \
  do {               \
    line = __LINE__; stmt; \
  } while (0)

template <typename T, typename TruthFn>
static void run_relation(uint64_t rel, const T& a, const T& b, TruthFn truth, const char* tn, uint64_t where) {
  uint64_t line = 0;
  bool expected = false;
  std::string msg;
  Outcome o;
  switch (rel) {
    case 0:
      expected = (a == b);
      o = observe_in(where, [&] { SITE(expect_eq(a, b)); }, true);
      msg = kRelMsg[0];
      break;
    case 1:
      expected = (a != b);
      o = observe_in(where, [&] { SITE(expect_ne(a, b)); }, true);
      msg = kRelMsg[1];
      break;
    case 2:
      expected = (a > b);
      o = observe_in(where, [&] { SITE(expect_gt(a, b)); }, true);
      msg = kRelMsg[2];
      break;
    case 3:
      expected = (a >= b);
      o = observe_in(where, [&] { SITE(expect_ge(a, b)); }, true);
      msg = kRelMsg[3];
      break;
    case 4:
      expected = (a < b);
      o = observe_in(where, [&] { SITE(expect_lt(a, b)); }, true);
      msg = kRelMsg[4];
      break;
    case 5:
      expected = (a <= b);
      o = observe_in(where, [&] { SITE(expect_le(a, b)); }, true);
      msg = kRelMsg[5];
      break;
    case 6:
      expected = truth(a);
      o = observe_in(where, [&] { SITE(expect(truth(a))); }, true);
      msg = "!(truth(a))";
      break;
    case 7:
      expected = truth(a) || truth(b);
      o = observe_in(where, [&] { SITE(expect_msg(truth(a) || truth(b), "custom message 7f3a")); }, true);
      msg = "custom message 7f3a";
      break;
    default:
      throw std::logic_error("bad relation code");
  }
  std::string cls = cat(kRelNames[rel], ":", tn, at(where));
  if (expected) {
    check_success(o, cls);
  } else {
    check_failure(o, __FILE__, line, msg, true, msg, cls, rel != 7);
  }
  ctx().cls(cat(kRelNames[rel], expected ? ":holds" : ":fails"));
  ctx().cls(cat("where:", kWhereNames[where]));
}

// the context code is the last number of a case; cases written before it existed have none (= plain)
static uint64_t where_of(const Case& c, size_t idx) {
  uint64_t w = c.n.size() > idx ? c.u(idx) : 0;
  if (w >= kNumWhere) throw std::logic_error("bad context code");
  return w;
}

// case: n = [rel, a, b, where]
static void run_rel_int(const Case& c) {
  int64_t a = c.i(1), b = c.i(2);
  run_relation<int64_t>(c.u(0), a, b, [](int64_t v) { return v != 0; }, "int64", where_of(c, 3));
  ctx().nontrivial_case();
}
// case: n = [rel, a_bits, b_bits, where]
static void run_rel_dbl(const Case& c) {
  double a = c.d(1), b = c.d(2);
  run_relation<double>(c.u(0), a, b, [](double v) { return static_cast<bool>(v); }, "double", where_of(c, 3));
  ctx().nontrivial_case();
}
// case: n = [rel, where], s = [a, b]
static void run_rel_str(const Case& c) {
  run_relation<std::string>(c.u(0), c.str(0), c.str(1), [](const std::string& v) { return !v.empty(); }, "string", where_of(c, 1));
  ctx().nontrivial_case();
}

// ---------------------------------------------------------------- expect / expect_msg on a raw predicate
//
// The relation of expect(pred) / expect_msg(pred, msg) is "pred converts to true". The relation subchecks above hand
// these two macros a bool; here the predicate is a raw value of an arithmetic (or unscoped enumeration) type, the
// way `expect(count)`, `expect(ratio)`, `expect(flags & mask)` are written. The value is built from the two numbers
// of the case; the expected verdict is computed on the representation (any value bit set / magnitude bits non-zero),
// not through the conversion the macro performs.
enum TruthEnum : uint16_t { kTruthEnumZero = 0 };

static const uint64_t kNumTruthTypes = 15;
static const char* kTruthTypeNames[kNumTruthTypes] = {"bool", "signed char", "unsigned char", "short", "unsigned short", "int", "unsigned",
    "long", "unsigned long long", "__int128", "unsigned __int128", "float", "double", "long double", "enum:uint16"};

template <typename T>
static void run_truth_t(uint64_t helper, T v, bool expected, uint64_t where, const char* tn) {
  if (static_cast<bool>(v) != expected) throw std::logic_error(cat("harness: representation model of ", tn, " disagrees with the language's conversion to bool"));
  uint64_t line = 0;
  std::string msg;
  Outcome o;
  if (helper == 0) {
    o = observe_in(where, [&] { SITE(expect(v)); }, true);
    msg = "!(v)";
  } else if (helper == 1) {
    o = observe_in(where, [&] { SITE(expect_msg(v, "truth message 51c2")); }, true);
    msg = "truth message 51c2";
  } else {
    throw std::logic_error("bad helper code");
  }
  std::string cls = cat(helper == 0 ? "expect" : "expect_msg", ":raw-", tn, at(where));
  if (expected) {
    check_success(o, cls);
  } else {
    check_failure(o, __FILE__, line, msg, true, msg, cls, helper == 0);
  }
  ctx().cls(cat("truth:", tn, expected ? ":true" : ":false"));
  ctx().cls(cat("where:", kWhereNames[where]));
}

template <typename T>
static void run_truth_int(uint64_t helper, uint64_t lo, uint64_t hi, uint64_t where, const char* tn) {
  // the value is the low sizeof(T) bytes of hi:lo
  unsigned __int128 wide = (static_cast<unsigned __int128>(hi) << 64) | lo;
  unsigned bits = sizeof(T) * 8;
  unsigned __int128 mask = bits >= 128 ? ~static_cast<unsigned __int128>(0) : ((static_cast<unsigned __int128>(1) << bits) - 1);
  unsigned __int128 kept = wide & mask;
  T v;
  memcpy(&v, &kept, sizeof(T)); // little-endian: the low bytes
  run_truth_t<T>(helper, v, kept != 0, where, tn);
}

// case: n = [helper (0 expect, 1 expect_msg), type, lo, hi, where]
static void run_truth(const Case& c) {
  uint64_t helper = c.u(0), type = c.u(1), lo = c.u(2), hi = c.u(3), where = where_of(c, 4);
  if (type >= kNumTruthTypes) throw std::logic_error("bad type code");
  const char* tn = kTruthTypeNames[type];
  switch (type) {
    case 0: run_truth_t<bool>(helper, (lo & 1) != 0, (lo & 1) != 0, where, tn); break;
    case 1: run_truth_int<signed char>(helper, lo, hi, where, tn); break;
    case 2: run_truth_int<unsigned char>(helper, lo, hi, where, tn); break;
    case 3: run_truth_int<short>(helper, lo, hi, where, tn); break;
    case 4: run_truth_int<unsigned short>(helper, lo, hi, where, tn); break;
    case 5: run_truth_int<int>(helper, lo, hi, where, tn); break;
    case 6: run_truth_int<unsigned>(helper, lo, hi, where, tn); break;
    case 7: run_truth_int<long>(helper, lo, hi, where, tn); break;
    case 8: run_truth_int<unsigned long long>(helper, lo, hi, where, tn); break;
    case 9: run_truth_int<__int128>(helper, lo, hi, where, tn); break;
    case 10: run_truth_int<unsigned __int128>(helper, lo, hi, where, tn); break;
    case 11: {
      uint32_t b = static_cast<uint32_t>(lo);
      float v;
      memcpy(&v, &b, 4);
      run_truth_t<float>(helper, v, (b & 0x7FFFFFFFu) != 0, where, tn); // anything but +-0, NaN included
      break;
    }
    case 12: {
      double v;
      memcpy(&v, &lo, 8);
      run_truth_t<double>(helper, v, (lo & 0x7FFFFFFFFFFFFFFFull) != 0, where, tn);
      break;
    }
    case 13: {
      // lo = signed significand, hi = signed binary exponent (clamped): covers the whole x87 range incl. subnormals, 0 and inf
      int64_t e = static_cast<int64_t>(hi);
      if (e > 20000) e = 20000;
      if (e < -20000) e = -20000;
      long double v = ldexpl(static_cast<long double>(static_cast<int64_t>(lo)), static_cast<int>(e));
      run_truth_t<long double>(helper, v, !(v == 0.0L), where, tn);
      break;
    }
    case 14: run_truth_t<TruthEnum>(helper, static_cast<TruthEnum>(lo & 0xFFFF), (lo & 0xFFFF) != 0, where, tn); break;
  }
  ctx().nontrivial_case();
}

// ---------------------------------------------------------------- expect_raises

struct CustomRuntime : std::runtime_error {
  CustomRuntime() : std::runtime_error("custom-runtime") {}
};
struct CustomException : std::exception {
  const char* what() const noexcept override { return "custom-exception"; }
};

// Hierarchies that are not trees. "E or derives from it" is decided operationally by what a `catch (const E&)`
// handler matches (public unambiguous base); where the thrown type derives from E only through an ambiguous or
// inaccessible base the statement leaves the verdict open and only the shape of a failure is checked.
struct MultiBase : std::runtime_error, std::out_of_range { // two std::exception subobjects (diamond without a virtual base)
  MultiBase() : std::runtime_error("multi-runtime"), std::out_of_range("multi-out-of-range") {}
};
struct VLeft : virtual std::exception {};
struct VRight : virtual std::exception {};
struct VDiamond : VLeft, VRight { // one shared std::exception subobject
  const char* what() const noexcept override { return "virtual-diamond"; }
};
struct PrivRuntime : private std::runtime_error { // no accessible base at all
  PrivRuntime() : std::runtime_error("private-runtime") {}
};
struct PlainStruct { // a class outside the std::exception hierarchy
  int v = 7;
};

static const int kNumTypes = 15;
static const char* kTypeNames[kNumTypes] = {"std::exception", "std::logic_error", "std::invalid_argument", "std::out_of_range", "std::runtime_error",
    "JSON::parse_error", "expectation_failed", "std::bad_alloc", "custom:runtime_error", "custom:std::exception",
    "multi:runtime_error+out_of_range", "vleft:virtual-std::exception", "vdiamond:vleft+vright", "priv:private-runtime_error", "plain-struct"};

template <int I>
struct TypeAt;
template <>
struct TypeAt<0> { using type = std::exception; };
template <>
struct TypeAt<1> { using type = std::logic_error; };
template <>
struct TypeAt<2> { using type = std::invalid_argument; };
template <>
struct TypeAt<3> { using type = std::out_of_range; };
template <>
struct TypeAt<4> { using type = std::runtime_error; };
template <>
struct TypeAt<5> { using type = phosg::JSON::parse_error; };
template <>
struct TypeAt<6> { using type = phosg::expectation_failed; };
template <>
struct TypeAt<7> { using type = std::bad_alloc; };
template <>
struct TypeAt<8> { using type = CustomRuntime; };
template <>
struct TypeAt<9> { using type = CustomException; };
template <>
struct TypeAt<10> { using type = MultiBase; };
template <>
struct TypeAt<11> { using type = VLeft; };
template <>
struct TypeAt<12> { using type = VDiamond; };
template <>
struct TypeAt<13> { using type = PrivRuntime; };
template <>
struct TypeAt<14> { using type = PlainStruct; };

static const char* kInnerFile = "inner-site.cc";
static const uint64_t kInnerLine = 424242;

template <typename T>
[[noreturn]] static void throw_one() {
  if constexpr (std::is_default_constructible_v<T>) throw T();
  else if constexpr (std::is_same_v<T, phosg::expectation_failed>) throw phosg::expectation_failed("inner failure", kInnerFile, kInnerLine);
  else throw T("thrown-by-fn");
}

// behaviours: 0 = returns, 1..kNumTypes = throws TypeAt<b-1>, kNumTypes+1 = throws int
static const int kNumBehaviours = kNumTypes + 2;
static std::string behaviour_name(uint64_t b) {
  if (b == 0) return "returns";
  if (b == kNumTypes + 1) return "throws int";
  return cat("throws ", kTypeNames[b - 1]);
}

struct Cell {
  bool should_pass; // is_convertible<const T*, const E*>
  bool open; // T derives from E, but only through an ambiguous or inaccessible base: no handler for E matches it
  Outcome (*via_macro)(uint64_t where, uint64_t& line, bool& ran);
  Outcome (*via_fn)(uint64_t where, const char* file, uint64_t line, bool& ran);
};

template <typename E, int B>
static void behave(bool& ran) {
  ran = true;
  if constexpr (B == 0) {
    return;
  } else if constexpr (B == kNumTypes + 1) {
    throw 42;
  } else {
    throw_one<typename TypeAt<B - 1>::type>();
  }
}

template <typename E, int B>
static Outcome cell_macro(uint64_t where, uint64_t& line, bool& ran) {
  auto fn = [&]() { behave<E, B>(ran); };
  return observe_in(where, [&] { SITE(expect_raises(E, fn)); });
}
template <typename E, int B>
static Outcome cell_fn(uint64_t where, const char* file, uint64_t line, bool& ran) {
  auto fn = [&]() { behave<E, B>(ran); };
  return observe_in(where, [&] { phosg::expect_raises_fn<E>(file, line, fn); });
}

template <typename E, int B>
static constexpr bool cell_should_pass() {
  if constexpr (B == 0 || B == kNumTypes + 1) {
    return false;
  } else {
    using T = typename TypeAt<B - 1>::type;
    return std::is_convertible_v<const T*, const E*>;
  }
}

template <typename E, int B>
static constexpr bool cell_open() {
  if constexpr (B == 0 || B == kNumTypes + 1) {
    return false;
  } else {
    using T = typename TypeAt<B - 1>::type;
    return std::is_base_of_v<E, T> && !std::is_convertible_v<const T*, const E*>;
  }
}

template <int EI, int B>
static Cell make_cell() {
  using E = typename TypeAt<EI>::type;
  return Cell{cell_should_pass<E, B>(), cell_open<E, B>(), &cell_macro<E, B>, &cell_fn<E, B>};
}

template <int EI, int... Bs>
static void fill_row(Cell* row, std::integer_sequence<int, Bs...>) {
  ((row[Bs] = make_cell<EI, Bs>()), ...);
}
template <int... EIs>
static void fill_table(Cell (*table)[kNumBehaviours], std::integer_sequence<int, EIs...>) {
  (fill_row<EIs>(table[EIs], std::make_integer_sequence<int, kNumBehaviours>{}), ...);
}

static const Cell& cell_at(uint64_t e, uint64_t b) {
  static Cell table[kNumTypes][kNumBehaviours];
  static bool init = false;
  if (!init) {
    fill_table(table, std::make_integer_sequence<int, kNumTypes>{});
    init = true;
  }
  if (e >= static_cast<uint64_t>(kNumTypes) || b >= static_cast<uint64_t>(kNumBehaviours)) throw std::logic_error("cell outside the matrix");
  return table[e][b];
}

// case: n = [E, behaviour, entry, where]  (entry 0 = expect_raises macro, 1 = expect_raises_fn with an explicit site)
static void run_raises(const Case& c) {
  uint64_t e = c.u(0), b = c.u(1), entry = c.u(2), where = where_of(c, 3);
  const Cell& cell = cell_at(e, b);
  bool ran = false;
  uint64_t line = 0;
  const char* file = __FILE__;
  Outcome o;
  if (entry == 0) {
    o = cell.via_macro(where, line, ran);
  } else {
    file = "explicit-site.cc";
    line = 1000 + e * 100 + b;
    o = cell.via_fn(where, file, line, ran);
  }
  std::string cls = cat("E=", kTypeNames[e], ",fn-", (b == 0 ? "returns" : b == kNumTypes + 1 ? "throws-non-std" : cell.should_pass ? "throws-matching" : cell.open ? "throws-derived-unreachable" : "throws-other"), at(where));
  VCHECK(ran, "fn-not-called", "expect_raises<", kTypeNames[e], "> never invoked fn");
  ctx().cls(cat("where:", kWhereNames[where]));
  if (cell.open) {
    // e.g. E = std::exception, thrown type has two std::exception subobjects: "derives from E", yet no handler for E can
    // match it. Either verdict is compatible with the statement; a failure must still be the helper's own.
    ctx().exclude("expect_raises: thrown type derives from E only through an ambiguous or inaccessible base (verdict left open by the statement)");
    if (o.threw) check_failure(o, file, line, "", false, "", cat("raises:", cls));
    return;
  }
  if (cell.should_pass) {
    VCHECK(!o.threw, cat("raises-must-pass:", cls), "expect_raises<", kTypeNames[e], ">(fn that ", behaviour_name(b), ") threw ", (o.is_expectation_failed ? "expectation_failed" : o.other_type), ": ", o.what);
  } else {
    VCHECK(o.threw, cat("raises-must-fail:", cls), "expect_raises<", kTypeNames[e], ">(fn that ", behaviour_name(b), ") returned normally");
    // the failure is the helper's own (call-site file/line), not whatever fn threw
    check_failure(o, file, line, "", false, "", cat("raises:", cls));
    VCHECK(!(o.file == kInnerFile) && o.line != kInnerLine, cat("raises-own-failure:", cls), "the exception thrown by fn escaped instead of the helper's failure");
  }
  // non-trivial: fn returns, or E is a base of expectation_failed (the helper's own failure type can be swallowed), or E / the
  // thrown type is outside the tree-shaped std hierarchy (multiple, virtual, private inheritance, plain class), or the call is
  // made under a non-plain ambient state
  if (b == 0 || e == 0 || e == 1 || e == 6 || e >= 10 || (b >= 11 && b <= static_cast<uint64_t>(kNumTypes)) || where != 0) ctx().nontrivial_case();
  ctx().cls(cell.should_pass ? "raises:must-pass" : (b == 0 ? "raises:fn-returns" : "raises:wrong-type"));
}

static uint64_t gen_where();

// ---------------------------------------------------------------- expect_raises on nested exceptions
//
// The (E, thrown type) matrix above throws plain objects. An exception object may also CARRY another exception:
// std::throw_with_nested(outer) called while `inner` is being handled throws an object of an unspecified type that is
// publicly derived from both the type of `outer` and std::nested_exception ([except.nested]), the latter holding an
// exception_ptr to `inner`. "fn throws an exception whose type is E or derives from it" is about the thrown object: its
// type derives from the OUTER type (and from std::nested_exception), so the verdict for E is decided by the outer type
// alone - whatever is carried inside (a matching type, a non-matching one, an int, nothing at all, another nested
// exception) is not the type of what fn throws. A runtime_error carrying an out_of_range is not an out_of_range.
//   layer  = type (0..14 of TypeAt) + 15 * shape; shape 0 = std::throw_with_nested(T), 1 = throw Wrapped<T> (an own class
//            deriving from T and std::nested_exception, the documented way to build such a type by hand)
//   payload = what is thrown innermost: 0..14 a plain object of TypeAt, 15 an int, 16 nothing (the innermost layer is thrown
//            while no exception of fn's is being handled: its nested pointer is null, or refers to the exception the
//            ambient state has in flight)
//   E      = the 15 types of the matrix above + std::nested_exception (a public base of every such object)
// Oracle: std::is_convertible<const Wrapped<Outer>*, const E*> (Wrapped<T> has exactly the bases [except.nested] promises for
// the unspecified type), confirmed per case by a `catch (const E&)` handler of the harness's own (clause ORACLE-...).
// case: n = [E, payload, entry, where, layer (outermost), layer, ... (innermost)]
template <>
struct TypeAt<kNumTypes> { using type = std::nested_exception; };
static const int kNumNestedExpected = kNumTypes + 1;
static const uint64_t kPayloadInt = kNumTypes, kPayloadNone = kNumTypes + 1, kNumPayloads = kNumTypes + 2;
static const uint64_t kNumLayerCodes = 2 * kNumTypes;
static const size_t kMaxLayers = 4;
static const char* nested_expected_name(uint64_t e) { return e < static_cast<uint64_t>(kNumTypes) ? kTypeNames[e] : "std::nested_exception"; }

template <typename T>
static T make_one() {
  if constexpr (std::is_default_constructible_v<T>) return T();
  else if constexpr (std::is_same_v<T, phosg::expectation_failed>) return phosg::expectation_failed("inner failure", kInnerFile, kInnerLine);
  else return T("thrown-by-fn");
}

template <typename T>
struct Wrapped : T, std::nested_exception { // std::nested_exception's constructor captures std::current_exception()
  explicit Wrapped(const T& t) : T(t) {}
};

template <int CODE>
[[noreturn]] static void wrap_and_throw() {
  using T = typename TypeAt<CODE % kNumTypes>::type;
  if constexpr (CODE / kNumTypes == 0) std::throw_with_nested(make_one<T>());
  else throw Wrapped<T>(make_one<T>());
}
template <int I>
static void throw_plain_at() { throw_one<typename TypeAt<I>::type>(); }

using ThrowFn = void (*)();
template <int... Is>
static void fill_wrappers(ThrowFn* t, std::integer_sequence<int, Is...>) { ((t[Is] = &wrap_and_throw<Is>), ...); }
template <int... Is>
static void fill_plain(ThrowFn* t, std::integer_sequence<int, Is...>) { ((t[Is] = &throw_plain_at<Is>), ...); }

static void throw_payload(uint64_t payload) {
  static ThrowFn table[kNumTypes];
  static bool init = false;
  if (!init) {
    fill_plain(table, std::make_integer_sequence<int, kNumTypes>{});
    init = true;
  }
  if (payload == kPayloadNone) return;
  if (payload == kPayloadInt) throw 42;
  table[payload]();
}
static void throw_layer(uint64_t code) {
  static ThrowFn table[kNumLayerCodes];
  static bool init = false;
  if (!init) {
    fill_wrappers(table, std::make_integer_sequence<int, static_cast<int>(kNumLayerCodes)>{});
    init = true;
  }
  table[code]();
}
// throws layers[0] carrying (layers[1] carrying (... carrying payload))
static void throw_chain(const uint64_t* layers, size_t count, uint64_t payload) {
  if (count == 0) {
    throw_payload(payload);
    return;
  }
  try {
    throw_chain(layers + 1, count - 1, payload);
  } catch (...) {
    throw_layer(layers[0]); // the exception just caught is the one being handled: it becomes the nested one
  }
  throw_layer(layers[0]); // nothing came out of the inner part (payload "nothing")
}

struct NestedRow {
  bool pass_plain[kNumTypes]; // is_convertible<const T*, const E*>: would a plain T match (used to classify what is carried inside)
  bool pass_wrapped[kNumTypes]; // is_convertible<const Wrapped<T>*, const E*>: the verdict when T is the outer type
  bool open_wrapped[kNumTypes]; // derives from E only through an ambiguous / inaccessible base
  Outcome (*via_macro)(uint64_t where, uint64_t& line, const Thunk& fn);
  Outcome (*via_fn)(uint64_t where, const char* file, uint64_t line, const Thunk& fn);
  bool (*handler_matches)(const Thunk& fn);
};

template <typename E>
static Outcome nested_macro(uint64_t where, uint64_t& line, const Thunk& fn) {
  return observe_in(where, [&] { SITE(expect_raises(E, fn)); });
}
template <typename E>
static Outcome nested_fn(uint64_t where, const char* file, uint64_t line, const Thunk& fn) {
  return observe_in(where, [&] { phosg::expect_raises_fn<E>(file, line, fn); });
}
template <typename E>
static bool nested_handler_matches(const Thunk& fn) {
  try {
    fn();
  } catch (const E&) {
    return true;
  } catch (...) {
  }
  return false;
}

template <int EI, int... Ts>
static void fill_nested_row(NestedRow& r, std::integer_sequence<int, Ts...>) {
  using E = typename TypeAt<EI>::type;
  ((r.pass_plain[Ts] = std::is_convertible_v<const typename TypeAt<Ts>::type*, const E*>), ...);
  ((r.pass_wrapped[Ts] = std::is_convertible_v<const Wrapped<typename TypeAt<Ts>::type>*, const E*>), ...);
  ((r.open_wrapped[Ts] = std::is_base_of_v<E, Wrapped<typename TypeAt<Ts>::type>> && !std::is_convertible_v<const Wrapped<typename TypeAt<Ts>::type>*, const E*>), ...);
  r.via_macro = &nested_macro<E>;
  r.via_fn = &nested_fn<E>;
  r.handler_matches = &nested_handler_matches<E>;
}
template <int... EIs>
static void fill_nested_rows(NestedRow* rows, std::integer_sequence<int, EIs...>) {
  (fill_nested_row<EIs>(rows[EIs], std::make_integer_sequence<int, kNumTypes>{}), ...);
}
static const NestedRow& nested_row(uint64_t e) {
  static NestedRow rows[kNumNestedExpected];
  static bool init = false;
  if (!init) {
    fill_nested_rows(rows, std::make_integer_sequence<int, kNumNestedExpected>{});
    init = true;
  }
  if (e >= static_cast<uint64_t>(kNumNestedExpected)) throw std::logic_error("expected type outside the matrix");
  return rows[e];
}

static void run_raises_nested(const Case& c) {
  uint64_t e = c.u(0), payload = c.u(1), entry = c.u(2), where = where_of(c, 3);
  if (c.n.size() < 5 || c.n.size() > 4 + kMaxLayers || payload >= kNumPayloads || entry >= 2) throw std::logic_error("cell outside the matrix");
  std::vector<uint64_t> layers(c.n.begin() + 4, c.n.end());
  for (uint64_t l : layers)
    if (l >= kNumLayerCodes) throw std::logic_error("bad layer code");
  const NestedRow& row = nested_row(e);
  uint64_t outer = layers[0] % kNumTypes;
  bool should_pass = row.pass_wrapped[outer], open = row.open_wrapped[outer];
  // does anything carried inside have a type that would match E if it were the thrown object?
  bool inside_matches = payload < static_cast<uint64_t>(kNumTypes) && row.pass_plain[payload];
  for (size_t i = 1; i < layers.size(); i++) inside_matches = inside_matches || row.pass_wrapped[layers[i] % kNumTypes];

  int calls = 0;
  Thunk fn = [&] {
    calls++;
    throw_chain(layers.data(), layers.size(), payload);
  };
  uint64_t line = 0;
  const char* file = __FILE__;
  Outcome o;
  if (entry == 0) {
    o = row.via_macro(where, line, fn);
  } else {
    file = "explicit-nested-site.cc";
    line = 9000 + e * 100 + layers[0];
    o = row.via_fn(where, file, line, fn);
  }
  const char* en = nested_expected_name(e);
  std::string thrown = cat((layers[0] / kNumTypes == 0 ? "std::throw_with_nested(" : "Wrapped<"), kTypeNames[outer], (layers[0] / kNumTypes == 0 ? ")" : ">"),
      " carrying ", layers.size() > 1 ? cat(layers.size() - 1, " more nested layer(s) around ") : std::string(),
      payload == kPayloadNone ? std::string("nothing") : payload == kPayloadInt ? std::string("an int") : std::string(kTypeNames[payload]));
  std::string cls = cat("E=", en, ",fn-throws-nested:", (should_pass ? "outer-matching" : open ? "outer-derived-unreachable" : "outer-other"),
      (inside_matches ? ",carries-matching" : payload == kPayloadNone ? ",carries-nothing" : ",carries-other"), (layers.size() > 1 ? ",nested-in-nested" : ""), at(where));
  VCHECK(calls >= 1, "fn-not-called", "expect_raises<", en, "> never invoked fn");
  VCHECK(calls == 1, cat("fn-called-again:", cls), "expect_raises invoked fn ", calls, " times");
  ctx().cls(cat("where:", kWhereNames[where]));
  if (open) {
    ctx().exclude("expect_raises: thrown type derives from E only through an ambiguous or inaccessible base (verdict left open by the statement)");
    if (o.threw) check_failure(o, file, line, "", false, "", cat("raises:", cls));
    return;
  }
  // the type std::throw_with_nested really throws is unspecified: confirm the model (bases = outer type + nested_exception)
  bool handler = row.handler_matches([&] { throw_chain(layers.data(), layers.size(), payload); });
  VCHECK(handler == should_pass, cat("ORACLE-handler-disagrees:", cls), "a catch (const ", en, "&) handler ", (handler ? "matches " : "does not match "), thrown, " although the hierarchy says otherwise");
  if (should_pass) {
    VCHECK(!o.threw, cat("raises-must-pass:", cls), "expect_raises<", en, ">(fn that throws ", thrown, ") threw ", (o.is_expectation_failed ? "expectation_failed" : o.other_type), ": ", o.what);
  } else {
    VCHECK(o.threw, cat("raises-must-fail:", cls), "expect_raises<", en, ">(fn that throws ", thrown, ") returned normally: the thrown object's type neither is nor derives from ", en);
    check_failure(o, file, line, "", false, "", cat("raises:", cls));
    VCHECK(!(o.file == kInnerFile) && o.line != kInnerLine, cat("raises-own-failure:", cls), "an exception thrown by fn escaped instead of the helper's failure");
  }
  // non-trivial: what is carried inside would give the other verdict, or nothing is carried (null / ambient nested pointer), or E is a
  // base of expectation_failed or outside the tree-shaped hierarchy (std::nested_exception included), or the ambient state is not plain
  if (inside_matches != should_pass || payload == kPayloadNone || e == 0 || e == 1 || e == 6 || e >= 10 || outer >= 10 || where != 0) ctx().nontrivial_case();
  ctx().cls(cat("raises_nested:", should_pass ? "must-pass" : "must-fail", inside_matches ? ",carries-matching" : ",carries-other"));
  ctx().cls(cat("raises_nested:layers=", layers.size()));
}

static void enum_raises_nested(Enum& en) {
  uint64_t idx = 0;
  // one layer: complete
  for (uint64_t e = 0; e < static_cast<uint64_t>(kNumNestedExpected); e++)
    for (uint64_t l0 = 0; l0 < kNumLayerCodes; l0++) {
      if (!en.mine(idx++)) continue;
      for (uint64_t p = 0; p < kNumPayloads && !en.stop; p++)
        for (uint64_t entry = 0; entry < 2; entry++)
          for (uint64_t w = 0; w < kNumWhere; w++) en.exec(Case("raises_nested").N(e).N(p).N(entry).N(w).N(l0));
    }
  // nested-in-nested: every outer layer x every std::throw_with_nested middle layer x a payload of each kind
  // (out_of_range, runtime_error, nothing)
  static const uint64_t kPayloads2[] = {3, 4, kPayloadNone};
  for (uint64_t e = 0; e < static_cast<uint64_t>(kNumNestedExpected) && !en.stop; e++)
    for (uint64_t l0 = 0; l0 < kNumLayerCodes; l0++) {
      if (!en.mine(idx++)) continue;
      for (uint64_t l1 = 0; l1 < static_cast<uint64_t>(kNumTypes) && !en.stop; l1++)
        for (uint64_t p : kPayloads2)
          for (uint64_t entry = 0; entry < 2; entry++)
            for (uint64_t w = 0; w < kNumWhere; w++) en.exec(Case("raises_nested").N(e).N(p).N(entry).N(w).N(l0).N(l1));
    }
  en.complete("16 expected types (the 15 of `raises` + std::nested_exception) x outer layer {std::throw_with_nested(T), own class deriving from T and "
              "std::nested_exception} x 15 outer types x carried exception {each of the 15 types, an int, nothing} x {macro, expect_raises_fn} x 5 ambient states; "
              "nested-in-nested: the same outer layers x a std::throw_with_nested middle layer of each of the 15 types x carried {out_of_range, "
              "runtime_error, nothing} x 2 entry points x 5 ambient states");
}

static Case gen_raises_nested() {
  uint64_t e = vg::below(kNumNestedExpected);
  uint64_t payload = vg::below(kNumPayloads);
  size_t count = 1 + vg::below(kMaxLayers);
  std::vector<uint64_t> layers;
  for (size_t i = 0; i < count; i++) layers.push_back(vg::below(kNumLayerCodes));
  // in half of the cases something carried inside is exactly E (the verdict must still follow the outer type)
  if (e < static_cast<uint64_t>(kNumTypes) && vg::coin()) {
    uint64_t pos = vg::below(count); // 0 = the payload, i = layer i
    if (pos == 0) payload = e;
    else layers[pos] = e + kNumTypes * vg::below(2);
  }
  Case c("raises_nested");
  c.N(e).N(payload).N(vg::below(2)).N(gen_where());
  for (uint64_t l : layers) c.N(l);
  return c;
}

// ---------------------------------------------------------------- expect_raises across translation units
//
// The matrix above draws E and the thrown type from one translation unit, where every type has its own name. Types with
// internal linkage (unnamed namespace, class local to such a function) exist once per translation unit: this file and
// harness/c19/other_tu.cc both include c19/tu_local.hh and so each own a ParseError, ParseDetail, NotFound, LocalError and
// InFunction - same spelling, same mangled name, unrelated types. "fn throws an exception whose type is E or derives from
// it" is about the type: expect_raises<this file's ParseError> must fail when fn throws the other file's ParseError.
// Oracle: for an E that is a standard base (shared by both files) std::is_convertible as computed in the throwing file;
// for a file-local E: same file AND std::is_convertible computed in that file.
// case: n = [side of E (0 this file, 1 other), E kind, side of fn, thrown kind (kNumLocalThrown = returns), entry, where]
static const C19TuApi& tu_api(uint64_t side) {
  static const C19TuApi apis[2] = {local_api(), c19_other_tu_api()};
  if (side >= 2) throw std::logic_error("bad translation-unit code");
  return apis[side];
}

static void run_raises_tu(const Case& c) {
  uint64_t es = c.u(0), e = c.u(1), ts = c.u(2), k = c.u(3), entry = c.u(4), where = where_of(c, 5);
  if (e >= static_cast<uint64_t>(kNumLocalExpected) || k > static_cast<uint64_t>(kNumLocalThrown) || entry >= 2) throw std::logic_error("cell outside the matrix");
  const C19TuApi& ea = tu_api(es);
  const C19TuApi& ta = tu_api(ts);
  bool returns = (k == static_cast<uint64_t>(kNumLocalThrown));
  bool local_e = e < static_cast<uint64_t>(kFirstSharedExpected);
  bool should_pass = !returns && ta.convertible(static_cast<int>(k), static_cast<int>(e)) && (!local_e || es == ts);
  int calls = 0;
  std::function<void()> fn = [&] {
    calls++;
    if (!returns) ta.throw_kind(static_cast<int>(k));
  };
  const char* file = "explicit-tu-site.cc";
  uint64_t line = 5000 + es * 1000 + e * 100 + ts * 10 + k;
  Outcome o = observe_in(where, [&] { ea.expect_kind(static_cast<int>(e), static_cast<int>(entry), fn, file, line); });
  bool same_name = !returns && local_e && std::string(ta.thrown_type_name(static_cast<int>(k))) == ea.expected_type_name(static_cast<int>(e));
  // The toolchain's own verdict on the same throw (a catch (const E&) written in E's translation unit). Some toolchains
  // (clang with libstdc++: type_info names of internal-linkage types are compared as strings) match a file-local type
  // of another translation unit that has the same name; a helper built from catch clauses cannot do better there, so such
  // a cell is left open under that toolchain (counted as excluded; oracle/c19_two_tu.py decides it with g++).
  bool toolchain_matches = !returns && ea.handler_matches(static_cast<int>(e), [&] { ta.throw_kind(static_cast<int>(k)); });
  bool toolchain_conflates = toolchain_matches && !should_pass && local_e && es != ts && ta.convertible(static_cast<int>(k), static_cast<int>(e)); // would match within one file
  std::string cls = cat("E=", (local_e ? (es == 0 ? "this-file:" : "other-file:") : ""), kLocalExpectedNames[e], ",fn-",
      (returns ? "returns" : should_pass ? "throws-matching" : (es != ts && same_name) ? "throws-same-name-from-other-file" : es != ts ? "throws-other-from-other-file" : "throws-other"), at(where));
  VCHECK(calls >= 1, "fn-not-called", "expect_raises never invoked fn");
  VCHECK(calls == 1, cat("fn-called-again:", cls), "expect_raises invoked fn ", calls, " times");
  if (!returns) VCHECK(toolchain_matches == should_pass || toolchain_conflates, cat("ORACLE-handler-disagrees:", cls), "a catch (const E&) handler ", (toolchain_matches ? "matches" : "does not match"), " although the hierarchy says otherwise");
  if (toolchain_conflates) {
    ctx().exclude("expect_raises: this toolchain's catch (const E&) matches a file-local type of another translation unit by name (verdict decided by the g++ build in c19_two_tu)");
    if (o.threw) check_failure(o, file, line, "", false, "", cat("raises:", cls));
    return;
  }
  if (should_pass) {
    VCHECK(!o.threw, cat("raises-must-pass:", cls), "expect_raises<", kLocalExpectedNames[e], "> (fn throws ", kLocalThrownNames[k], ") threw ", (o.is_expectation_failed ? "expectation_failed" : o.other_type), ": ", o.what);
  } else {
    VCHECK(o.threw, cat("raises-must-fail:", cls), "expect_raises<", kLocalExpectedNames[e], " of translation unit ", es, "> (fn ", (returns ? "returns" : cat("throws ", kLocalThrownNames[k], " of translation unit ", ts)), ") returned normally");
    check_failure(o, file, line, "", false, "", cat("raises:", cls));
  }
  ctx().cls(cat("where:", kWhereNames[where]));
  ctx().cls(should_pass ? "raises_tu:must-pass" : returns ? "raises_tu:fn-returns" : (es != ts && same_name) ? "raises_tu:same-name-other-file" : "raises_tu:wrong-type");
  // non-trivial: E is file-local (its identity, not its name, decides), or the thrown object comes from the other file
  if (local_e || es != ts) ctx().nontrivial_case();
}

static void enum_raises_tu(Enum& en) {
  uint64_t idx = 0;
  for (uint64_t es = 0; es < 2; es++)
    for (uint64_t e = 0; e < static_cast<uint64_t>(kNumLocalExpected); e++)
      for (uint64_t ts = 0; ts < 2; ts++)
        for (uint64_t k = 0; k <= static_cast<uint64_t>(kNumLocalThrown); k++)
          for (uint64_t entry = 0; entry < 2; entry++)
            for (uint64_t w = 0; w < kNumWhere; w++)
              if (en.mine(idx++)) en.exec(Case("raises_tu").N(es).N(e).N(ts).N(k).N(entry).N(w));
  en.complete("2 translation units x 9 expected types (5 file-local, 4 standard bases) x 2 translation units x {throws each of the 5 file-local types, returns} x {macro, expect_raises_fn} x 5 ambient states");
}

// ---------------------------------------------------------------- every operand is evaluated exactly once
//
// "Throws exactly when the stated relation is false ... and does nothing otherwise": the relation is the one between the
// values the operand expressions yield at the call, so each operand expression is evaluated once, whether the expectation
// holds or fails - expect_eq(n++, 1), expect_eq(queue.pop(), 8), expect(toggle()) - and the verdict is the relation on
// those (first) values. Operands here are expressions with a side effect: a source that counts its evaluations and yields
// v0 the first time, v1 afterwards. The message expression of expect_msg may be evaluated at most once; the function of
// expect_raises is called once and the verdict follows that call.
// case: n = [helper (0..7 as in rel_*, 8 = expect_raises), type (0 int64, 1 string), a0, a1, b0, b1, where]
template <typename T>
struct Source {
  T v0, v1;
  int count = 0;
  const T& next() { return count++ == 0 ? v0 : v1; }
};
struct MessageSource {
  int count = 0;
  const char* get(const char* m) {
    count++;
    return m;
  }
};

template <typename T, typename TruthFn>
static void run_once_t(uint64_t rel, Source<T> a, Source<T> b, TruthFn truth, const char* tn, uint64_t where) {
  uint64_t line = 0;
  bool expected = false;
  std::string msg;
  MessageSource m;
  Outcome o;
  switch (rel) {
    case 0:
      expected = (a.v0 == b.v0);
      o = observe_in(where, [&] { SITE(expect_eq(a.next(), b.next())); }, true);
      msg = "a.next() != b.next()";
      break;
    case 1:
      expected = (a.v0 != b.v0);
      o = observe_in(where, [&] { SITE(expect_ne(a.next(), b.next())); }, true);
      msg = "a.next() == b.next()";
      break;
    case 2:
      expected = (a.v0 > b.v0);
      o = observe_in(where, [&] { SITE(expect_gt(a.next(), b.next())); }, true);
      msg = "a.next() <= b.next()";
      break;
    case 3:
      expected = (a.v0 >= b.v0);
      o = observe_in(where, [&] { SITE(expect_ge(a.next(), b.next())); }, true);
      msg = "a.next() < b.next()";
      break;
    case 4:
      expected = (a.v0 < b.v0);
      o = observe_in(where, [&] { SITE(expect_lt(a.next(), b.next())); }, true);
      msg = "a.next() >= b.next()";
      break;
    case 5:
      expected = (a.v0 <= b.v0);
      o = observe_in(where, [&] { SITE(expect_le(a.next(), b.next())); }, true);
      msg = "a.next() > b.next()";
      break;
    case 6:
      expected = truth(a.v0);
      o = observe_in(where, [&] { SITE(expect(truth(a.next()))); }, true);
      msg = "!(truth(a.next()))";
      break;
    case 7:
      expected = truth(a.v0);
      o = observe_in(where, [&] { SITE(expect_msg(truth(a.next()), m.get("once message 9d1e"))); }, true);
      msg = "once message 9d1e";
      break;
    default:
      throw std::logic_error("bad relation code");
  }
  std::string cls = cat(kRelNames[rel], ":", tn, at(where));
  bool left_changes = !(a.v0 == a.v1), right_changes = rel < 6 && !(b.v0 == b.v1);
  std::string ocls = cat(cls, (left_changes || right_changes) ? ",operand-changes-on-re-evaluation" : ",operand-with-side-effect");
  if (expected) {
    check_success(o, ocls);
  } else {
    check_failure(o, __FILE__, line, msg, true, msg, ocls, rel != 7);
  }
  VCHECK(a.count == 1, cat("operand-evaluations:", cls, expected ? ",holds" : ",fails"), "the left operand expression was evaluated ", a.count, " times");
  if (rel < 6) VCHECK(b.count == 1, cat("operand-evaluations:", cls, expected ? ",holds" : ",fails"), "the right operand expression was evaluated ", b.count, " times");
  if (rel == 7) VCHECK(m.count <= 1, cat("message-evaluations:", cls, expected ? ",holds" : ",fails"), "the message expression was evaluated ", m.count, " times");
  ctx().cls(cat("once:", kRelNames[rel], expected ? ":holds" : ":fails"));
  ctx().cls((left_changes || right_changes) ? "once:value-changes" : "once:same-value");
  ctx().cls(cat("where:", kWhereNames[where]));
}

// expect_raises on a function with state: behaviour b0 at the first call, b1 at later ones (0 returns, 1 throws
// std::runtime_error, 2 throws std::logic_error, 3 throws int); E = std::runtime_error
static void run_once_raises(uint64_t b0, uint64_t b1, uint64_t entry, uint64_t where) {
  if (b0 > 3 || b1 > 3 || entry > 1) throw std::logic_error("bad behaviour code");
  int calls = 0;
  auto fn = [&] {
    uint64_t b = calls++ == 0 ? b0 : b1;
    if (b == 1) throw std::runtime_error("stateful fn: runtime_error");
    if (b == 2) throw std::logic_error("stateful fn: logic_error");
    if (b == 3) throw 7;
  };
  uint64_t line = 0;
  const char* file = __FILE__;
  Outcome o;
  if (entry == 0) {
    o = observe_in(where, [&] { SITE(expect_raises(std::runtime_error, fn)); });
  } else {
    file = "explicit-once-site.cc";
    line = 7000 + b0 * 10 + b1;
    o = observe_in(where, [&] { phosg::expect_raises_fn<std::runtime_error>(file, line, fn); });
  }
  std::string cls = cat("expect_raises:stateful-fn", at(where));
  if (b0 == 1) {
    check_success(o, cls);
  } else {
    check_failure(o, file, line, "", false, "", cls);
  }
  VCHECK(calls == 1, cat("operand-evaluations:", cls), "fn was called ", calls, " times");
  ctx().cls(b0 == 1 ? "once:expect_raises:holds" : "once:expect_raises:fails");
  ctx().cls(cat("where:", kWhereNames[where]));
}

static std::string once_string(uint64_t v) { return std::string(v % 6, 'a'); }

static void run_once(const Case& c) {
  uint64_t rel = c.u(0), type = c.u(1), where = where_of(c, 6);
  if (rel == 8) {
    run_once_raises(c.u(2), c.u(3), c.u(4), where);
  } else if (type == 0) {
    run_once_t<int64_t>(rel, Source<int64_t>{c.i(2), c.i(3)}, Source<int64_t>{c.i(4), c.i(5)}, [](int64_t v) { return v != 0; }, "int64", where);
  } else if (type == 1) {
    run_once_t<std::string>(rel, Source<std::string>{once_string(c.u(2)), once_string(c.u(3))}, Source<std::string>{once_string(c.u(4)), once_string(c.u(5))},
        [](const std::string& v) { return !v.empty(); }, "string", where);
  } else {
    throw std::logic_error("bad type code");
  }
  ctx().nontrivial_case();
}

static void enum_once(Enum& e) {
  uint64_t idx = 0;
  for (uint64_t rel = 0; rel < 8; rel++)
    for (uint64_t type = 0; type < 2; type++)
      for (uint64_t a0 = 0; a0 < 3; a0++)
        for (uint64_t a1 = 0; a1 < 3; a1++)
          for (uint64_t b0 = 0; b0 < 3; b0++)
            for (uint64_t b1 = 0; b1 < 3; b1++)
              for (uint64_t w = 0; w < kNumWhere; w++)
                if (e.mine(idx++)) e.exec(Case("once").N(rel).N(type).N(a0).N(a1).N(b0).N(b1).N(w));
  for (uint64_t b0 = 0; b0 < 4; b0++)
    for (uint64_t b1 = 0; b1 < 4; b1++)
      for (uint64_t entry = 0; entry < 2; entry++)
        for (uint64_t w = 0; w < kNumWhere; w++)
          if (e.mine(idx++)) e.exec(Case("once").N(8).N(0).N(b0).N(b1).N(entry).N(0).N(w));
  e.complete("8 helpers x {int64, string} x operand sources (first value, later value) over {0,1,2}^2 for each side x 5 ambient states; expect_raises x 4 x 4 behaviours of a stateful fn (first call, later calls) x 2 entry points x 5 ambient states");
}

static Case gen_once() {
  uint64_t rel = vg::below(9);
  if (rel == 8) return Case("once").N(8).N(0).N(vg::below(4)).N(vg::below(4)).N(vg::below(2)).N(0).N(gen_where());
  uint64_t type = vg::below(2);
  int64_t a0 = static_cast<int64_t>(vg::interesting64());
  if (rel >= 6 && vg::coin()) a0 = 0;
  int64_t b0;
  switch (vg::below(4)) {
    case 0: b0 = a0; break;
    case 1: b0 = static_cast<int64_t>(static_cast<uint64_t>(a0) + 1); break;
    case 2: b0 = static_cast<int64_t>(static_cast<uint64_t>(a0) - 1); break;
    default: b0 = static_cast<int64_t>(vg::interesting64()); break;
  }
  // the value a re-evaluation would see: the same, the neighbours (n++ / pop), the other side's value, zero, anything
  auto later = [&](int64_t own, int64_t other) -> int64_t {
    switch (vg::below(6)) {
      case 0: return own;
      case 1: return static_cast<int64_t>(static_cast<uint64_t>(own) + 1);
      case 2: return static_cast<int64_t>(static_cast<uint64_t>(own) - 1);
      case 3: return other;
      case 4: return own == 0 ? 1 : 0;
      default: return static_cast<int64_t>(vg::interesting64());
    }
  };
  int64_t a1 = later(a0, b0), b1 = later(b0, a0);
  return Case("once").N(rel).N(type).I(a0).I(a1).I(b0).I(b1).N(gen_where());
}

// ---------------------------------------------------------------- enumerators and generators

static const std::vector<int64_t> kInts = {INT64_MIN, -1, 0, 1, INT64_MAX};
static const std::vector<std::string> kStrs = {"", "a", "b", "aa"};
static std::vector<double> dbls() { return {-INFINITY, -0.0, 0.0, 1.5, INFINITY, NAN}; }

static void enum_rel_int(Enum& e) {
  uint64_t idx = 0;
  for (uint64_t rel = 0; rel < 8; rel++)
    for (int64_t a : kInts)
      for (int64_t b : kInts)
        for (uint64_t w = 0; w < kNumWhere; w++)
          if (e.mine(idx++)) e.exec(Case("rel_int").N(rel).I(a).I(b).N(w));
  e.complete("8 helpers (expect_eq/ne/gt/ge/lt/le, expect, expect_msg) x all pairs over {INT64_MIN,-1,0,1,INT64_MAX} x 5 ambient states");
}
static void enum_rel_dbl(Enum& e) {
  uint64_t idx = 0;
  for (uint64_t rel = 0; rel < 8; rel++)
    for (double a : dbls())
      for (double b : dbls())
        for (uint64_t w = 0; w < kNumWhere; w++)
          if (e.mine(idx++)) e.exec(Case("rel_dbl").N(rel).D(a).D(b).N(w));
  e.complete("8 helpers x all pairs over {-inf,-0.0,0.0,1.5,inf,NaN} x 5 ambient states");
}
static void enum_rel_str(Enum& e) {
  uint64_t idx = 0;
  for (uint64_t rel = 0; rel < 8; rel++)
    for (const auto& a : kStrs)
      for (const auto& b : kStrs)
        for (uint64_t w = 0; w < kNumWhere; w++)
          if (e.mine(idx++)) e.exec(Case("rel_str").N(rel).N(w).S(a).S(b));
  e.complete("8 helpers x all pairs over {\"\",\"a\",\"b\",\"aa\"} x 5 ambient states");
}
static void enum_raises(Enum& e) {
  uint64_t idx = 0;
  for (uint64_t E = 0; E < static_cast<uint64_t>(kNumTypes); E++)
    for (uint64_t b = 0; b < static_cast<uint64_t>(kNumBehaviours); b++)
      for (uint64_t entry = 0; entry < 2; entry++)
        for (uint64_t w = 0; w < kNumWhere; w++)
          if (e.mine(idx++)) e.exec(Case("raises").N(E).N(b).N(entry).N(w));
  e.complete("15 expected types x {fn returns, throws each of the 15 types, throws int} x {expect_raises macro, expect_raises_fn} = 510 cells x 5 ambient states");
}

// bit patterns that matter for some type: integer widths, and float / double encodings of 0.5, epsilon, NaN, inf, smallest (sub)normal
static const std::vector<uint64_t> kTruthLo = {0, 1, 0x80, 0x100, 0x8000, 0x10000, 0x80000000ull, 0x100000000ull, 0x8000000000000000ull, ~0ull,
    0x3F000000ull, 0xBF000000ull, 0x34000000ull, 0x7FC00000ull, 0x7F800000ull, 0x00800000ull, 0x3F7FFFFFull,
    0x3FE0000000000000ull, 0xBFE0000000000000ull, 0x3CB0000000000000ull, 0x7FF8000000000000ull, 0x7FF0000000000000ull, 0x0010000000000000ull, 0x3FEFFFFFFFFFFFFFull};
// high half of the 128-bit types / binary exponent of long double
static const std::vector<uint64_t> kTruthHi = {0, 1, 0x8000000000000000ull, ~0ull, static_cast<uint64_t>(-64), static_cast<uint64_t>(-16445), static_cast<uint64_t>(-16446 - 64), 16383};

static void enum_truth(Enum& e) {
  uint64_t idx = 0;
  for (uint64_t helper = 0; helper < 2; helper++)
    for (uint64_t type = 0; type < kNumTruthTypes; type++)
      for (uint64_t lo : kTruthLo)
        for (uint64_t hi : kTruthHi)
          for (uint64_t w = 0; w < kNumWhere; w++)
            if (e.mine(idx++)) e.exec(Case("truth").N(helper).N(type).N(lo).N(hi).N(w));
  e.complete("expect / expect_msg x 15 predicate types x 24 low-word x 8 high-word bit patterns x 5 ambient states");
}

// the ambient state of a generated case: half plain, the rest spread over the other four
static uint64_t gen_where() {
  uint64_t r = vg::below(16);
  if (r < 8) return 0;
  if (r < 12) return 1;
  if (r < 14) return 2;
  return r == 14 ? 3 : 4;
}

static Case gen_truth() {
  uint64_t helper = vg::below(2);
  uint64_t type = vg::below(kNumTruthTypes);
  uint64_t lo = 0, hi = 0;
  if (type == 11 || type == 12) {
    // float / double: arbitrary bit patterns, small dyadic fractions scaled down to the subnormal range, specials
    bool is_float = (type == 11);
    switch (vg::below(4)) {
      case 0: lo = vg::u64(); break;
      case 1: lo = is_float ? vg::pick<uint64_t>({0, 0x80000000ull, 1, 0x7FC00000ull, 0x7F800000ull, 0xFF800000ull, 0x00800000ull, 0x007FFFFFull, 0x3F800000ull})
                            : vg::pick<uint64_t>({0, 0x8000000000000000ull, 1, 0x7FF8000000000000ull, 0x7FF0000000000000ull, 0xFFF0000000000000ull, 0x0010000000000000ull, 0x000FFFFFFFFFFFFFull, 0x3FF0000000000000ull});
        break;
      default: {
        int64_t num = vg::range(-1024, 1024);
        int down = static_cast<int>(vg::below(is_float ? 160 : 1100));
        if (is_float) {
          float v = ldexpf(static_cast<float>(num), -10 - down);
          uint32_t b;
          memcpy(&b, &v, 4);
          lo = b;
        } else {
          double v = ldexp(static_cast<double>(num), -10 - down);
          memcpy(&lo, &v, 8);
        }
        break;
      }
    }
  } else if (type == 13) {
    lo = vg::coin() ? static_cast<uint64_t>(vg::range(-1024, 1024)) : vg::interesting64();
    hi = static_cast<uint64_t>(vg::coin() ? vg::range(-80, 80) : vg::range(-16600, 16500));
  } else {
    // integers: zero, boundary values, arbitrary, and values whose low 8/16/32/48/63 bits are all zero
    switch (vg::below(5)) {
      case 0: lo = 0; break;
      case 1: lo = vg::interesting64(); break;
      case 2: lo = vg::u64(); break;
      default: lo = (vg::u64() | 1) << vg::pick<unsigned>({8, 16, 32, 48, 63}); break;
    }
    switch (vg::below(4)) {
      case 0: hi = 0; break;
      case 1: hi = vg::interesting64(); break;
      case 2: hi = vg::u64(); break;
      default: hi = 1ull << vg::below(64); break;
    }
    if (vg::chance(1, 4)) lo = 0; // only the high word decides (128-bit types)
  }
  return Case("truth").N(helper).N(type).N(lo).N(hi).N(gen_where());
}

static Case gen_rel_int() {
  uint64_t rel = vg::below(8);
  int64_t a = static_cast<int64_t>(vg::interesting64());
  if (rel >= 6 && vg::coin()) a = 0; // the truthiness helpers fail only on zero
  int64_t b;
  switch (vg::below(4)) {
    case 0: b = a; break;
    case 1: b = static_cast<int64_t>(static_cast<uint64_t>(a) + 1); break; // wraps at INT64_MAX: still a valid pair
    case 2: b = static_cast<int64_t>(static_cast<uint64_t>(a) - 1); break;
    default: b = static_cast<int64_t>(vg::interesting64()); break;
  }
  return Case("rel_int").N(rel).I(a).I(b).N(gen_where());
}
static Case gen_rel_dbl() {
  uint64_t rel = vg::below(8);
  auto one = [&]() -> double {
    switch (vg::below(4)) {
      case 0: return vg::pick<double>({-INFINITY, -0.0, 0.0, 1.5, INFINITY, NAN, 1e-320, -1e308, 4.9e-324});
      case 1: return static_cast<double>(vg::range(-5, 5)) / 2.0;
      default: {
        uint64_t b = vg::u64();
        double v;
        memcpy(&v, &b, 8);
        return v;
      }
    }
  };
  double a = one();
  double b = vg::chance(1, 3) ? a : one();
  return Case("rel_dbl").N(rel).D(a).D(b).N(gen_where());
}
static Case gen_rel_str() {
  uint64_t rel = vg::below(8);
  std::string a = vg::bytes_from(std::string("ab\0\xff", 4), vg::below(5));
  std::string b;
  switch (vg::below(3)) {
    case 0: b = a; break;
    case 1: b = a + vg::bytes_from("ab", 1); break;
    default: b = vg::bytes_from(std::string("ab\0\xff", 4), vg::below(5)); break;
  }
  return Case("rel_str").N(rel).N(gen_where()).S(a).S(b);
}


// ---------------------------------------------------------------- failures stay intact while later ones are raised
//
// A test runner may collect failures and report them later: the file / line / message an expectation_failed
// carries must still be those of ITS call site after other expectations have failed. case: n = [step...], each step
// = kind + 11 * where: one failing helper call (kind 0..5 relation macros on ints, 6 expect, 7..9 expect_msg with one
// of three literals, 10 expect_raises on a function that returns) made under ambient state `where` (see in_context);
// every exception is kept (by copy) and all kept ones are re-verified after each new failure and once more at the end.
struct Kept {
  phosg::expectation_failed e;
  std::string msg; // expected message literal ("" = do not read msg: built at run time)
  uint64_t line;
  std::string what_part;
};

static void run_retain(const Case& c) {
  std::vector<Kept> kept;
  auto verify_all = [&](size_t after) {
    for (size_t i = 0; i < kept.size(); i++) {
      const Kept& k = kept[i];
      VCHECK(k.e.file != nullptr && std::string(k.e.file) == __FILE__, "retained-file", "failure #", i, " lost its file after failure #", after);
      VCHECK(k.e.line == k.line, "retained-line", "failure #", i, " has line ", k.e.line, " expected ", k.line, " after failure #", after);
      std::string w = k.e.what();
      VCHECK(w.find(cat(__FILE__, ":", k.line)) != std::string::npos, "retained-what", "what() of failure #", i, " is '", w, "' after failure #", after);
      if (!k.what_part.empty()) VCHECK(w.find(k.what_part) != std::string::npos, "retained-what-message", "what() of failure #", i, " is '", w, "', lacks '", k.what_part, "'");
      if (!k.msg.empty()) {
        VCHECK(k.e.msg != nullptr && k.msg == k.e.msg, "retained-msg", "msg of failure #", i, " reads '", (k.e.msg ? std::string(k.e.msg).substr(0, 80) : std::string("(null)")), "' expected '", k.msg, "' after failure #", after);
      }
    }
  };
  for (size_t idx = 0; idx < c.n.size(); idx++) {
    uint64_t kind = c.u(idx) % 11;
    uint64_t where = (c.u(idx) / 11) % kNumWhere;
    uint64_t line = 0;
    std::string msg, what_part;
    int64_t a = 1, b = 2; // operands are always named a and b: the macros stringify them into the message
    if (kind == 1) b = 1;
    if (kind == 4 || kind == 5) {
      a = 2;
      b = 1;
    }
    bool caught = false;
    auto step = [&] {
    try {
      switch (kind) {
        case 0: SITE(expect_eq(a, b)); msg = kRelMsg[0]; break;
        case 1: SITE(expect_ne(a, b)); msg = kRelMsg[1]; break;
        case 2: SITE(expect_gt(a, b)); msg = kRelMsg[2]; break;
        case 3: SITE(expect_ge(a, b)); msg = kRelMsg[3]; break;
        case 4: SITE(expect_lt(a, b)); msg = kRelMsg[4]; break;
        case 5: SITE(expect_le(a, b)); msg = kRelMsg[5]; break;
        case 6: SITE(expect(a == b)); msg = "!(a == b)"; break;
        case 7: SITE(expect_msg(a == b, "first retained literal")); msg = "first retained literal"; break;
        case 8: SITE(expect_msg(a == b, "second, rather longer retained literal 0123456789 0123456789")); msg = "second, rather longer retained literal 0123456789 0123456789"; break;
        case 9: SITE(expect_msg(a == b, "3rd")); msg = "3rd"; break;
        default: {
          auto returns = []() {};
          SITE(expect_raises(std::runtime_error, returns));
          msg = ""; // built at run time by the helper: only what() is inspected
          break;
        }
      }
    } catch (const phosg::expectation_failed& e) {
      caught = true;
      // the messages recorded above are assigned after the throwing statement; set them here
      switch (kind) {
        case 0: case 1: case 2: case 3: case 4: case 5: msg = kRelMsg[kind]; break;
        case 6: msg = "!(a == b)"; break;
        case 7: msg = "first retained literal"; break;
        case 8: msg = "second, rather longer retained literal 0123456789 0123456789"; break;
        case 9: msg = "3rd"; break;
        default: msg = ""; break;
      }
      // the wording of a macro-made message is not judged: what the failure says when it is caught is what it must keep saying
      if (kind <= 6) msg = e.msg ? std::string(e.msg) : std::string();
      what_part = msg;
      kept.push_back(Kept{e, msg, line, what_part});
    } catch (...) {
      // anything else: not kept, reported below as "did not throw expectation_failed" (nothing may leave `step`)
    }
    };
    in_context(where, step);
    VCHECK(caught, cat("retained-must-fail", at(where)), "helper kind ", kind, " did not throw expectation_failed");
    verify_all(idx);
  }
  verify_all(c.n.size());
  if (c.n.size() >= 2) ctx().nontrivial_case();
}

static Case gen_retain() {
  Case c("retain");
  uint64_t len = 1 + vg::below(8);
  for (uint64_t i = 0; i < len; i++) c.N(vg::below(11) + 11 * gen_where());
  return c;
}

static void enum_retain(Enum& e) {
  // every sequence of 1..3 failing helper calls over the 11 kinds
  uint64_t idx = 0;
  for (uint64_t len = 1; len <= 3 && !e.stop; len++) {
    uint64_t total = 1;
    for (uint64_t k = 0; k < len; k++) total *= 11;
    for (uint64_t code = 0; code < total && !e.stop; code++, idx++) {
      if (!e.mine(idx)) continue;
      Case c("retain");
      uint64_t t = code;
      for (uint64_t k = 0; k < len; k++) {
        c.N(t % 11);
        t /= 11;
      }
      e.exec(c);
    }
  }
  // every sequence of 1..2 steps over 11 kinds x 5 ambient states
  const uint64_t kSteps = 11 * kNumWhere;
  for (uint64_t len = 1; len <= 2 && !e.stop; len++) {
    uint64_t total = len == 1 ? kSteps : kSteps * kSteps;
    for (uint64_t code = 0; code < total && !e.stop; code++, idx++) {
      if (!e.mine(idx)) continue;
      Case c("retain");
      uint64_t t = code;
      for (uint64_t k = 0; k < len; k++) {
        c.N(t % kSteps);
        t /= kSteps;
      }
      e.exec(c);
    }
  }
  e.complete("every sequence of 1..3 failing helper calls over 11 helper kinds (plain), and every sequence of 1..2 over 11 kinds x 5 ambient states; all exceptions retained and re-verified after each later failure");
}

int main(int argc, char** argv) {
  std::vector<SubCheck> checks;
  checks.push_back({"raises", run_raises, nullptr, 0, 0, 100, enum_raises});
  checks.push_back({"raises_tu", run_raises_tu, nullptr, 0, 0, 100, enum_raises_tu});
  checks.push_back({"raises_nested", run_raises_nested, gen_raises_nested, 40000, 400000, 100, enum_raises_nested});
  checks.push_back({"once", run_once, gen_once, 80000, 400000, 100, enum_once});
  checks.push_back({"rel_int", run_rel_int, gen_rel_int, 160000, 800000, 100, enum_rel_int});
  checks.push_back({"rel_dbl", run_rel_dbl, gen_rel_dbl, 160000, 800000, 100, enum_rel_dbl});
  checks.push_back({"rel_str", run_rel_str, gen_rel_str, 160000, 800000, 100, enum_rel_str});
  checks.push_back({"retain", run_retain, gen_retain, 40000, 200000, 100, enum_retain});
  checks.push_back({"truth", run_truth, gen_truth, 200000, 800000, 100, enum_truth});
  return main_(argc, argv, checks);
}
