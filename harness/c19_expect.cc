// C19 - the unit-test expectation helpers are a sound and complete oracle.
//
// Two finite matrices (enumerated completely) plus random operand pairs for the relation macros:
//   rel_int / rel_str / rel_dbl : relation {eq,ne,gt,ge,lt,le,expect,expect_msg} x operand pair
//   raises                      : expected type E (10) x behaviour of fn (returns, throws each of the 10 types,
//                                 throws int) x entry point (expect_raises macro / expect_raises_fn directly)
// Oracle: the native C++ relation on the same operands, and std::is_convertible<const T*, const E*> (a compile
// time fact about the hierarchy, independent of the catch ladder under test).
#include <math.h>

#include <new>
#include <type_traits>

#include <phosg/JSON.hh>
#include <phosg/UnitTest.hh>

#include "verif.hh"

using namespace verif;
// the macros expand to unqualified names
using phosg::expect_generic;
using phosg::expect_raises_fn;

// ---------------------------------------------------------------- observing one helper call

struct Outcome {
  bool threw = false; // anything left the helper
  bool is_expectation_failed = false; // ... and its dynamic type is exactly phosg::expectation_failed
  std::string other_type; // typeid name when it was something else
  std::string what;
  std::string file;
  uint64_t line = 0;
  const char* msg_ptr = nullptr; // only dereferenced when the message is known to be a literal
};

template <typename F>
static Outcome observe(F&& f) {
  Outcome o;
  try {
    f();
  } catch (const phosg::expectation_failed& e) {
    o.threw = true;
    o.is_expectation_failed = (typeid(e) == typeid(phosg::expectation_failed));
    if (!o.is_expectation_failed) o.other_type = typeid(e).name();
    o.what = e.what();
    o.file = e.file ? e.file : "(null)";
    o.line = e.line;
    o.msg_ptr = e.msg;
  } catch (const std::exception& e) {
    o.threw = true;
    o.other_type = typeid(e).name();
    o.what = e.what();
  } catch (...) {
    o.threw = true;
    o.other_type = "(not a std::exception)";
  }
  return o;
}

// the failure must carry the call site and the message
static void check_failure(const Outcome& o, const char* file, uint64_t line, const std::string& msg, bool msg_is_literal, const std::string& what_must_contain, const std::string& cls) {
  VCHECK(o.threw, cat("must-fail:", cls), "helper returned normally although the expectation is false");
  VCHECK(o.is_expectation_failed, cat("failure-type:", cls), "helper threw ", o.other_type, " (", o.what, ") instead of expectation_failed");
  VCHECK(o.file == file, cat("failure-file:", cls), "expectation_failed::file is '", o.file, "' expected '", file, "'");
  VCHECK(o.line == line, cat("failure-line:", cls), "expectation_failed::line is ", o.line, " expected ", line);
  VCHECK(o.what.find(file) != std::string::npos, cat("what-file:", cls), "what() = '", o.what, "' does not name the file");
  VCHECK(o.what.find(cat(":", line)) != std::string::npos, cat("what-line:", cls), "what() = '", o.what, "' does not contain ':", line, "'");
  VCHECK(o.what.find(cat(file, ":", line)) != std::string::npos, cat("what-site:", cls), "what() = '", o.what, "' does not contain '", file, ":", line, "'");
  if (!what_must_contain.empty()) {
    VCHECK(o.what.find(what_must_contain) != std::string::npos, cat("what-message:", cls), "what() = '", o.what, "' does not contain '", what_must_contain, "'");
  }
  if (msg_is_literal) {
    VCHECK(o.msg_ptr != nullptr && msg == o.msg_ptr, cat("failure-msg:", cls), "expectation_failed::msg is '", (o.msg_ptr ? o.msg_ptr : "(null)"), "' expected '", msg, "'");
  }
}

static void check_success(const Outcome& o, const std::string& cls) {
  VCHECK(!o.threw, cat("must-pass:", cls), "helper threw ", (o.is_expectation_failed ? "expectation_failed" : o.other_type), " (", o.what, ") although the expectation is true");
}

// ---------------------------------------------------------------- relations

static const char* kRelNames[8] = {"expect_eq", "expect_ne", "expect_gt", "expect_ge", "expect_lt", "expect_le", "expect", "expect_msg"};
// text the macro puts between the stringified operands
static const char* kRelMsg[6] = {"a != b", "a == b", "a <= b", "a < b", "a >= b", "a > b"};

// Each helper call and the __LINE__ capture sit on one source line.
#define SITE(stmt)   \
  do {               \
    line = __LINE__; stmt; \
  } while (0)

template <typename T, typename TruthFn>
static void run_relation(uint64_t rel, const T& a, const T& b, TruthFn truth, const char* tn) {
  uint64_t line = 0;
  bool expected = false;
  std::string msg;
  Outcome o;
  switch (rel) {
    case 0:
      expected = (a == b);
      o = observe([&] { SITE(expect_eq(a, b)); });
      msg = kRelMsg[0];
      break;
    case 1:
      expected = (a != b);
      o = observe([&] { SITE(expect_ne(a, b)); });
      msg = kRelMsg[1];
      break;
    case 2:
      expected = (a > b);
      o = observe([&] { SITE(expect_gt(a, b)); });
      msg = kRelMsg[2];
      break;
    case 3:
      expected = (a >= b);
      o = observe([&] { SITE(expect_ge(a, b)); });
      msg = kRelMsg[3];
      break;
    case 4:
      expected = (a < b);
      o = observe([&] { SITE(expect_lt(a, b)); });
      msg = kRelMsg[4];
      break;
    case 5:
      expected = (a <= b);
      o = observe([&] { SITE(expect_le(a, b)); });
      msg = kRelMsg[5];
      break;
    case 6:
      expected = truth(a);
      o = observe([&] { SITE(expect(truth(a))); });
      msg = "!(truth(a))";
      break;
    case 7:
      expected = truth(a) || truth(b);
      o = observe([&] { SITE(expect_msg(truth(a) || truth(b), "custom message 7f3a")); });
      msg = "custom message 7f3a";
      break;
    default:
      throw std::logic_error("bad relation code");
  }
  std::string cls = cat(kRelNames[rel], ":", tn);
  if (expected) {
    check_success(o, cls);
  } else {
    check_failure(o, __FILE__, line, msg, true, msg, cls);
  }
  ctx().cls(cat(kRelNames[rel], expected ? ":holds" : ":fails"));
}

// case: n = [rel, a, b]
static void run_rel_int(const Case& c) {
  int64_t a = c.i(1), b = c.i(2);
  run_relation<int64_t>(c.u(0), a, b, [](int64_t v) { return v != 0; }, "int64");
  ctx().nontrivial_case();
}
// case: n = [rel, a_bits, b_bits]
static void run_rel_dbl(const Case& c) {
  double a = c.d(1), b = c.d(2);
  run_relation<double>(c.u(0), a, b, [](double v) { return static_cast<bool>(v); }, "double");
  ctx().nontrivial_case();
}
// case: n = [rel], s = [a, b]
static void run_rel_str(const Case& c) {
  run_relation<std::string>(c.u(0), c.str(0), c.str(1), [](const std::string& v) { return !v.empty(); }, "string");
  ctx().nontrivial_case();
}

// ---------------------------------------------------------------- expect_raises

struct CustomRuntime : std::runtime_error {
  CustomRuntime() : std::runtime_error("custom-runtime") {}
};
struct CustomException : std::exception {
  const char* what() const noexcept override { return "custom-exception"; }
};

static const int kNumTypes = 10;
static const char* kTypeNames[kNumTypes] = {"std::exception", "std::logic_error", "std::invalid_argument", "std::out_of_range", "std::runtime_error",
    "JSON::parse_error", "expectation_failed", "std::bad_alloc", "custom:runtime_error", "custom:std::exception"};

template <int I>
struct TypeAt;
template <>
struct TypeAt<0> { using type = std::exception; };
template <>
struct TypeAt<1> { using type = std::logic_error; };
template <>
struct TypeAt<2> { using type = std::invalid_argument; };
template <>
struct TypeAt<3> { using type = std::out_of_range; };
template <>
struct TypeAt<4> { using type = std::runtime_error; };
template <>
struct TypeAt<5> { using type = phosg::JSON::parse_error; };
template <>
struct TypeAt<6> { using type = phosg::expectation_failed; };
template <>
struct TypeAt<7> { using type = std::bad_alloc; };
template <>
struct TypeAt<8> { using type = CustomRuntime; };
template <>
struct TypeAt<9> { using type = CustomException; };

static const char* kInnerFile = "inner-site.cc";
static const uint64_t kInnerLine = 424242;

template <typename T>
[[noreturn]] static void throw_one() {
  if constexpr (std::is_same_v<T, std::exception>) throw std::exception();
  else if constexpr (std::is_same_v<T, std::bad_alloc>) throw std::bad_alloc();
  else if constexpr (std::is_same_v<T, CustomRuntime>) throw CustomRuntime();
  else if constexpr (std::is_same_v<T, CustomException>) throw CustomException();
  else if constexpr (std::is_same_v<T, phosg::expectation_failed>) throw phosg::expectation_failed("inner failure", kInnerFile, kInnerLine);
  else throw T("thrown-by-fn");
}

// behaviours: 0 = returns, 1..10 = throws TypeAt<b-1>, 11 = throws int
static const int kNumBehaviours = kNumTypes + 2;
static std::string behaviour_name(uint64_t b) {
  if (b == 0) return "returns";
  if (b == kNumTypes + 1) return "throws int";
  return cat("throws ", kTypeNames[b - 1]);
}

struct Cell {
  bool should_pass; // is_convertible<const T*, const E*>
  Outcome (*via_macro)(uint64_t& line, bool& ran);
  Outcome (*via_fn)(const char* file, uint64_t line, bool& ran);
};

template <typename E, int B>
static void behave(bool& ran) {
  ran = true;
  if constexpr (B == 0) {
    return;
  } else if constexpr (B == kNumTypes + 1) {
    throw 42;
  } else {
    throw_one<typename TypeAt<B - 1>::type>();
  }
}

template <typename E, int B>
static Outcome cell_macro(uint64_t& line, bool& ran) {
  auto fn = [&]() { behave<E, B>(ran); };
  return observe([&] { SITE(expect_raises(E, fn)); });
}
template <typename E, int B>
static Outcome cell_fn(const char* file, uint64_t line, bool& ran) {
  auto fn = [&]() { behave<E, B>(ran); };
  return observe([&] { phosg::expect_raises_fn<E>(file, line, fn); });
}

template <typename E, int B>
static constexpr bool cell_should_pass() {
  if constexpr (B == 0 || B == kNumTypes + 1) {
    return false;
  } else {
    using T = typename TypeAt<B - 1>::type;
    return std::is_convertible_v<const T*, const E*>;
  }
}

template <int EI, int B>
static Cell make_cell() {
  using E = typename TypeAt<EI>::type;
  return Cell{cell_should_pass<E, B>(), &cell_macro<E, B>, &cell_fn<E, B>};
}

template <int EI, int... Bs>
static void fill_row(Cell* row, std::integer_sequence<int, Bs...>) {
  ((row[Bs] = make_cell<EI, Bs>()), ...);
}
template <int... EIs>
static void fill_table(Cell (*table)[kNumBehaviours], std::integer_sequence<int, EIs...>) {
  (fill_row<EIs>(table[EIs], std::make_integer_sequence<int, kNumBehaviours>{}), ...);
}

static const Cell& cell_at(uint64_t e, uint64_t b) {
  static Cell table[kNumTypes][kNumBehaviours];
  static bool init = false;
  if (!init) {
    fill_table(table, std::make_integer_sequence<int, kNumTypes>{});
    init = true;
  }
  if (e >= static_cast<uint64_t>(kNumTypes) || b >= static_cast<uint64_t>(kNumBehaviours)) throw std::logic_error("cell outside the matrix");
  return table[e][b];
}

// case: n = [E, behaviour, entry]  (entry 0 = expect_raises macro, 1 = expect_raises_fn with an explicit site)
static void run_raises(const Case& c) {
  uint64_t e = c.u(0), b = c.u(1), entry = c.u(2);
  const Cell& cell = cell_at(e, b);
  bool ran = false;
  uint64_t line = 0;
  const char* file = __FILE__;
  Outcome o;
  if (entry == 0) {
    o = cell.via_macro(line, ran);
  } else {
    file = "explicit-site.cc";
    line = 1000 + e * 100 + b;
    o = cell.via_fn(file, line, ran);
  }
  std::string cls = cat("E=", kTypeNames[e], ",fn-", (b == 0 ? "returns" : b == kNumTypes + 1 ? "throws-non-std" : cell.should_pass ? "throws-matching" : "throws-other"));
  VCHECK(ran, "fn-not-called", "expect_raises<", kTypeNames[e], "> never invoked fn");
  if (cell.should_pass) {
    VCHECK(!o.threw, cat("raises-must-pass:", cls), "expect_raises<", kTypeNames[e], ">(fn that ", behaviour_name(b), ") threw ", (o.is_expectation_failed ? "expectation_failed" : o.other_type), ": ", o.what);
  } else {
    VCHECK(o.threw, cat("raises-must-fail:", cls), "expect_raises<", kTypeNames[e], ">(fn that ", behaviour_name(b), ") returned normally");
    // the failure is the helper's own (call-site file/line), not whatever fn threw
    check_failure(o, file, line, "", false, "", cat("raises:", cls));
    VCHECK(!(o.file == kInnerFile) && o.line != kInnerLine, cat("raises-own-failure:", cls), "the exception thrown by fn escaped instead of the helper's failure");
  }
  // non-trivial: fn returns, or E is a base of expectation_failed (the helper's own failure type can be swallowed)
  if (b == 0 || e == 0 || e == 1 || e == 6) ctx().nontrivial_case();
  ctx().cls(cell.should_pass ? "raises:must-pass" : (b == 0 ? "raises:fn-returns" : "raises:wrong-type"));
}

// ---------------------------------------------------------------- enumerators and generators

static const std::vector<int64_t> kInts = {INT64_MIN, -1, 0, 1, INT64_MAX};
static const std::vector<std::string> kStrs = {"", "a", "b", "aa"};
static std::vector<double> dbls() { return {-INFINITY, -0.0, 0.0, 1.5, INFINITY, NAN}; }

static void enum_rel_int(Enum& e) {
  uint64_t idx = 0;
  for (uint64_t rel = 0; rel < 8; rel++)
    for (int64_t a : kInts)
      for (int64_t b : kInts)
        if (e.mine(idx++)) e.exec(Case("rel_int").N(rel).I(a).I(b));
  e.complete("8 helpers (expect_eq/ne/gt/ge/lt/le, expect, expect_msg) x all pairs over {INT64_MIN,-1,0,1,INT64_MAX}");
}
static void enum_rel_dbl(Enum& e) {
  uint64_t idx = 0;
  for (uint64_t rel = 0; rel < 8; rel++)
    for (double a : dbls())
      for (double b : dbls())
        if (e.mine(idx++)) e.exec(Case("rel_dbl").N(rel).D(a).D(b));
  e.complete("8 helpers x all pairs over {-inf,-0.0,0.0,1.5,inf,NaN}");
}
static void enum_rel_str(Enum& e) {
  uint64_t idx = 0;
  for (uint64_t rel = 0; rel < 8; rel++)
    for (const auto& a : kStrs)
      for (const auto& b : kStrs)
        if (e.mine(idx++)) e.exec(Case("rel_str").N(rel).S(a).S(b));
  e.complete("8 helpers x all pairs over {\"\",\"a\",\"b\",\"aa\"}");
}
static void enum_raises(Enum& e) {
  uint64_t idx = 0;
  for (uint64_t E = 0; E < static_cast<uint64_t>(kNumTypes); E++)
    for (uint64_t b = 0; b < static_cast<uint64_t>(kNumBehaviours); b++)
      for (uint64_t entry = 0; entry < 2; entry++)
        if (e.mine(idx++)) e.exec(Case("raises").N(E).N(b).N(entry));
  e.complete("10 expected types x {fn returns, throws each of the 10 types, throws int} x {expect_raises macro, expect_raises_fn} = 240 cells");
}

static Case gen_rel_int() {
  uint64_t rel = vg::below(8);
  int64_t a = static_cast<int64_t>(vg::interesting64());
  if (rel >= 6 && vg::coin()) a = 0; // the truthiness helpers fail only on zero
  int64_t b;
  switch (vg::below(4)) {
    case 0: b = a; break;
    case 1: b = static_cast<int64_t>(static_cast<uint64_t>(a) + 1); break; // wraps at INT64_MAX: still a valid pair
    case 2: b = static_cast<int64_t>(static_cast<uint64_t>(a) - 1); break;
    default: b = static_cast<int64_t>(vg::interesting64()); break;
  }
  return Case("rel_int").N(rel).I(a).I(b);
}
static Case gen_rel_dbl() {
  uint64_t rel = vg::below(8);
  auto one = [&]() -> double {
    switch (vg::below(4)) {
      case 0: return vg::pick<double>({-INFINITY, -0.0, 0.0, 1.5, INFINITY, NAN, 1e-320, -1e308, 4.9e-324});
      case 1: return static_cast<double>(vg::range(-5, 5)) / 2.0;
      default: {
        uint64_t b = vg::u64();
        double v;
        memcpy(&v, &b, 8);
        return v;
      }
    }
  };
  double a = one();
  double b = vg::chance(1, 3) ? a : one();
  return Case("rel_dbl").N(rel).D(a).D(b);
}
static Case gen_rel_str() {
  uint64_t rel = vg::below(8);
  std::string a = vg::bytes_from(std::string("ab\0\xff", 4), vg::below(5));
  std::string b;
  switch (vg::below(3)) {
    case 0: b = a; break;
    case 1: b = a + vg::bytes_from("ab", 1); break;
    default: b = vg::bytes_from(std::string("ab\0\xff", 4), vg::below(5)); break;
  }
  return Case("rel_str").N(rel).S(a).S(b);
}


// ---------------------------------------------------------------- failures stay intact while later ones are raised
//
// A test runner may collect failures and report them later: the file / line / message an expectation_failed
// carries must still be those of ITS call site after other expectations have failed. case: n = [kind...], each kind
// one failing helper call (0..5 relation macros on ints, 6 expect, 7 expect_msg with one of three literals, 8
// expect_raises on a function that returns); every exception is kept (by copy) and all kept ones are re-verified
// after each new failure and once more at the end.
struct Kept {
  phosg::expectation_failed e;
  std::string msg; // expected message literal ("" = do not read msg: built at run time)
  uint64_t line;
  std::string what_part;
};

static void run_retain(const Case& c) {
  std::vector<Kept> kept;
  auto verify_all = [&](size_t after) {
    for (size_t i = 0; i < kept.size(); i++) {
      const Kept& k = kept[i];
      VCHECK(k.e.file != nullptr && std::string(k.e.file) == __FILE__, "retained-file", "failure #", i, " lost its file after failure #", after);
      VCHECK(k.e.line == k.line, "retained-line", "failure #", i, " has line ", k.e.line, " expected ", k.line, " after failure #", after);
      std::string w = k.e.what();
      VCHECK(w.find(cat(__FILE__, ":", k.line)) != std::string::npos, "retained-what", "what() of failure #", i, " is '", w, "' after failure #", after);
      if (!k.what_part.empty()) VCHECK(w.find(k.what_part) != std::string::npos, "retained-what-message", "what() of failure #", i, " is '", w, "', lacks '", k.what_part, "'");
      if (!k.msg.empty()) {
        VCHECK(k.e.msg != nullptr && k.msg == k.e.msg, "retained-msg", "msg of failure #", i, " reads '", (k.e.msg ? std::string(k.e.msg).substr(0, 80) : std::string("(null)")), "' expected '", k.msg, "' after failure #", after);
      }
    }
  };
  for (size_t idx = 0; idx < c.n.size(); idx++) {
    uint64_t kind = c.u(idx) % 11;
    uint64_t line = 0;
    std::string msg, what_part;
    int64_t a = 1, b = 2; // operands are always named a and b: the macros stringify them into the message
    if (kind == 1) b = 1;
    if (kind == 4 || kind == 5) {
      a = 2;
      b = 1;
    }
    bool caught = false;
    try {
      switch (kind) {
        case 0: SITE(expect_eq(a, b)); msg = kRelMsg[0]; break;
        case 1: SITE(expect_ne(a, b)); msg = kRelMsg[1]; break;
        case 2: SITE(expect_gt(a, b)); msg = kRelMsg[2]; break;
        case 3: SITE(expect_ge(a, b)); msg = kRelMsg[3]; break;
        case 4: SITE(expect_lt(a, b)); msg = kRelMsg[4]; break;
        case 5: SITE(expect_le(a, b)); msg = kRelMsg[5]; break;
        case 6: SITE(expect(a == b)); msg = "!(a == b)"; break;
        case 7: SITE(expect_msg(a == b, "first retained literal")); msg = "first retained literal"; break;
        case 8: SITE(expect_msg(a == b, "second, rather longer retained literal 0123456789 0123456789")); msg = "second, rather longer retained literal 0123456789 0123456789"; break;
        case 9: SITE(expect_msg(a == b, "3rd")); msg = "3rd"; break;
        default: {
          auto returns = []() {};
          SITE(expect_raises(std::runtime_error, returns));
          msg = ""; // built at run time by the helper: only what() is inspected
          break;
        }
      }
    } catch (const phosg::expectation_failed& e) {
      caught = true;
      // the messages recorded above are assigned after the throwing statement; set them here
      switch (kind) {
        case 0: case 1: case 2: case 3: case 4: case 5: msg = kRelMsg[kind]; break;
        case 6: msg = "!(a == b)"; break;
        case 7: msg = "first retained literal"; break;
        case 8: msg = "second, rather longer retained literal 0123456789 0123456789"; break;
        case 9: msg = "3rd"; break;
        default: msg = ""; break;
      }
      what_part = msg;
      kept.push_back(Kept{e, msg, line, what_part});
    }
    VCHECK(caught, "retained-must-fail", "helper kind ", kind, " did not throw expectation_failed");
    verify_all(idx);
  }
  verify_all(c.n.size());
  if (c.n.size() >= 2) ctx().nontrivial_case();
}

static Case gen_retain() {
  Case c("retain");
  uint64_t len = 1 + vg::below(8);
  for (uint64_t i = 0; i < len; i++) c.N(vg::below(11));
  return c;
}

static void enum_retain(Enum& e) {
  // every sequence of 1..3 failing helper calls over the 11 kinds
  uint64_t idx = 0;
  for (uint64_t len = 1; len <= 3 && !e.stop; len++) {
    uint64_t total = 1;
    for (uint64_t k = 0; k < len; k++) total *= 11;
    for (uint64_t code = 0; code < total && !e.stop; code++, idx++) {
      if (!e.mine(idx)) continue;
      Case c("retain");
      uint64_t t = code;
      for (uint64_t k = 0; k < len; k++) {
        c.N(t % 11);
        t /= 11;
      }
      e.exec(c);
    }
  }
  e.complete("every sequence of 1..3 failing helper calls over 11 helper kinds, all exceptions retained and re-verified after each later failure");
}

int main(int argc, char** argv) {
  std::vector<SubCheck> checks;
  checks.push_back({"raises", run_raises, nullptr, 0, 0, 100, enum_raises});
  checks.push_back({"rel_int", run_rel_int, gen_rel_int, 100000, 800000, 100, enum_rel_int});
  checks.push_back({"rel_dbl", run_rel_dbl, gen_rel_dbl, 100000, 800000, 100, enum_rel_dbl});
  checks.push_back({"rel_str", run_rel_str, gen_rel_str, 100000, 800000, 100, enum_rel_str});
  checks.push_back({"retain", run_retain, gen_retain, 20000, 200000, 100, enum_retain});
  return main_(argc, argv, checks);
}
