// C02 - bounds-checked readers/writers never touch memory outside their buffer.
//
// Subchecks
//   pos   one accessor call on a StringReader over n bytes (exactly-sized heap block, so ASan sees the first byte
//         past the end) with (offset, size) from the boundary grid; cursor accessors are preceded by go(offset)
//   hist  cursor histories: up to 30 accessor calls incl. go()/truncate() on one reader, model of cursor and length
//   both: the reader is built by any of the six constructor forms (pointer+size / const std::string& / shared_ptr<string>,
//         each with and without the initial-offset argument), and a history may step into a sub-reader it has just taken
//         (sub/subx of a sub of a ...): the model then tracks the absolute window inside the original data
//   bw    BufferWriter over a guarded buffer: pwrite / write / put_* / pput_* with boundary offsets and sizes
//   sw    StringWriter: appends and pput_* at offsets <= 4096 or >= 2^63 (grow zero-filled, or throw)
//
// Reference: slices computed in 128-bit arithmetic. Throwing forms return exactly [off, off+size) when
// off+size <= n and throw std::out_of_range otherwise; clamping forms return the in-range prefix.
#include "c01/codec.hh"

typedef unsigned __int128 u128;

static bool fits(uint64_t off, uint64_t size, uint64_t n) { return static_cast<u128>(off) + size <= n; }
static bool wraps(uint64_t off, uint64_t size) { return (static_cast<u128>(off) + size) >> 64; }
static uint64_t clamp_len(uint64_t off, uint64_t size, uint64_t n) {
  if (off >= n) return 0;
  return size < n - off ? size : n - off;
}
static bool near_v(uint64_t x, u128 v) {
  u128 xx = x;
  return (xx > v ? xx - v : v - xx) <= 2;
}
static bool interesting_pair(uint64_t off, uint64_t size, uint64_t n) {
  const u128 p63 = static_cast<u128>(1) << 63, p64 = static_cast<u128>(1) << 64;
  return near_v(off, n) || near_v(size, n) || near_v(off, p63) || near_v(size, p63) || near_v(off, p64) || near_v(size, p64) ||
      wraps(off, size) || near_v(static_cast<uint64_t>(off + size), n);
}

enum Acc : uint64_t {
  A_GO = 0,
  // positional: a = offset, b = size
  A_PGETV = 1, A_PREADX_S, A_PREADX_B, A_SUBX2, A_SUBXBITS2, A_SUBX1, A_SUBXBITS1,
  A_PREAD_S, A_PREAD_B, A_SUB2, A_SUBBITS2, A_SUB1, A_SUBBITS1, A_PGET_CSTR, A_PGET_T,
  // cursor: a = size, b = selector (bit 0: advance / matching data)
  A_GETV = 16, A_PEEK, A_READ_S, A_READX_S, A_READ_B, A_READX_B, A_SKIP, A_SKIP_IF, A_GET_LINE, A_GET_CSTR, A_TRUNCATE, A_GET_T,
  A_LAST_PLAIN = A_GET_T,
  A_TYPED_PGET = 100, // + k: pget_<k>(a = offset)
  A_TYPED_GET = 200, // + k: get_<k>(advance = a & 1)
  // + k (0 subx(off,size), 1 subx(off), 2 sub(off,size), 3 sub(off)): the same call and checks as the plain accessor, and when it
  // returned a reader the history continues ON THAT SUB-READER (a = offset, b = size)
  A_DESCEND = 300,
};
static const uint64_t kDescendAcc[4] = {A_SUBX2, A_SUBX1, A_SUB2, A_SUB1};
enum Ctor : uint64_t { C_POINTER = 0, C_STRING = 1, C_SHARED = 2 };
static const char* kCtorName[3] = {"(pointer,size)", "(const std::string&)", "(shared_ptr<string>)"};
static const char* kAccName[28] = {"go", "pgetv", "preadx", "preadx(void*)", "subx(off,size)", "subx_bits(off,size)", "subx(off)", "subx_bits(off)",
    "pread", "pread(void*)", "sub(off,size)", "sub_bits(off,size)", "sub(off)", "sub_bits(off)", "pget_cstr", "pget<T>(off,size)",
    "getv", "peek", "read", "readx", "read(void*)", "readx(void*)", "skip", "skip_if", "get_line", "get_cstr", "truncate", "get<T>(adv,size)"};

// typed accessors: k < 18 the C01_READERS entries, 18..25 the 24/48-bit ones
struct Typed {
  unsigned type;
  bool big;
};
static const Typed kTyped[18] = {{T_U8, false}, {T_S8, false}, {T_U16, true}, {T_U16, false}, {T_S16, true}, {T_S16, false}, {T_U32, true}, {T_U32, false},
    {T_S32, true}, {T_S32, false}, {T_U64, true}, {T_U64, false}, {T_S64, true}, {T_S64, false}, {T_F32, true}, {T_F32, false}, {T_F64, true}, {T_F64, false}};
static const unsigned kTypedCount = 26;
static unsigned typed_width(unsigned k) { return k < 18 ? kWidth[kTyped[k].type] : kWide[k - 18].w; }
static std::string typed_name(unsigned k) { return k < 18 ? reader_name(kTyped[k].type, kTyped[k].big) : std::string(kWide[k - 18].name); }
static uint64_t typed_expect(const uint8_t* p, unsigned k) {
  return k < 18 ? ref_decode(p, kWidth[kTyped[k].type], kTyped[k].big, kSigned[kTyped[k].type]) : ref_decode(p, kWide[k - 18].w, kWide[k - 18].big, kWide[k - 18].sgn);
}
static uint64_t typed_pget(const StringReader& r, unsigned k, size_t off) { return k < 18 ? call_pget(r, kTyped[k].type, kTyped[k].big, off) : wide_pget(r, k - 18, off); }
static uint64_t typed_get(StringReader& r, unsigned k, bool adv) { return k < 18 ? call_get(r, kTyped[k].type, kTyped[k].big, adv) : wide_get(r, k - 18, adv); }

static std::string acc_name(uint64_t acc) {
  if (acc >= A_DESCEND && acc < A_DESCEND + 4) return cat("into:", kAccName[kDescendAcc[acc - A_DESCEND]]);
  if (acc <= A_LAST_PLAIN) return kAccName[acc];
  if (acc >= A_TYPED_GET && acc < A_TYPED_GET + kTypedCount) return "get_" + typed_name(acc - A_TYPED_GET);
  if (acc >= A_TYPED_PGET && acc < A_TYPED_PGET + kTypedCount) return "pget_" + typed_name(acc - A_TYPED_PGET);
  throw std::logic_error("unknown accessor code");
}

enum Outcome { RETURNED, THREW_OOR };
template <typename F>
static Outcome attempt(F&& f, const std::string& name) {
  try {
    f();
    return RETURNED;
  } catch (const std::out_of_range&) {
    return THREW_OOR;
  } catch (const std::exception& e) {
    VFAIL(cat("wrong-exception:", name), name, " threw ", typeid(e).name(), " (", e.what(), ") instead of returning or throwing std::out_of_range");
  }
}

// the data a reader looks at: an exactly-sized heap block
static std::vector<uint8_t> make_data(size_t len, uint64_t seed, bool text) {
  std::string raw = vg::expand(seed, len);
  std::vector<uint8_t> d(raw.begin(), raw.end());
  if (text) {
    static const uint8_t alpha[8] = {'a', 'b', '\n', '\r', 0, 'c', '\n', 0};
    for (auto& b : d) b = alpha[b & 7];
  }
  return d;
}

struct State {
  std::vector<uint8_t> d; // model copy of the bytes the root reader was built over
  std::unique_ptr<uint8_t[]> blk; // storage for the (pointer, size) constructor
  std::string str; // ... for the const std::string& constructor
  std::shared_ptr<std::string> shared; // ... for the shared_ptr<string> constructor
  const uint8_t* base0 = nullptr; // first byte of the storage
  bool base_known = true; // false once the history stepped into an empty reader returned by a clamping sub(): where that one points is not specified
  size_t win = 0; // where the current reader's window starts inside d (non-zero only after stepping into sub-readers)
  unsigned depth = 0;
  size_t n; // current length (truncate shortens it)
  uint64_t cur = 0;
  std::unique_ptr<StringReader> r;
  bool interesting = false;
  // other live views of the same storage (a by-value copy of the root reader, a second reader constructed over the same storage, and
  // every reader the history stepped out of): whatever is done through the current reader, each of them must go on reading exactly
  // its own window of the original bytes, with its own cursor
  struct View {
    StringReader r;
    size_t win, n;
    uint64_t cur;
    const char* what;
  };
  std::vector<View> views;
  uint64_t ctor = 0;
};

// the model bytes of the current reader's window
static const uint8_t* md(const State& st) { return st.d.data() + st.win; }
static std::string slice(const State& st, uint64_t off, uint64_t len) {
  return std::string(reinterpret_cast<const char*>(md(st)) + off, len);
}
static std::string bit_reader_bytes(BitReader& br) {
  std::string out;
  for (size_t i = 0; i + 8 <= br.size(); i += 8) out.push_back(static_cast<char>(br.read(8)));
  return out;
}

// Readers never write: after every call the storage the caller handed over (the heap block, the std::string, the string behind the
// shared_ptr - its size and every byte) is what it was, and every other view of it still reads its whole window.
static void check_other_views(const State& st, size_t opidx, uint64_t acc) {
#define opname acc_name(acc)
  const size_t len = st.d.size();
  const char* cn = kCtorName[st.ctor];
  auto first_diff = [&](const uint8_t* p) {
    size_t i = 0;
    while (i < len && p[i] == st.d[i]) i++;
    return i;
  };
  for (const auto& v : st.views) {
    VCHECK(v.r.size() == v.n, cat("other-view-size:", cn), "after op #", opidx, " (", opname, ") on another view, ", v.what, " has size ", v.r.size(), ", it had ", v.n);
    VCHECK(v.r.where() == v.cur, cat("other-view-cursor:", cn), "after op #", opidx, " (", opname, ") on another view, the cursor of ", v.what, " is ", v.r.where(), ", it was ", v.cur);
    std::string got = v.r.pread(0, SIZE_MAX);
    std::string want(reinterpret_cast<const char*>(st.d.data()) + v.win, v.n);
    if (got != want) {
      size_t i = 0;
      while (i < got.size() && i < want.size() && got[i] == want[i]) i++;
      VFAIL(cat("other-view-content:", cn), "after op #", opidx, " (", opname, ") on another view, ", v.what, " (window ", v.win, "+", v.n, ") reads ", got.size(), " bytes, byte ", i, " = ",
          (unsigned)static_cast<uint8_t>(i < got.size() ? got[i] : 0), ", the data has ", (unsigned)static_cast<uint8_t>(i < want.size() ? want[i] : 0));
    }
  }
  if (st.ctor == C_SHARED) {
    VCHECK(st.shared->size() == len, cat("storage-resized:", cn), "after op #", opidx, " (", opname, ") the caller's string behind the shared_ptr has size ", st.shared->size(), ", it had ", len);
    VCHECK(reinterpret_cast<const uint8_t*>(st.shared->data()) == st.base0, cat("storage-moved:", cn), "after op #", opidx, " (", opname, ") the caller's string moved its buffer");
    size_t i = first_diff(st.base0);
    VCHECK(i == len, cat("storage-written:", cn), "after op #", opidx, " (", opname, ") byte ", i, " of the caller's string is ", (unsigned)st.base0[i < len ? i : 0], ", it was ", (unsigned)st.d[i < len ? i : 0]);
  } else if (st.ctor == C_STRING) {
    VCHECK(st.str.size() == len && reinterpret_cast<const uint8_t*>(st.str.data()) == st.base0, cat("storage-resized:", cn), "after op #", opidx, " (", opname, ") the caller's string has size ", st.str.size(), ", it had ", len);
    size_t i = first_diff(st.base0);
    VCHECK(i == len, cat("storage-written:", cn), "after op #", opidx, " (", opname, ") byte ", i, " of the caller's string changed");
  } else {
    size_t i = first_diff(st.base0);
    VCHECK(i == len, cat("storage-written:", cn), "after op #", opidx, " (", opname, ") byte ", i, " of the caller's buffer changed");
  }
#undef opname
}

// the "wrong accept" / "wrong reject" clauses carry the root-cause class: a sum that wraps vs a plain bound
static std::string accept_sig(uint64_t off, uint64_t size, const std::string& name) {
  return cat(wraps(off, size) ? "wrap-accepted:" : "oob-accepted:", name);
}

static void apply_op(State& st, uint64_t acc, uint64_t a, uint64_t b, size_t opidx) {
  StringReader& r = *st.r;
  const bool descend = acc >= A_DESCEND && acc < A_DESCEND + 4;
  if (descend) acc = kDescendAcc[acc - A_DESCEND];
  const std::string name = acc_name(acc); // signatures name the accessor, whether or not the history steps into its result
  bool stepped = false; // the call returned a sub-reader to continue on
  StringReader next;
  uint64_t next_off = 0, next_len = 0;
  bool next_base_known = true;
  const uint64_t n = st.n, c = st.cur;
  const bool sane = c <= n;
  uint64_t exp_cur = c;
  bool check_cur = true;
  const uint8_t* base = st.base0 + st.win;
  auto ctxt = [&]() { return cat(" [op #", opidx, " ", name, " a=", a, " b=", b, " n=", n, " cursor=", c, descend ? " (the history continues in the returned reader)" : "", st.depth ? cat(" sub-reader depth ", st.depth, " window start ", st.win) : std::string(), "]"); };

  auto must_throw = [&](Outcome o, uint64_t off, uint64_t size) {
    if (size == 0 && o == RETURNED) {
      // an access of zero bytes that starts beyond the end touches no byte at all: "returns bytes lying entirely inside the buffer"
      // holds vacuously, so returning (nothing) is as good as throwing - counted, not judged
      ctx().cls("zero-size access beyond the end: returned instead of throwing");
      return;
    }
    VCHECK(o == THREW_OOR, accept_sig(off, size, name), name, " accepted offset ", off, " size ", size, " on ", n, " bytes", ctxt());
  };
  auto must_return = [&](Outcome o, uint64_t off, uint64_t size) {
    VCHECK(o == RETURNED, cat("in-range-throws:", name), name, " threw out_of_range for offset ", off, " size ", size, " on ", n, " bytes", ctxt());
  };

  auto classify = [&](uint64_t off, uint64_t size) {
    ctx().cls(wraps(off, size) ? "args:offset+size wraps" : fits(off, size, n) ? "args:in range" : off <= n ? "args:starts inside, ends outside" : "args:starts outside");
  };
  if (acc == A_GO) {
    r.go(a);
    // go() has no stated post-condition beyond "an explicit go() past the end" being the one way to get there: a go() that clamps
    // the cursor to the end of the data is as good as one that parks it beyond
    exp_cur = (a > n && r.where() == n) ? n : a;
    if (a > n && r.where() == n) ctx().cls("go beyond the end: clamped to the end");
    ctx().cls(a <= n ? "acc:go inside" : "acc:go beyond the end");
  } else if (acc >= A_PGETV && acc <= A_PGET_T) {
    uint64_t off = a, size = b;
    if (interesting_pair(off, size, n)) st.interesting = true;
    classify(off, size);
    ctx().cls((acc >= A_PREAD_S && acc <= A_SUBBITS1) ? "acc:positional clamping" : "acc:positional throwing");
    switch (acc) {
      case A_PGETV: {
        const void* p = nullptr;
        Outcome o = attempt([&] { p = r.pgetv(off, size); }, name);
        if (fits(off, size, n)) {
          must_return(o, off, size);
          VCHECK(!st.base_known || p == base + off, "pgetv-pointer", "pgetv returned a pointer ", (reinterpret_cast<const uint8_t*>(p) - base), " bytes from the start", ctxt());
        } else must_throw(o, off, size);
        break;
      }
      case A_PGET_T: {
        if (size < 2) size = 2;
        uint64_t v = 0;
        Outcome o = attempt([&] {
          const phosg::be_uint16_t& ref = r.pget<phosg::be_uint16_t>(off, size);
          if (fits(off, size, n)) v = ref;
        }, name);
        if (fits(off, size, n)) {
          must_return(o, off, size);
          VCHECK(v == ref_decode(md(st) + off, 2, true, false), "value:pget<T>", "wrong value", ctxt());
        } else must_throw(o, off, size);
        break;
      }
      case A_PREADX_S: {
        std::string s;
        Outcome o = attempt([&] { s = r.preadx(off, size); }, name);
        if (fits(off, size, n)) {
          must_return(o, off, size);
          VCHECK(s == slice(st, off, size), "slice:preadx", "preadx returned ", hex(s), ctxt());
        } else must_throw(o, off, size);
        break;
      }
      case A_PREADX_B: {
        size_t cap = fits(off, size, n) ? size : std::min<uint64_t>(size, n + 1);
        std::unique_ptr<char[]> dst(new char[cap]);
        Outcome o = attempt([&] { r.preadx(off, dst.get(), size); }, name);
        if (fits(off, size, n)) {
          must_return(o, off, size);
          VCHECK(std::string(dst.get(), size) == slice(st, off, size), "slice:preadx(void*)", "wrong bytes", ctxt());
        } else must_throw(o, off, size);
        break;
      }
      case A_SUBX2:
      case A_SUBX1: {
        bool two = acc == A_SUBX2;
        bool in = two ? fits(off, size, n) : off <= n;
        uint64_t len = two ? size : (in ? n - off : 0);
        StringReader sub;
        Outcome o = attempt([&] { sub = two ? r.subx(off, size) : r.subx(off); }, name);
        if (in) {
          must_return(o, off, two ? size : 0);
          VCHECK(sub.size() == len && sub.where() == 0, cat("sub-extent:", name), "sub-reader has size ", sub.size(), " expected ", len, ctxt());
          VCHECK(sub.all() == slice(st, off, len) && sub.pread(0, SIZE_MAX) == slice(st, off, len), cat("slice:", name), "sub-reader content differs", ctxt());
          if (descend) {
            stepped = true;
            next = sub;
            next_off = off;
            next_len = len;
          }
        } else must_throw(o, off, two ? size : 0);
        break;
      }
      case A_SUBXBITS2:
      case A_SUBXBITS1: {
        bool two = acc == A_SUBXBITS2;
        bool in = two ? fits(off, size, n) : off <= n;
        uint64_t len = two ? size : (in ? n - off : 0);
        BitReader sub;
        Outcome o = attempt([&] { sub = two ? r.subx_bits(off, size) : r.subx_bits(off); }, name);
        if (in) {
          must_return(o, off, two ? size : 0);
          VCHECK(sub.size() == len * 8 && sub.where() == 0, cat("sub-extent:", name), "bit sub-reader has size ", sub.size(), " expected ", len * 8, ctxt());
          VCHECK(bit_reader_bytes(sub) == slice(st, off, len), cat("slice:", name), "bit sub-reader content differs", ctxt());
        } else must_throw(o, off, two ? size : 0);
        break;
      }
      case A_PREAD_S: {
        std::string s;
        Outcome o = attempt([&] { s = r.pread(off, size); }, name);
        VCHECK(o == RETURNED, cat("clamping-throws:", name), name, " threw out_of_range", ctxt());
        uint64_t len = clamp_len(off, size, n);
        VCHECK(s.size() == len, cat(wraps(off, size) ? "wrap-clamp:" : "clamp:", name), "pread returned ", s.size(), " bytes, the in-range prefix has ", len, ctxt());
        VCHECK(s == slice(st, len ? off : 0, len), "slice:pread", "pread returned ", hex(s), ctxt());
        break;
      }
      case A_PREAD_B: {
        uint64_t len = clamp_len(off, size, n);
        // the caller of pread(void*, size) owns `size` bytes: the destination is that large (what the call leaves in the part it does
        // not fill is its own business); a size no caller can own is not passed to the void* forms
        if (size > (1u << 20)) {
          ctx().exclude("clamping read into void* with a size no caller can own (> 1 MiB): not called");
          break;
        }
        std::unique_ptr<char[]> dst(new char[size ? size : 1]);
        memset(dst.get(), 0xA5, size ? size : 1);
        size_t got = 0;
        Outcome o = attempt([&] { got = r.pread(off, dst.get(), size); }, name);
        VCHECK(o == RETURNED, cat("clamping-throws:", name), name, " threw out_of_range", ctxt());
        VCHECK(got == len, cat(wraps(off, size) ? "wrap-clamp:" : "clamp:", name), "pread(void*) returned ", got, ", the in-range prefix has ", len, ctxt());
        VCHECK(std::string(dst.get(), len) == slice(st, len ? off : 0, len), "slice:pread(void*)", "wrong bytes", ctxt());
        break;
      }
      case A_SUB2:
      case A_SUB1: {
        bool two = acc == A_SUB2;
        uint64_t len = two ? clamp_len(off, size, n) : (off <= n ? n - off : 0);
        StringReader sub;
        Outcome o = attempt([&] { sub = two ? r.sub(off, size) : r.sub(off); }, name);
        VCHECK(o == RETURNED, cat("clamping-throws:", name), name, " threw out_of_range", ctxt());
        VCHECK(sub.size() == len && sub.where() == 0, cat(two && wraps(off, size) ? "wrap-clamp:" : "clamp:", name), "sub-reader has size ", sub.size(), ", the in-range part has ", len, ctxt());
        VCHECK(sub.all() == slice(st, len ? off : 0, len) && sub.pread(0, SIZE_MAX) == sub.all(), cat("slice:", name), "sub-reader content differs", ctxt());
        if (descend) {
          stepped = true;
          next = sub;
          next_off = off <= n ? off : 0;
          next_len = len;
          next_base_known = len > 0; // where the empty reader that a clamping form returns points to is not specified
        }
        break;
      }
      case A_SUBBITS2:
      case A_SUBBITS1: {
        bool two = acc == A_SUBBITS2;
        uint64_t len = two ? clamp_len(off, size, n) : (off <= n ? n - off : 0);
        BitReader sub;
        Outcome o = attempt([&] { sub = two ? r.sub_bits(off, size) : r.sub_bits(off); }, name);
        VCHECK(o == RETURNED, cat("clamping-throws:", name), name, " threw out_of_range", ctxt());
        VCHECK(sub.size() == len * 8 && sub.where() == 0, cat(two && wraps(off, size) ? "wrap-clamp:" : "clamp:", name), "bit sub-reader has size ", sub.size(), ", the in-range part has ", len * 8, " bits", ctxt());
        VCHECK(bit_reader_bytes(sub) == slice(st, len ? off : 0, len), cat("slice:", name), "bit sub-reader content differs", ctxt());
        break;
      }
      case A_PGET_CSTR: {
        std::string s;
        Outcome o = attempt([&] { s = r.pget_cstr(off); }, name);
        uint64_t z = off;
        while (z < n && md(st)[z] != 0) z++;
        if (off < n && z < n) {
          VCHECK(o == RETURNED, "in-range-throws:pget_cstr", "pget_cstr threw although a NUL follows at ", z, ctxt());
          VCHECK(s == slice(st, off, z - off), "slice:pget_cstr", "pget_cstr returned ", hex(s), ctxt());
        } else {
          VCHECK(o == THREW_OOR, cat(off == UINT64_MAX ? "wrap-accepted:" : "oob-accepted:", name), "pget_cstr(", off, ") returned ", hex(s), " without a terminator inside the data", ctxt());
        }
        break;
      }
    }
  } else if (acc >= A_TYPED_PGET && acc < A_TYPED_PGET + kTypedCount) {
    unsigned k = acc - A_TYPED_PGET, w = typed_width(k);
    uint64_t off = a, v = 0;
    if (interesting_pair(off, w, n)) st.interesting = true;
    classify(off, w);
    ctx().cls("acc:typed pget_*");
    Outcome o = attempt([&] { v = typed_pget(r, k, off); }, name);
    if (fits(off, w, n)) {
      must_return(o, off, w);
      VCHECK(v == typed_expect(md(st) + off, k), cat("value:", name), name, "(", off, ") returned ", v, ctxt());
    } else must_throw(o, off, w);
  } else if (acc >= A_TYPED_GET && acc < A_TYPED_GET + kTypedCount) {
    unsigned k = acc - A_TYPED_GET, w = typed_width(k);
    bool adv = a & 1;
    uint64_t v = 0;
    if (interesting_pair(c, w, n)) st.interesting = true;
    classify(c, w);
    ctx().cls("acc:typed get_*");
    Outcome o = attempt([&] { v = typed_get(r, k, adv); }, name);
    if (fits(c, w, n)) {
      must_return(o, c, w);
      VCHECK(v == typed_expect(md(st) + c, k), cat("value:", name), name, " at ", c, " returned ", v, ctxt());
      if (adv) exp_cur = c + w;
    } else must_throw(o, c, w);
  } else if (acc >= A_GETV && acc <= A_GET_T) {
    uint64_t size = a;
    bool adv = b & 1;
    if (acc != A_GET_LINE && acc != A_GET_CSTR && interesting_pair(c, size, n)) st.interesting = true;
    if (acc != A_GET_LINE && acc != A_GET_CSTR && acc != A_TRUNCATE) classify(c, size);
    ctx().cls(acc == A_TRUNCATE ? "acc:truncate" : (acc == A_GET_LINE || acc == A_GET_CSTR) ? "acc:get_line/get_cstr" : "acc:cursor");
    switch (acc) {
      case A_GETV:
      case A_PEEK: {
        const void* p = nullptr;
        if (acc == A_PEEK) adv = false;
        Outcome o = attempt([&] { p = (acc == A_PEEK) ? static_cast<const void*>(r.peek(size)) : r.getv(size, adv); }, name);
        if (fits(c, size, n)) {
          must_return(o, c, size);
          VCHECK(!st.base_known || p == base + c, cat("pointer:", name), name, " returned a pointer ", (reinterpret_cast<const uint8_t*>(p) - base), " bytes from the start", ctxt());
          if (adv) exp_cur = c + size;
        } else must_throw(o, c, size);
        break;
      }
      case A_GET_T: {
        if (size < 2) size = 2;
        uint64_t v = 0;
        Outcome o = attempt([&] {
          const phosg::be_uint16_t& ref = r.get<phosg::be_uint16_t>(adv, size);
          if (fits(c, size, n)) v = ref;
        }, name);
        if (fits(c, size, n)) {
          must_return(o, c, size);
          VCHECK(v == ref_decode(md(st) + c, 2, true, false), "value:get<T>", "wrong value", ctxt());
          if (adv) exp_cur = c + size;
        } else must_throw(o, c, size);
        break;
      }
      case A_READ_S:
      case A_READ_B: {
        uint64_t len = clamp_len(c, size, n);
        std::string s;
        Outcome o;
        if (acc == A_READ_S) {
          o = attempt([&] { s = r.read(size, adv); }, name);
        } else {
          if (size > (1u << 20)) {
            ctx().exclude("clamping read into void* with a size no caller can own (> 1 MiB): not called");
            check_cur = false;
            break;
          }
          std::unique_ptr<char[]> dst(new char[size ? size : 1]);
          memset(dst.get(), 0xA5, size ? size : 1);
          size_t got = SIZE_MAX;
          o = attempt([&] { got = r.read(dst.get(), size, adv); }, name);
          VCHECK(o != RETURNED || got == len, cat(wraps(c, size) ? "wrap-clamp:" : "clamp:", name), "read(void*) returned ", got, ", the in-range prefix has ", len, ctxt());
          s.assign(dst.get(), len);
        }
        VCHECK(o == RETURNED, cat("clamping-throws:", name), name, " threw out_of_range", ctxt());
        VCHECK(s.size() == len, cat(wraps(c, size) ? "wrap-clamp:" : "clamp:", name), name, " returned ", s.size(), " bytes, the in-range prefix has ", len, ctxt());
        VCHECK(s == slice(st, len ? c : 0, len), cat("slice:", name), name, " returned ", hex(s), ctxt());
        if (adv) exp_cur = c + len;
        break;
      }
      case A_READX_S:
      case A_READX_B: {
        bool in = fits(c, size, n);
        std::string s;
        Outcome o;
        if (acc == A_READX_S) {
          o = attempt([&] { s = r.readx(size, adv); }, name);
        } else {
          size_t cap = in ? size : std::min<uint64_t>(size, n + 1);
          std::unique_ptr<char[]> dst(new char[cap]);
          o = attempt([&] { r.readx(dst.get(), size, adv); }, name);
          if (in && o == RETURNED) s.assign(dst.get(), size);
        }
        if (in) {
          must_return(o, c, size);
          VCHECK(s == slice(st, c, size), cat("slice:", name), name, " returned ", hex(s), ctxt());
          if (adv) exp_cur = c + size;
        } else must_throw(o, c, size);
        break;
      }
      case A_SKIP: {
        Outcome o = attempt([&] { r.skip(size); }, name);
        if (fits(c, size, n)) {
          must_return(o, c, size);
          exp_cur = c + size;
        } else {
          must_throw(o, c, size);
          check_cur = false; // where the cursor rests after the throw is covered by the cursor invariant below
        }
        break;
      }
      case A_SKIP_IF: {
        bool in = fits(c, size, n);
        size_t cap = in ? size : std::min<uint64_t>(size, n + 1);
        std::unique_ptr<uint8_t[]> pat(new uint8_t[cap]);
        for (size_t i = 0; i < cap; i++) pat[i] = (c <= n && st.win + c + i < st.d.size()) ? st.d[st.win + c + i] : 0x5A;
        bool match = in && ((b & 1) || size == 0);
        if (in && !match) pat[size - 1] ^= 0x40;
        bool ret = false;
        Outcome o = attempt([&] { ret = r.skip_if(pat.get(), size); }, name);
        if (sane) {
          VCHECK(o == RETURNED, cat(wraps(c, size) ? "wrap-throws:" : "in-range-throws:", name), "skip_if threw out_of_range", ctxt());
          VCHECK(ret == match, cat(!in ? accept_sig(c, size, name) : "result:skip_if"), "skip_if returned ", ret, " expected ", match, ctxt());
          if (match) exp_cur = c + size;
        } else {
          VCHECK(o == THREW_OOR || !ret || size == 0, accept_sig(c, size, name), "skip_if matched with the cursor beyond the end", ctxt());
        }
        break;
      }
      case A_GET_LINE: {
        std::string s;
        Outcome o = attempt([&] { s = r.get_line(adv); }, name);
        if (c < n) {
          uint64_t z = c;
          while (z < n && md(st)[z] != '\n') z++;
          std::string expect = slice(st, c, z - c);
          if (!expect.empty() && expect.back() == '\r') expect.pop_back();
          VCHECK(o == RETURNED, "in-range-throws:get_line", "get_line threw with data remaining", ctxt());
          VCHECK(s == expect, "slice:get_line", "get_line returned ", hex(s), " expected ", hex(expect), ctxt());
          if (adv) exp_cur = std::min<uint64_t>(z + 1, n);
          if (z == n) st.interesting = true;
        } else {
          VCHECK(o == THREW_OOR, "oob-accepted:get_line", "get_line at or beyond the end returned ", hex(s), ctxt());
        }
        break;
      }
      case A_GET_CSTR: {
        std::string s;
        Outcome o = attempt([&] { s = r.get_cstr(adv); }, name);
        uint64_t z = c;
        while (z < n && md(st)[z] != 0) z++;
        if (c < n && z < n) {
          VCHECK(o == RETURNED, "in-range-throws:get_cstr", "get_cstr threw although a NUL follows", ctxt());
          VCHECK(s == slice(st, c, z - c), "slice:get_cstr", "get_cstr returned ", hex(s), ctxt());
          if (adv) exp_cur = z + 1;
        } else {
          VCHECK(o == THREW_OOR, cat(c == UINT64_MAX ? "wrap-accepted:" : "oob-accepted:", name), "get_cstr returned ", hex(s), " without a terminator inside the data", ctxt());
        }
        break;
      }
      case A_TRUNCATE: {
        bool threw = false;
        try {
          r.truncate(size);
        } catch (const std::exception&) {
          // (which exception class reports an attempt to extend is not part of the statement)
          threw = true;
        }
        if (size > n) {
          VCHECK(threw, "truncate-extends", "truncate(", size, ") on ", n, " bytes did not throw", ctxt());
        } else {
          VCHECK(!threw, "truncate-throws", "truncate(", size, ") on ", n, " bytes threw", ctxt());
          st.n = size;
        }
        VCHECK(r.size() == st.n, "truncate-size", "size() is ", r.size(), " after truncate, expected ", st.n, ctxt());
        VCHECK(r.pread(0, SIZE_MAX) == slice(st, 0, st.n), "truncate-extent", "pread(0, SIZE_MAX) after truncate returns ", r.pread(0, SIZE_MAX).size(), " bytes", ctxt());
        break;
      }
    }
  } else {
    throw std::logic_error("unknown accessor code");
  }

  // cursor invariant: no operation other than go() (and a truncate below the cursor) moves the cursor beyond the end
  uint64_t w = r.where();
  if (acc != A_GO && acc != A_TRUNCATE && sane) {
    VCHECK(w <= st.n, cat("cursor-past-end:", name), name, " left the cursor at ", w, " of ", st.n, ctxt());
  }
  if (sane && check_cur) {
    if (acc == A_TRUNCATE) {
      // The statement does not say where the cursor is after truncate(): leaving it where it was (possibly beyond the
      // new end, like go()) and pulling it back inside the shortened data are both fine; what truncate() may not do is
      // put a cursor that it moves beyond the end. The model continues from wherever the cursor is.
      VCHECK(w == exp_cur || w <= st.n, cat("cursor:", name), name, " moved the cursor from ", exp_cur, " to ", w, " which is beyond the new end ", st.n, ctxt());
    } else {
      VCHECK(w == exp_cur, cat("cursor:", name), name, " left the cursor at ", w, ", expected ", exp_cur, ctxt());
    }
  }
  st.cur = w;
  VCHECK(r.size() == st.n, "size-changed", "size() is ", r.size(), " expected ", st.n, ctxt());
  if (w <= st.n) {
    VCHECK(r.remaining() == st.n - w && r.eof() == (w >= st.n), "remaining", "remaining() is ", r.remaining(), " eof() ", r.eof(), " at ", w, " of ", st.n, ctxt());
  } else {
    VCHECK(r.eof(), "eof-beyond-end", "eof() false with the cursor beyond the end", ctxt());
  }
  if (stepped) {
    // the history goes on inside the sub-reader: its window is [win + off, win + off + len) of the original data
    if (st.depth >= 1 && (st.win > 0 || next_off > 0)) st.interesting = true;
    ctx().cls(st.depth == 0 ? "nest:sub-reader of the root reader" : (st.win > 0 ? "nest:sub-reader of a sub-reader that starts inside its parent" : "nest:sub-reader of a sub-reader that starts at its parent's first byte"));
    st.views.push_back(State::View{*st.r, st.win, st.n, st.cur, "the reader the history stepped out of"});
    *st.r = next;
    st.win += next_off;
    st.n = next_len;
    st.cur = 0;
    st.depth++;
    if (!next_base_known) st.base_known = false;
  }
}

// case: n = [len, seed, flags, then triples (acc, a, b)]
//   flags: bit 0: text alphabet with NUL / LF / CR; bits 1-2: constructor (0 pointer+size, 1 const std::string&, 2 shared_ptr<string>);
//          bit 3: the constructor's initial-offset argument is passed explicitly - its value is the `a` of the first triple when that
//          is a go() (which the constructor call then replaces), otherwise 0
static void run_reader_case(const Case& c, bool single) {
  if (c.n.size() < 3 || (c.n.size() - 3) % 3 != 0) throw std::logic_error("malformed case");
  uint64_t len = c.u(0), flags = c.u(2);
  if (len > 4096) throw std::logic_error("length outside the generated domain");
  uint64_t ctor = (flags >> 1) & 3;
  bool with_offset = (flags >> 3) & 1;
  if (ctor > C_SHARED || (flags >> 4)) throw std::logic_error("bad flags");
  State st;
  st.d = make_data(len, c.u(1), flags & 1);
  st.n = len;
  size_t nops = (c.n.size() - 3) / 3, first = 0;
  uint64_t start = 0;
  if (with_offset && nops >= 1 && c.u(3) == A_GO) {
    start = c.u(4);
    first = 1;
  }
  switch (ctor) {
    case C_POINTER:
      st.blk.reset(new uint8_t[len]);
      memcpy(st.blk.get(), st.d.data(), len);
      st.base0 = st.blk.get();
      st.r.reset(with_offset ? new StringReader(st.blk.get(), len, start) : new StringReader(st.blk.get(), len));
      break;
    case C_STRING:
      st.str.assign(reinterpret_cast<const char*>(st.d.data()), len);
      st.base0 = reinterpret_cast<const uint8_t*>(st.str.data());
      st.r.reset(with_offset ? new StringReader(st.str, start) : new StringReader(st.str));
      break;
    default:
      st.shared = std::make_shared<std::string>(reinterpret_cast<const char*>(st.d.data()), len);
      st.base0 = reinterpret_cast<const uint8_t*>(st.shared->data());
      st.r.reset(with_offset ? new StringReader(st.shared, start) : new StringReader(st.shared));
      break;
  }
  ctx().cls(cat("ctor:", kCtorName[ctor], with_offset ? " with offset" : ""));
  {
    // what the constructor must have set up: n bytes, the cursor where it was told to be (0 by default)
    const StringReader& r = *st.r;
    std::string how = cat("StringReader", kCtorName[ctor], with_offset ? cat(" with offset ", start) : std::string(), " over ", len, " bytes");
    VCHECK(r.size() == len, cat("ctor-size:", kCtorName[ctor]), how, ": size() is ", r.size());
    VCHECK(r.where() == start || (start > len && r.where() == len), cat("ctor-cursor:", kCtorName[ctor]), how, ": where() is ", r.where());
    if (r.where() != start) start = r.where(); // (an offset beyond the data may be clamped to its end, like go())
    VCHECK(r.pread(0, SIZE_MAX) == slice(st, 0, len), cat("ctor-content:", kCtorName[ctor]), how, ": pread(0, SIZE_MAX) differs from the data");
    st.cur = start;
  }
  st.ctor = ctor;
  st.views.push_back(State::View{StringReader(*st.r), 0, static_cast<size_t>(len), start, "a by-value copy of the reader made before the history"});
  switch (ctor) {
    case C_POINTER: st.views.push_back(State::View{StringReader(st.blk.get(), len), 0, static_cast<size_t>(len), 0, "a second reader over the same block"}); break;
    case C_STRING: st.views.push_back(State::View{StringReader(st.str), 0, static_cast<size_t>(len), 0, "a second reader over the same string"}); break;
    default: st.views.push_back(State::View{StringReader(st.shared), 0, static_cast<size_t>(len), 0, "a second reader built from the same shared_ptr"}); break;
  }
  for (size_t k = first; k < nops; k++) {
    apply_op(st, c.u(3 + 3 * k), c.u(4 + 3 * k), c.u(5 + 3 * k), k);
    check_other_views(st, k, c.u(3 + 3 * k));
  }
  if (st.interesting) {
    if (single) {
      // distinct by (constructor, accessor(s), n, offset, size): the data seed does not count
      uint64_t h = mix(mix(hash_str("pos"), len), flags >> 1);
      for (size_t k = 3; k < c.n.size(); k++) h = mix(h, c.n[k]);
      ctx().nontrivial(h);
    } else {
      ctx().nontrivial_case();
    }
  }
}
static void run_pos(const Case& c) { run_reader_case(c, true); }
static void run_hist(const Case& c) {
  run_reader_case(c, false);
  size_t nops = (c.n.size() - 3) / 3;
  ctx().cls(nops <= 5 ? "hist:ops<=5" : nops <= 15 ? "hist:ops<=15" : "hist:ops<=30");
}

// ---------------------------------------------------------------- writers

struct ScalarKind {
  unsigned type, form;
};
static std::vector<ScalarKind> scalar_kinds() {
  std::vector<ScalarKind> v;
  for (unsigned t = 0; t < T_COUNT; t++)
    for (unsigned f = 0; f < 4; f++)
      if (valid_scalar(t, f)) v.push_back({t, f});
  return v;
}
static const std::vector<ScalarKind>& kinds() {
  static const std::vector<ScalarKind> v = scalar_kinds();
  return v;
}

// case: n = [cap, seed, then triples (op, a, b)]
//   0 pwrite(a = off, ptr, b = size)   1 pwrite(a = off, string of b bytes (b <= 80))
//   2 write(ptr, a = size)             3 write(string of a bytes (a <= 80))
//   10+k put_<k>()                     60+k pput_<k>(a = off)        value bits = splitmix(seed, op index)
static void run_bw(const Case& c) {
  if (c.n.size() < 2 || (c.n.size() - 2) % 3 != 0) throw std::logic_error("bw: malformed case");
  uint64_t cap = c.u(0), seed = c.u(1);
  if (cap > 4096) throw std::logic_error("bw: capacity outside the generated domain");
  const size_t G = 16;
  std::vector<uint8_t> model(cap, 0xCD);
  std::unique_ptr<uint8_t[]> blk(new uint8_t[cap + 2 * G]);
  memset(blk.get(), 0xA5, cap + 2 * G);
  memset(blk.get() + G, 0xCD, cap);
  BufferWriter w(blk.get() + G, cap);
  uint64_t cur = 0;
  bool seq_overflowed = false;
  bool interesting = false;
  size_t nops = (c.n.size() - 2) / 3;
  for (size_t k = 0; k < nops; k++) {
    uint64_t op = c.u(2 + 3 * k), a = c.u(3 + 3 * k), b = c.u(4 + 3 * k);
    uint64_t vs = seed + k * 0x1234567;
    uint64_t bits = splitmix(vs);
    uint64_t off, size;
    bool cursor_op;
    std::string name;
    std::vector<uint8_t> payload; // what must land when the write is in range
    std::function<void()> call;
    std::unique_ptr<uint8_t[]> src;
    std::string ssrc;
    if (op <= 3) {
      cursor_op = op >= 2;
      off = cursor_op ? cur : a;
      size = cursor_op ? a : b;
      bool as_string = (op & 1) && size <= 80;
      name = cat(cursor_op ? "write" : "pwrite", as_string ? "(string)" : "(ptr)");
      bool in = fits(off, size, cap);
      size_t have = in ? size : std::min<uint64_t>(size, cap + 1); // the callee may not read the source before it has validated the range
      if (as_string) have = size;
      payload.resize(have);
      uint64_t ps = vs ^ 0xABCDEF;
      for (auto& x : payload) x = static_cast<uint8_t>(splitmix(ps));
      if (as_string) {
        ssrc.assign(payload.begin(), payload.end());
        if (cursor_op) call = [&] { w.write(ssrc); };
        else call = [&] { w.pwrite(off, ssrc); };
      } else {
        src.reset(new uint8_t[have]);
        memcpy(src.get(), payload.data(), have);
        if (cursor_op) call = [&] { w.write(src.get(), size); };
        else call = [&] { w.pwrite(off, src.get(), size); };
      }
    } else if ((op >= 10 && op < 10 + kinds().size()) || (op >= 60 && op < 60 + kinds().size())) {
      cursor_op = op < 60;
      ScalarKind sk = kinds()[cursor_op ? op - 10 : op - 60];
      off = cursor_op ? cur : a;
      size = kWidth[sk.type];
      name = cat(cursor_op ? "put_" : "pput_", scalar_name(sk.type, sk.form));
      payload.resize(size);
      ref_encode(payload.data(), size, form_is_big(sk.form), bits & width_mask(size));
      if (cursor_op) call = [&, sk] { do_put(w, sk.type, sk.form, bits); };
      else call = [&, sk] { do_pput(w, off, sk.type, sk.form, bits); };
    } else {
      throw std::logic_error("bw: unknown op");
    }
    if (interesting_pair(off, size, cap)) interesting = true;
    bool in = fits(off, size, cap);
    bool threw = false;
    std::string what;
    try {
      call();
    } catch (const std::exception& e) {
      threw = true;
      what = e.what();
    }
    auto ctxt = [&]() { return cat(" [op #", k, " ", name, " offset=", off, " size=", size, " capacity=", cap, "]"); };
    if (in && threw && cursor_op && seq_overflowed) {
      // "either stores inside its buffer or throws": after a sequential write that did not fit, a writer may count as full and refuse
      // later sequential writes too (the record stream is broken anyway) - counted, the model is left as it is
      ctx().cls("bw:sequential write refused after an earlier overflow");
      continue;
    }
    if (!in && cursor_op) seq_overflowed = true;
    if (in) {
      VCHECK(!threw, cat("in-range-throws:", name), name, " threw (", what, ") for a write inside the buffer", ctxt());
      memcpy(model.data() + off, payload.data(), size);
      if (cursor_op) cur += size;
    } else {
      VCHECK(threw, cat(wraps(off, size) ? "wrap-accepted:" : "oob-accepted:", name), name, " accepted a write outside the buffer", ctxt());
    }
    for (size_t i = 0; i < G; i++) {
      VCHECK(blk[i] == 0xA5 && blk[G + cap + i] == 0xA5, cat("guard:", name), name, " changed a guard byte ", (i), " around the buffer", ctxt());
    }
    for (size_t i = 0; i < cap; i++) {
      VCHECK(blk[G + i] == model[i], cat("content:", name), "byte ", i, " of the buffer is ", (unsigned)blk[G + i], " expected ", (unsigned)model[i], ctxt());
    }
  }
  if (interesting) ctx().nontrivial_case();
}

// case: n = [seed, then triples (op, a, b)]
//   0 write(block of a bytes)  5 extend_by(a)  6 reset  10+k put_<k>()  60+k pput_<k>(a = off), off <= 4096+64 or off >= 2^63
static void run_sw(const Case& c) {
  if (c.n.size() < 1 || (c.n.size() - 1) % 3 != 0) throw std::logic_error("sw: malformed case");
  uint64_t seed = c.u(0);
  std::vector<uint8_t> m;
  StringWriter w;
  bool interesting = false;
  size_t nops = (c.n.size() - 1) / 3;
  const u128 max_size = std::string().max_size();
  for (size_t k = 0; k < nops; k++) {
    uint64_t op = c.u(1 + 3 * k), a = c.u(2 + 3 * k);
    uint64_t vs = seed + k * 0x1234567;
    uint64_t bits = splitmix(vs);
    std::string name = "?";
    if (op == 0) {
      if (a > 4096) throw std::logic_error("sw: block outside the generated domain");
      std::string blk = vg::expand(bits, a);
      w.write(blk);
      m.insert(m.end(), blk.begin(), blk.end());
      name = "write";
    } else if (op == 5) {
      if (a > 4096) throw std::logic_error("sw: extension outside the generated domain");
      w.extend_by(a, static_cast<char>(bits));
      m.insert(m.end(), a, static_cast<uint8_t>(bits));
      name = "extend_by";
    } else if (op == 6) {
      w.reset();
      m.clear();
      name = "reset";
    } else if (op >= 10 && op < 10 + kinds().size()) {
      ScalarKind sk = kinds()[op - 10];
      uint8_t enc[8];
      unsigned wd = kWidth[sk.type];
      ref_encode(enc, wd, form_is_big(sk.form), bits & width_mask(wd));
      do_put(w, sk.type, sk.form, bits);
      m.insert(m.end(), enc, enc + wd);
      name = cat("put_", scalar_name(sk.type, sk.form));
    } else if (op >= 60 && op < 60 + kinds().size()) {
      ScalarKind sk = kinds()[op - 60];
      unsigned wd = kWidth[sk.type];
      uint64_t off = a;
      if (off > 4096 + 64 && off < (1ULL << 63)) throw std::logic_error("sw: positional offset in the range that would really allocate");
      name = cat("pput_", scalar_name(sk.type, sk.form));
      if (interesting_pair(off, wd, m.size())) interesting = true;
      bool can_grow = static_cast<u128>(off) + wd <= max_size;
      bool threw = false;
      std::string what;
      try {
        do_pput(w, off, sk.type, sk.form, bits);
      } catch (const std::exception& e) {
        threw = true;
        what = e.what();
      }
      if (can_grow) {
        VCHECK(!threw, cat("in-range-throws:", name), name, "(", off, ") threw (", what, ")");
        uint8_t enc[8];
        ref_encode(enc, wd, form_is_big(sk.form), bits & width_mask(wd));
        if (off + wd > m.size()) m.resize(off + wd, 0);
        memcpy(m.data() + off, enc, wd);
      } else {
        VCHECK(threw, cat(wraps(off, wd) ? "wrap-accepted:" : "oob-accepted:", name), name, "(", off, ") on a writer of ", m.size(), " bytes neither grew the buffer to cover the write nor threw");
      }
    } else {
      throw std::logic_error("sw: unknown op");
    }
    VCHECK(w.size() == m.size(), cat("size:", name), "size() is ", w.size(), " after op #", k, " ", name, ", model has ", m.size());
    VCHECK(w.str().size() == m.size() && memcmp(w.str().data(), m.data(), m.size()) == 0, cat("content:", name), "buffer differs from the model after op #", k, " ", name, ": ", hex(w.str()), " vs ", hex(std::string(m.begin(), m.end())));
  }
  if (interesting) ctx().nontrivial_case();
}

// ---------------------------------------------------------------- generators

static std::vector<uint64_t> boundary_set(uint64_t n) {
  std::vector<uint64_t> v = {0, 1, 2, 3, 4, 6, 8, n, n + 1, n + 2, 1ULL << 31, (1ULL << 32) - 1, 1ULL << 32, (1ULL << 63) - 1, 1ULL << 63, (1ULL << 63) + 1};
  if (n >= 1) v.push_back(n - 1);
  if (n >= 2) v.push_back(n - 2);
  for (uint64_t k = 1; k <= 9; k++) v.push_back(0 - k);
  std::sort(v.begin(), v.end());
  v.erase(std::unique(v.begin(), v.end()), v.end());
  return v;
}

// an offset or size relative to a buffer of n bytes
static uint64_t gen_arg(uint64_t n) {
  switch (vg::below(10)) {
    case 0:
    case 1:
    case 2:
    case 3: return vg::below(n + 3);
    case 4: return vg::below(9);
    case 5:
    case 6:
    case 7: return vg::pick(boundary_set(n));
    case 8: return 0 - (1 + vg::below(n + 10)); // 2^64 - k with k up to just beyond n: sums that wrap to inside the buffer
    default: return vg::interesting64();
  }
}

// constructor form: half of the cases the (pointer, size) form over an exactly-sized heap block (the one ASan guards best)
static uint64_t gen_ctor_flags() {
  uint64_t ctor = vg::coin() ? C_POINTER : (vg::coin() ? C_STRING : C_SHARED);
  return (ctor << 1) | (vg::chance(1, 3) ? 8 : 0);
}
// step into a sub-reader; mostly inside the parent so that the history has something left to read
static void gen_descend(Case& c, uint64_t n) {
  uint64_t off = vg::chance(4, 5) ? vg::below(n + 1) : gen_arg(n);
  uint64_t rest = off <= n ? n - off : 0;
  uint64_t size = vg::chance(4, 5) ? vg::below(rest + 1) : gen_arg(n);
  c.N(A_DESCEND + vg::below(4)).N(off).N(size);
}

static void gen_reader_op(Case& c, uint64_t n) {
  uint64_t pick = vg::below(100);
  if (pick < 7) {
    gen_descend(c, n);
  } else if (pick < 17) {
    c.N(A_GO).N(vg::chance(2, 3) ? vg::below(n + 2) : gen_arg(n)).N(0);
  } else if (pick < 45) {
    c.N(A_PGETV + vg::below(A_PGET_T - A_PGETV + 1)).N(gen_arg(n)).N(gen_arg(n));
  } else if (pick < 80) {
    uint64_t acc = A_GETV + vg::below(A_GET_T - A_GETV + 1);
    if (acc == A_TRUNCATE && vg::chance(2, 3)) acc = A_SKIP;
    c.N(acc).N(acc == A_TRUNCATE ? (vg::coin() ? n - vg::below(std::min<uint64_t>(n, 3) + 1) : gen_arg(n)) : gen_arg(n)).N(vg::below(4));
  } else if (pick < 90) {
    c.N(A_TYPED_PGET + vg::below(kTypedCount)).N(gen_arg(n)).N(0);
  } else {
    c.N(A_TYPED_GET + vg::below(kTypedCount)).N(vg::below(4)).N(0);
  }
}

static Case gen_hist() {
  Case c("hist");
  uint64_t n = vg::chance(1, 10) ? vg::below(3) : vg::below(65);
  c.N(n).N(vg::u64()).N(vg::below(2) | gen_ctor_flags());
  uint64_t nops = 1 + vg::scaled(29);
  for (uint64_t k = 0; k < nops; k++) gen_reader_op(c, n);
  return c;
}

static Case gen_pos() {
  Case c("pos");
  uint64_t n = vg::below(65);
  c.N(n).N(vg::u64()).N(vg::below(2) | gen_ctor_flags());
  if (vg::chance(1, 6)) {
    // the accessor is called on a sub-reader of a sub-reader (the generated arguments stay relative to the root length: the
    // windows only get shorter, so they still cover inside / at the end / beyond)
    gen_descend(c, n);
    if (vg::chance(2, 3)) gen_descend(c, n);
  }
  uint64_t pick = vg::below(100);
  if (pick < 45) {
    c.N(A_PGETV + vg::below(A_PGET_T - A_PGETV + 1)).N(gen_arg(n)).N(gen_arg(n));
  } else if (pick < 80) {
    c.N(A_GO).N(gen_arg(n)).N(0);
    c.N(A_GETV + vg::below(A_GET_T - A_GETV + 1)).N(gen_arg(n)).N(vg::below(4));
  } else if (pick < 90) {
    c.N(A_TYPED_PGET + vg::below(kTypedCount)).N(gen_arg(n)).N(0);
  } else {
    c.N(A_GO).N(gen_arg(n)).N(0);
    c.N(A_TYPED_GET + vg::below(kTypedCount)).N(vg::below(4)).N(0);
  }
  return c;
}

static Case gen_bw() {
  Case c("bw");
  uint64_t cap = vg::below(65);
  c.N(cap).N(vg::u64());
  uint64_t nops = 1 + vg::scaled(11);
  for (uint64_t k = 0; k < nops; k++) {
    uint64_t pick = vg::below(100);
    if (pick < 25) c.N(vg::below(2)).N(gen_arg(cap)).N(gen_arg(cap));
    else if (pick < 45) c.N(2 + vg::below(2)).N(vg::chance(3, 4) ? vg::below(cap / 3 + 2) : gen_arg(cap)).N(0);
    else if (pick < 65) c.N(10 + vg::below(kinds().size())).N(0).N(0);
    else c.N(60 + vg::below(kinds().size())).N(gen_arg(cap)).N(0);
  }
  return c;
}

static Case gen_sw() {
  Case c("sw");
  c.N(vg::u64());
  uint64_t nops = 1 + vg::scaled(11);
  uint64_t size = 0;
  for (uint64_t k = 0; k < nops; k++) {
    uint64_t pick = vg::below(100);
    if (pick < 15) {
      uint64_t a = vg::below(20);
      c.N(0).N(a).N(0);
      size += a;
    } else if (pick < 20) {
      uint64_t a = vg::below(20);
      c.N(5).N(a).N(0);
      size += a;
    } else if (pick < 23) {
      c.N(6).N(0).N(0);
      size = 0;
    } else if (pick < 45) {
      uint64_t k2 = vg::below(kinds().size());
      c.N(10 + k2).N(0).N(0);
      size += kWidth[kinds()[k2].type];
    } else {
      uint64_t k2 = vg::below(kinds().size());
      uint64_t off;
      switch (vg::below(8)) {
        case 0: off = vg::below(size + 1); break;
        case 1: off = size + vg::below(65); break;
        case 2: off = size >= 8 ? size - vg::below(9) : vg::below(size + 1); break;
        case 3: off = vg::below(4097); break;
        case 4: off = 0 - (1 + vg::below(size + 10)); break; // sums that wrap to inside the buffer
        case 5: off = 0 - (1 + vg::below(9)); break;
        case 6: off = (1ULL << 63) + vg::below(3); break;
        default: off = (1ULL << 63) | (vg::u64() >> 1); break;
      }
      if (off > 4096 && off < (1ULL << 63)) off = 4096; // keep clear of the range that would really allocate
      c.N(60 + k2).N(off).N(0);
      uint64_t wd = kWidth[kinds()[k2].type];
      if (off <= 4096 + 64 && off + wd > size) size = off + wd;
    }
  }
  return c;
}

// ---------------------------------------------------------------- enumerators

// the boundary grid: n x accessor x offset x size
static void enum_pos(Enum& e) {
  std::vector<uint64_t> lens;
  for (uint64_t n = 0; n <= 8; n++) lens.push_back(n);
  if (e.thorough()) {
    for (uint64_t n = 9; n <= 16; n++) lens.push_back(n);
    lens.push_back(63);
    lens.push_back(64);
  }
  uint64_t idx = 0;
  for (uint64_t n : lens) {
    std::vector<uint64_t> bs = boundary_set(n);
    for (uint64_t acc = A_PGETV; acc <= A_GET_T && !e.stop; acc++) {
      bool text = (acc == A_PGET_CSTR || acc == A_GET_LINE || acc == A_GET_CSTR || acc == A_SKIP_IF);
      for (uint64_t off : bs) {
        if (!e.mine(idx++)) continue;
        uint64_t si = 0;
        for (uint64_t size : bs) {
          si++;
          uint64_t variants = (acc > A_PGET_T || text) ? 2 : 1;
          for (uint64_t variant = 0; variant < variants; variant++) {
            Case c("pos");
            c.N(n).N(n * 31 + acc + variant * 977 + (text ? si * 7919 : 0)).N(text ? 1 : 0);
            if (acc <= A_PGET_T) {
              c.N(acc).N(off).N(size);
            } else {
              c.N(A_GO).N(off).N(0);
              c.N(acc).N(size).N(1 - variant);
            }
            e.exec(c);
          }
        }
      }
    }
    for (unsigned k = 0; k < kTypedCount && !e.stop; k++) {
      if (!e.mine(idx++)) continue;
      for (uint64_t off : bs) {
        e.exec(Case("pos").N(n).N(n * 131 + k).N(0).N(A_TYPED_PGET + k).N(off).N(0));
        e.exec(Case("pos").N(n).N(n * 131 + k).N(0).N(A_GO).N(off).N(0).N(A_TYPED_GET + k).N(1).N(0));
        e.exec(Case("pos").N(n).N(n * 131 + k).N(0).N(A_GO).N(off).N(0).N(A_TYPED_GET + k).N(0).N(0));
      }
    }
  }
  // the other constructor forms: every accessor on a reader built by each of the six forms, (offset, size) from a reduced set
  for (uint64_t n = 0; n <= 8 && !e.stop; n++) {
    std::vector<uint64_t> rs = {0, 1, n, n + 1, 0 - 1ULL};
    if (n >= 1) rs.push_back(n - 1);
    std::sort(rs.begin(), rs.end());
    rs.erase(std::unique(rs.begin(), rs.end()), rs.end());
    for (uint64_t form = 1; form < 6; form++) { // form 0 (pointer+size without offset) is the grid above
      uint64_t fl = ((form >> 1) << 1) | ((form & 1) ? 8 : 0);
      for (uint64_t acc = A_PGETV; acc <= A_GET_T; acc++) {
        if (!e.mine(idx++)) continue;
        bool text = (acc == A_PGET_CSTR || acc == A_GET_LINE || acc == A_GET_CSTR || acc == A_SKIP_IF);
        for (uint64_t off : rs)
          for (uint64_t size : rs) {
            Case c("pos");
            c.N(n).N(n * 37 + acc + form * 101).N((text ? 1 : 0) | fl);
            if (acc <= A_PGET_T) c.N(acc).N(off).N(size);
            else c.N(A_GO).N(off).N(0).N(acc).N(size).N(1);
            e.exec(c);
          }
      }
      for (unsigned k = 0; k < kTypedCount; k++) {
        if (!e.mine(idx++)) continue;
        for (uint64_t off : rs) {
          e.exec(Case("pos").N(n).N(n * 131 + k + form).N(fl).N(A_TYPED_PGET + k).N(off).N(0));
          e.exec(Case("pos").N(n).N(n * 131 + k + form).N(fl).N(A_GO).N(off).N(0).N(A_TYPED_GET + k).N(1).N(0));
        }
      }
    }
  }
  // sub-readers of sub-readers: both levels over every (offset, size) in 0..n+1, every pair of the four sub forms, three constructors
  for (uint64_t n = 0; n <= 4 && !e.stop; n++) {
    for (uint64_t ctor = 0; ctor < 3; ctor++)
      for (uint64_t off1 = 0; off1 <= n + 1; off1++) {
        if (!e.mine(idx++)) continue;
        for (uint64_t size1 = 0; size1 <= n + 1; size1++)
          for (uint64_t f1 = 0; f1 < 4; f1++)
            for (uint64_t off2 = 0; off2 <= n + 1; off2++)
              for (uint64_t size2 = 0; size2 <= n + 1; size2++)
                for (uint64_t f2 = 0; f2 < 4; f2++)
                  e.exec(Case("pos").N(n).N(n * 41 + off1 * 7 + size1).N(ctor << 1).N(A_DESCEND + f1).N(off1).N(size1).N(A_DESCEND + f2).N(off2).N(size2));
      }
  }
  e.complete(cat("buffer lengths ", e.thorough() ? "0..16, 63, 64" : "0..8", " x every accessor (27 offset/size accessors, 26 typed pget_*, 26 typed get_* with and without advance) x all pairs "
                                                                                  "(offset, size) of the boundary set {0,1,2,3,4,6,8,n-2..n+2,2^31,2^32-1,2^32,2^63-1,2^63,2^63+1,2^64-9..2^64-1} on a reader built from (pointer, size); "
                                                                                  "lengths 0..8 x the five other constructor forms ((pointer,size,offset), const std::string& and shared_ptr<string> with and without offset) x every accessor x "
                                                                                  "all pairs of {0,1,n-1,n,n+1,2^64-1}; lengths 0..4 x three constructors x sub-reader of a sub-reader: every pair of the four sub/subx forms x every "
                                                                                  "(offset, size) in 0..n+1 at both levels"));
}

static void enum_bw(Enum& e) {
  uint64_t idx = 0;
  for (uint64_t cap = 0; cap <= 8 && !e.stop; cap++) {
    std::vector<uint64_t> bs = boundary_set(cap);
    for (uint64_t off : bs) {
      if (!e.mine(idx++)) continue;
      for (uint64_t size : bs) {
        e.exec(Case("bw").N(cap).N(cap * 7 + 1).N(0).N(off).N(size));
        if (size <= 80) e.exec(Case("bw").N(cap).N(cap * 7 + 2).N(1).N(off).N(size));
        // cursor form: move the cursor to `off` with an in-range write first (when possible), then write `size`
        if (off <= cap) {
          e.exec(Case("bw").N(cap).N(cap * 7 + 3).N(2).N(off).N(0).N(2).N(size).N(0));
          if (size <= 80) e.exec(Case("bw").N(cap).N(cap * 7 + 4).N(2).N(off).N(0).N(3).N(size).N(0));
        }
      }
      for (uint64_t k = 0; k < kinds().size(); k++) {
        e.exec(Case("bw").N(cap).N(cap * 7 + k).N(60 + k).N(off).N(0));
        if (off <= cap) e.exec(Case("bw").N(cap).N(cap * 7 + k).N(2).N(off).N(0).N(10 + k).N(0).N(0));
      }
    }
  }
  e.complete("capacities 0..8 x {pwrite, write after moving the cursor} x all (offset, size) pairs of the boundary set; every put_*/pput_* at every boundary offset");
}

static void enum_sw(Enum& e) {
  uint64_t idx = 0;
  for (uint64_t size = 0; size <= 8 && !e.stop; size++) {
    std::vector<uint64_t> bs = boundary_set(size);
    for (uint64_t off : bs) {
      if (!e.mine(idx++)) continue;
      if (off > 4096 && off < (1ULL << 63)) {
        e.x.exclude("StringWriter::pput offset in (4096, 2^63): would really allocate up to 2^63 bytes (ASan's operator new aborts instead of throwing)", kinds().size());
        continue;
      }
      for (uint64_t k = 0; k < kinds().size(); k++) e.exec(Case("sw").N(size * 3 + k).N(0).N(size).N(0).N(60 + k).N(off).N(0));
    }
  }
  e.complete("writer sizes 0..8 x every pput_* x every boundary offset that is <= 4096 or >= 2^63");
}

int main(int argc, char** argv) {
  std::vector<SubCheck> checks;
  checks.push_back({"pos", run_pos, gen_pos, 300000, 1500000, 100, enum_pos});
  checks.push_back({"hist", run_hist, gen_hist, 200000, 1500000, 100, nullptr});
  checks.push_back({"bw", run_bw, gen_bw, 120000, 800000, 100, enum_bw});
  checks.push_back({"sw", run_sw, gen_sw, 120000, 800000, 100, enum_sw});
  return main_(argc, argv, checks);
}
