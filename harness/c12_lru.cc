// C12 - LRUSet / LRUMap behave as a reference recency list under every operation history.
// The whole check lives in c12/lru_harness.hh; this TU is the build without the members that do not compile on
// an unrepaired tree (LRUMap::insert(const K&, const V&), LRUMap::at() const). c12_lru_gated.cc is the same
// harness with those operations enabled; oracle/c12_gated.py builds and runs it (and reports a failure of the
// compile probe as a violation instead of an infrastructure error). c12_lru_ndebug.cc is the same harness compiled
// the way a release consumer of the headers compiles them (-DNDEBUG -O2).
#include "c12/lru_harness.hh"

using namespace c12;

// Three builds of this one source:
//   c12_lru.cc         the plain build (ASan+UBSan, assertions on)
//   c12_lru_gated.cc   + the members that do not compile on an unrepaired tree
//   c12_lru_ndebug.cc  compiled with -DNDEBUG -O2, the configuration of a release consumer of these header-only templates: the
//                      property speaks of the containers, not of one build configuration of them, and whatever the headers do
//                      inside assert() is gone there. Subcheck names carry the suffix _nd. (Nothing in harness/verif.hh or in this
//                      harness uses assert(): the oracle is the same in both configurations.)
#if defined(C12_GATED)
static const bool kGated = true;
static const bool kNdebug = false;
#define C12_SUFFIX "_g"
#elif defined(C12_NDEBUG_BUILD)
#ifndef NDEBUG
#error "c12_lru_ndebug.cc must be compiled with -DNDEBUG (stage flags in run/props.d/C12.py)"
#endif
static const bool kGated = false;
static const bool kNdebug = true;
#define C12_SUFFIX "_nd"
#else
#ifdef NDEBUG
#error "the plain C12 build keeps assertions on"
#endif
static const bool kGated = false;
static const bool kNdebug = false;
#define C12_SUFFIX ""
#endif

// exhaustive plan of one subcheck: complete up to `*_full`, and up to `*_pruned` without the histories that hold a throwing
// no-op before their last operation (see Stats::prune_noops); big_* = the extreme-sizes alphabet; 0 = not enumerated
struct Plan {
  unsigned core_full, ext_full, core_pruned, ext_pruned, big_full, big_pruned;
};

int main(int argc, char** argv) {
  std::vector<Variant> variants;
#ifndef C12_GATED
  variants.push_back({"set_int" C12_SUFFIX, false, replay_set<int64_t>, 0, 1});
  variants.push_back({"set_str" C12_SUFFIX, false, replay_set<std::string>, 0, 1});
  // key types that own a resource and have a cheap noexcept hash (not cached in the hash table's nodes), see lru_harness.hh
  variants.push_back({"set_path" C12_SUFFIX, false, replay_set<PathKey>, 0, 1});
  variants.push_back({"set_sptr" C12_SUFFIX, false, replay_set<SharedKey>, 0, 1});
#endif
  variants.push_back({"map_int" C12_SUFFIX, true, replay_map<int64_t, int64_t>, 2, 3});
  variants.push_back({"map_str" C12_SUFFIX, true, replay_map<std::string, std::string>, 2, 3});
  variants.push_back({"map_path" C12_SUFFIX, true, replay_map<PathKey, std::string>, 2, 3});
#ifndef C12_GATED
  variants.push_back({"map_sptr" C12_SUFFIX, true, replay_map<SharedKey, int64_t>, 2, 3});
#endif

  // large-population histories (mode 2) on the key types whose key number may be any unsigned (the std::string keys grow with their
  // number, the shared_ptr keys live in a table of 200)
  for (Variant& v : variants) {
    if (v.name == "set_int" C12_SUFFIX) v.bulk = replay_bulk<SetProbe<int64_t>, int64_t, int64_t, false>;
    else if (v.name == "set_path" C12_SUFFIX) v.bulk = replay_bulk<SetProbe<PathKey>, PathKey, std::string, false>;
    else if (v.name == "map_int" C12_SUFFIX) v.bulk = replay_bulk<MapProbe<int64_t, int64_t>, int64_t, int64_t, true>;
    else if (v.name == "map_path" C12_SUFFIX) v.bulk = replay_bulk<MapProbe<PathKey, std::string>, PathKey, std::string, true>;
  }

  bool thorough = false;
  for (int i = 1; i + 1 < argc; i++)
    if (std::string(argv[i]) == "--tier") thorough = std::string(argv[i + 1]) == "thorough";

  std::vector<SubCheck> checks;
  for (const Variant& v : variants) {
    SubCheck sc;
    sc.name = v.name;
    sc.run = make_run(v, kGated);
    sc.gen = [v]() { return gen_history(v, kGated); };
    bool is_int = v.name.find("_int") != std::string::npos;
    bool is_str = v.name.find("_str") != std::string::npos;
    bool is_path = v.name.find("_path") != std::string::npos;
    bool is_sptr = v.name.find("_sptr") != std::string::npos;
    // random histories over all shards (quick / thorough); the int64 and std::string budgets of the plain and the gated build are
    // the ones the check always had
    if (kGated) {
      sc.quick_cases = is_path ? 5000 : 15000;
      sc.thorough_cases = is_path ? 80000 : 150000;
    } else if (kNdebug) {
      sc.quick_cases = is_int ? 12000 : is_sptr ? 3000 : (is_path && v.is_map) ? 4000 : 6000;
      sc.thorough_cases = is_int ? 120000 : is_sptr ? 30000 : 60000;
    } else {
      sc.quick_cases = is_int ? 40000 : is_sptr ? 6000 : is_str ? 20000 : v.is_map ? 12000 : 15000;
      sc.thorough_cases = is_int ? 400000 : is_sptr ? 60000 : 150000;
    }
    sc.max_size = 100;
    // exhaustive histories: the full plan on the integer-keyed containers of the plain and the gated build; a reduced plan on the
    // integer-keyed containers of the NDEBUG build and on the path-keyed containers
    Plan pl{0, 0, 0, 0, 0, 0};
    if (is_int && !kNdebug) {
      if (!v.is_map) pl = thorough ? Plan{5, 4, 7, 6, 4, 5} : Plan{4, 3, 6, 5, 3, 4}; // 14 / 24 shapes
      else if (!kGated) pl = thorough ? Plan{5, 4, 7, 5, 4, 5} : Plan{4, 3, 6, 4, 3, 4}; // 17 / 30 shapes
      else pl = thorough ? Plan{4, 3, 6, 5, 4, 5} : Plan{3, 2, 5, 4, 3, 4}; // 17 / 33 shapes
    } else if (is_int && kNdebug) {
      if (!v.is_map) pl = thorough ? Plan{4, 3, 6, 5, 3, 4} : Plan{3, 2, 5, 4, 2, 3};
      else pl = thorough ? Plan{4, 3, 6, 4, 3, 4} : Plan{3, 2, 5, 3, 2, 3};
    } else if (is_path && !kGated) {
      if (!kNdebug) pl = thorough ? Plan{4, 3, 6, 4, 3, 4} : Plan{3, 2, 5, 3, 2, 3};
      else pl = thorough ? Plan{3, 2, 5, 3, 2, 3} : Plan{3, 2, 4, 2, 0, 0};
    }
    if (pl.core_full) {
      sc.enumerate = [v, pl](Enum& e) {
        uint64_t block = 0;
        enumerate_alphabet(e, v, kGated, v.core_alpha, pl.core_full, false, block);
        enumerate_alphabet(e, v, kGated, v.ext_alpha, pl.ext_full, false, block);
        enumerate_alphabet(e, v, kGated, v.core_alpha, pl.core_pruned, true, block);
        enumerate_alphabet(e, v, kGated, v.ext_alpha, pl.ext_pruned, true, block);
        // sizes at the corners of size_t / ssize_t on new and existing keys
        unsigned big_alpha = v.is_map ? 5 : 4;
        if (pl.big_full) {
          enumerate_alphabet(e, v, kGated, big_alpha, pl.big_full, false, block);
          enumerate_alphabet(e, v, kGated, big_alpha, pl.big_pruned, true, block);
        }
        enumerate_bulk(e, v, block);
        auto al = make_alphabets(kGated);
        const Alphabet& ca = al[v.core_alpha];
        const Alphabet& xa = al[v.ext_alpha];
        std::string big;
        if (pl.big_full)
          big = cat("; every history of length 1..", pl.big_full, " (1..", pl.big_pruned, " without interior throwing no-ops) over the ", al[big_alpha].shapes.size(),
              " shapes of '", al[big_alpha].name, "' (sizes 1, 2, 2^63, 2^63+1, SIZE_MAX, touch with SSIZE_MAX, on 3 keys)");
        e.complete(cat("every history of length 1..", pl.core_full, " over the ", ca.shapes.size(), " operation shapes of alphabet '", ca.name, "' and 1..", pl.ext_full, " over the ",
            xa.shapes.size(), " shapes of '", xa.name, "'; every history of length 1..", pl.core_pruned, " ('", ca.name, "') and 1..", pl.ext_pruned, " ('", xa.name,
            "') except those with a throwing no-op (absent-key touch/change_size/lookup, evict on empty) before the last operation, which are state-equivalent to a shorter enumerated history "
            "(3 keys, sizes {0,1,2}, a second instance reachable through swap)", big,
            "; large-population histories (N keys built up, drained by evict_object to a rest, every eviction and peek compared): N = 2600, 5400, 11000", e.thorough() ? ", 2358, 7000, 16000" : ""));
      };
    }
    checks.push_back(sc);
  }
  return main_(argc, argv, checks);
}
