// C12 - LRUSet / LRUMap behave as a reference recency list under every operation history.
// The whole check lives in c12/lru_harness.hh; this TU is the build without the members that do not compile on
// an unrepaired tree (LRUMap::insert(const K&, const V&), LRUMap::at() const). c12_lru_gated.cc is the same
// harness with those operations enabled; oracle/c12_gated.py builds and runs it (and reports a failure of the
// compile probe as a violation instead of an infrastructure error).
#include "c12/lru_harness.hh"

using namespace c12;

#ifdef C12_GATED
static const bool kGated = true;
#define C12_SUFFIX "_g"
#else
static const bool kGated = false;
#define C12_SUFFIX ""
#endif

int main(int argc, char** argv) {
  std::vector<Variant> variants;
#ifndef C12_GATED
  variants.push_back({"set_int", false, replay_set<int64_t>, 0, 1});
  variants.push_back({"set_str", false, replay_set<std::string>, 0, 1});
#endif
  variants.push_back({"map_int" C12_SUFFIX, true, replay_map<int64_t, int64_t>, 2, 3});
  variants.push_back({"map_str" C12_SUFFIX, true, replay_map<std::string, std::string>, 2, 3});

  bool thorough = false;
  for (int i = 1; i + 1 < argc; i++)
    if (std::string(argv[i]) == "--tier") thorough = std::string(argv[i + 1]) == "thorough";

  std::vector<SubCheck> checks;
  for (const Variant& v : variants) {
    SubCheck sc;
    sc.name = v.name;
    sc.run = make_run(v, kGated);
    sc.gen = [v]() { return gen_history(v, kGated); };
    bool str = v.name.find("_str") != std::string::npos;
    sc.quick_cases = kGated ? 15000 : (str ? 20000 : 40000);
    sc.thorough_cases = kGated ? 150000 : (str ? 150000 : 400000);
    sc.max_size = 100;
    if (!str) {
      // exhaustive histories on the integer-keyed containers: complete up to `full`, and up to `pruned` without the
      // histories that hold a throwing no-op before their last operation (see Stats::prune_noops)
      struct Plan {
        unsigned core_full, ext_full, core_pruned, ext_pruned;
      };
      Plan pl;
      if (!v.is_map) pl = thorough ? Plan{5, 4, 7, 6} : Plan{4, 3, 6, 5}; // 14 / 24 shapes
      else if (!kGated) pl = thorough ? Plan{5, 4, 7, 5} : Plan{4, 3, 6, 4}; // 17 / 30 shapes
      else pl = thorough ? Plan{4, 3, 6, 5} : Plan{3, 2, 5, 4}; // 17 / 33 shapes
      sc.enumerate = [v, pl](Enum& e) {
        uint64_t block = 0;
        enumerate_alphabet(e, v, kGated, v.core_alpha, pl.core_full, false, block);
        enumerate_alphabet(e, v, kGated, v.ext_alpha, pl.ext_full, false, block);
        enumerate_alphabet(e, v, kGated, v.core_alpha, pl.core_pruned, true, block);
        enumerate_alphabet(e, v, kGated, v.ext_alpha, pl.ext_pruned, true, block);
        // sizes at the corners of size_t / ssize_t on new and existing keys
        unsigned big_alpha = v.is_map ? 5 : 4;
        bool th = e.thorough();
        enumerate_alphabet(e, v, kGated, big_alpha, th ? 4 : 3, false, block);
        enumerate_alphabet(e, v, kGated, big_alpha, th ? 5 : 4, true, block);
        auto al = make_alphabets(kGated);
        const Alphabet& ca = al[v.core_alpha];
        const Alphabet& xa = al[v.ext_alpha];
        e.complete(cat("every history of length 1..", pl.core_full, " over the ", ca.shapes.size(), " operation shapes of alphabet '", ca.name, "' and 1..", pl.ext_full, " over the ",
            xa.shapes.size(), " shapes of '", xa.name, "'; every history of length 1..", pl.core_pruned, " ('", ca.name, "') and 1..", pl.ext_pruned, " ('", xa.name,
            "') except those with a throwing no-op (absent-key touch/change_size/lookup, evict on empty) before the last operation, which are state-equivalent to a shorter enumerated history "
            "(3 keys, sizes {0,1,2}, a second instance reachable through swap); every history of length 1..", th ? 4 : 3, " (1..", th ? 5 : 4,
            " without interior throwing no-ops) over the ", al[big_alpha].shapes.size(), " shapes of '", al[big_alpha].name,
            "' (sizes 1, 2, 2^63, 2^63+1, SIZE_MAX, touch with SSIZE_MAX, on 3 keys)"));
      };
    }
    checks.push_back(sc);
  }
  return main_(argc, argv, checks);
}
