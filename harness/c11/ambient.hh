// ambient.hh - ambient process state for the C11 checks (same construction as harness/c10/ambient.hh).
#pragma once
#include <errno.h>
#include <locale.h>
#include <stdint.h>

#include <locale>
#include <stdexcept>
#include <string>

namespace c11 {

// ---------------------------------------------------------------- ambient process state
//
// Every function of C11 is a function of its arguments alone. Like errno, the process-wide locale is state that a
// rendering built on iostreams or printf can pick up by accident: a std::ostringstream takes on the global C++ locale, whose
// numpunct facet groups digits in EVERY base. The clauses are therefore also run with
//   1  global C++ locale = classic + numpunct<char>/<wchar_t> grouping by 3 with ',' (what en_US / de_DE style locales do)
//   2  global C++ locale = classic + numpunct grouping "\1\2" with '.' and decimal point ',' ; errno = ERANGE
//   3  C locale (setlocale LC_ALL) switched to C.UTF-8 (only C / C.utf8 / POSIX are installed here), global C++ locale named the
//      same when available; errno = EINVAL
// The previous locales are restored when the guard goes out of scope; nothing of the harness formats text while it is active.
template <typename C>
struct GroupingPunct : std::numpunct<C> {
  std::string g;
  C sep, point;
  GroupingPunct(std::string g, C sep, C point) : g(std::move(g)), sep(sep), point(point) {}
  C do_thousands_sep() const override { return sep; }
  C do_decimal_point() const override { return point; }
  std::string do_grouping() const override { return g; }
};
inline constexpr uint64_t kAmbientModes = 4;
inline const char* const kAmbientNames[kAmbientModes] = {"", "global-locale-groups-by-3", "global-locale-groups-1-2+errno", "C.UTF-8-locale+errno"};
struct Ambient {
  uint64_t mode;
  std::locale prev_cpp;
  std::string prev_c;
  explicit Ambient(uint64_t m) : mode(m) {
    if (mode >= kAmbientModes) throw std::logic_error("C11: unknown ambient mode");
    if (!mode) return;
    const char* cur = setlocale(LC_ALL, nullptr);
    prev_c = cur ? cur : "C";
    switch (mode) {
      case 1: {
        std::locale l(std::locale::classic(), new GroupingPunct<char>("\3", ',', '.'));
        prev_cpp = std::locale::global(std::locale(l, new GroupingPunct<wchar_t>("\3", L',', L'.')));
        break;
      }
      case 2: {
        std::locale l(std::locale::classic(), new GroupingPunct<char>("\1\2", '.', ','));
        prev_cpp = std::locale::global(std::locale(l, new GroupingPunct<wchar_t>("\1\2", L'.', L',')));
        errno = ERANGE;
        break;
      }
      default: {
        std::locale l = std::locale::classic();
        for (const char* name : {"C.UTF-8", "C.utf8", "POSIX"}) {
          try {
            l = std::locale(name);
            break;
          } catch (const std::runtime_error&) {
          }
        }
        prev_cpp = std::locale::global(l); // sets the C locale too when the locale has a name
        if (!setlocale(LC_ALL, "C.UTF-8")) setlocale(LC_ALL, "C.utf8");
        errno = EINVAL;
      }
    }
  }
  ~Ambient() {
    if (!mode) return;
    std::locale::global(prev_cpp);
    setlocale(LC_ALL, prev_c.c_str());
  }
  Ambient(const Ambient&) = delete;
  Ambient& operator=(const Ambient&) = delete;
};

} // namespace c11
