// c06/codecs.hh - independent image codecs for property C06.
//
// Everything here is written from the format specifications (Netpbm ppm/pgm/pam man pages, the
// BITMAPFILEHEADER / BITMAPINFOHEADER / BITMAPV4HEADER / BITMAPV5HEADER layouts, the PNG
// specification sections 5 (chunks, CRC), 9 (filtering) and 11.2.2 (IHDR)), not from phosg's
// Image.cc. zlib is used only to inflate the IDAT stream (with the window size the stream's header declares); the chunk CRC is computed with an own
// bitwise CRC-32.
//
// Shared by the rapidcheck harness (harness/c06_image_codecs.cc) and the libFuzzer target
// (fuzz/c06_truncate.cc).
#pragma once

#include <fcntl.h>
#include <stdint.h>
#include <stdio.h>
#include <string.h>
#include <sys/mman.h>
#include <unistd.h>

#include <algorithm>
#include <stdexcept>
#include <string>
#include <typeinfo>
#include <vector>

#include <zlib.h>

#include <phosg/Image.hh>

extern "C" size_t __sanitizer_get_current_allocated_bytes() __attribute__((weak));
extern "C" int __lsan_do_recoverable_leak_check() __attribute__((weak));

namespace c06 {

// ------------------------------------------------------------------ pixel arrays

struct Pix {
  size_t w = 0, h = 0;
  bool alpha = false;
  unsigned cw = 8; // channel width in bits: 8/16/32/64
  std::vector<uint64_t> v; // 4 values (r,g,b,a) per pixel; a is meaningless when !alpha

  uint64_t at(size_t x, size_t y, int c) const { return v[(y * w + x) * 4 + c]; }
  bool same_pixels(const Pix& o) const {
    if (w != o.w || h != o.h || alpha != o.alpha || cw != o.cw) return false;
    for (size_t i = 0; i < w * h; i++) {
      for (int c = 0; c < (alpha ? 4 : 3); c++) {
        if (v[i * 4 + c] != o.v[i * 4 + c]) return false;
      }
    }
    return true;
  }
  std::string first_difference(const Pix& o) const {
    char buf[256];
    if (w != o.w || h != o.h || alpha != o.alpha || cw != o.cw) {
      snprintf(buf, sizeof(buf), "header %zux%zu alpha=%d cw=%u vs %zux%zu alpha=%d cw=%u", w, h, alpha, cw, o.w, o.h, o.alpha, o.cw);
      return buf;
    }
    for (size_t i = 0; i < w * h; i++) {
      for (int c = 0; c < (alpha ? 4 : 3); c++) {
        if (v[i * 4 + c] != o.v[i * 4 + c]) {
          snprintf(buf, sizeof(buf), "pixel (%zu,%zu) channel %d: 0x%llx vs 0x%llx", i % w, i / w, c, (unsigned long long)v[i * 4 + c], (unsigned long long)o.v[i * 4 + c]);
          return buf;
        }
      }
    }
    return "";
  }
};

inline uint64_t mask_of(unsigned cw) { return cw >= 64 ? UINT64_MAX : ((1ULL << cw) - 1); }

struct Rng {
  uint64_t s;
  explicit Rng(uint64_t seed) : s(seed * 0x9E3779B97F4A7C15ULL + 0x2545F4914F6CDD1DULL) {
    if (!s) s = 1;
  }
  uint64_t next() {
    s ^= s << 13;
    s ^= s >> 7;
    s ^= s << 17;
    return s * 0x2545F4914F6CDD1DULL;
  }
};

// style: 0 random, 1 gradients, 2 all zero, 3 all max, 4 random with many 0 / max samples,
//   5 repeated / nearly repeated rows (a row is a copy of the row above with 0..2 samples changed anywhere, or new),
//   6 flat background with sparse marks (adjacent rows equal or differing in a few pixels),
//   7 every row equals the first one except for marks at the right / left edge
//   8 few-level noise: every sample is one of L = 2..16 values (L and the values from the seed), and the bottom 0..3 rows repeat
//     the top rows - low-entropy content without short-range structure: a compressor finds matches all over the image, incl.
//     at the largest distances the image allows (noise has no matches, smooth / periodic content only near ones)
// (5..7: content with vertical redundancy - what row filters and compressors key on; uniformly random pixels never have it)
constexpr unsigned kPixStyles = 9;
inline Pix make_pix(size_t w, size_t h, bool alpha, unsigned cw, unsigned style, uint64_t seed, uint64_t limit = 0) {
  Pix p;
  p.w = w;
  p.h = h;
  p.alpha = alpha;
  p.cw = cw;
  p.v.resize(w * h * 4);
  uint64_t m = mask_of(cw);
  if (limit && limit < m) m = limit;
  Rng r(seed);
  style %= kPixStyles;
  auto clampv = [&](uint64_t val) -> uint64_t {
    if (m == UINT64_MAX) return val;
    if ((m & (m + 1)) == 0) return val & m;
    return (style == 3) ? m : val % (m + 1);
  };
  if (style == 8) {
    uint64_t k = r.next() >> 16;
    unsigned levels = 2 + static_cast<unsigned>(k % 15);
    size_t rep = (k >> 8) % 4; // bottom `rep` rows = top `rep` rows
    if (rep * 2 > h) rep = h / 2;
    uint64_t pal[16];
    for (unsigned i = 0; i < levels; i++) pal[i] = clampv(r.next());
    for (size_t i = 0; i < w * h * 4; i++) p.v[i] = pal[(r.next() >> 24) % levels];
    for (size_t j = 0; j < rep; j++) memcpy(&p.v[(h - rep + j) * w * 4], &p.v[j * w * 4], w * 4 * sizeof(uint64_t));
    return p;
  }
  if (style >= 5) {
    uint64_t bg[4];
    for (int c = 0; c < 4; c++) bg[c] = clampv(r.next());
    for (size_t y = 0; y < h; y++) {
      uint64_t* row = &p.v[y * w * 4];
      const uint64_t* up = y ? row - w * 4 : nullptr;
      uint64_t k = r.next() >> 16;
      if (style == 5) {
        if (up && (k & 1)) {
          memcpy(row, up, w * 4 * sizeof(uint64_t));
          unsigned changes = (k >> 1) % 3;
          for (unsigned j = 0; j < changes; j++) {
            uint64_t q = r.next() >> 16;
            size_t x = (q & 3) == 0 ? w - 1 : (q >> 2) % w; // the last pixel a little more often
            int c = static_cast<int>((q >> 40) % (alpha ? 4 : 3));
            row[x * 4 + c] = clampv(row[x * 4 + c] + 1 + ((q >> 44) % 3 == 0 ? 0 : r.next()));
          }
        } else {
          for (size_t i = 0; i < w * 4; i++) row[i] = clampv(r.next());
        }
      } else if (style == 6) {
        for (size_t x = 0; x < w; x++) {
          bool mark = ((r.next() >> 20) & 15) == 0;
          for (int c = 0; c < 4; c++) row[x * 4 + c] = mark ? clampv(r.next()) : bg[c];
        }
      } else {
        if (!up) {
          for (size_t i = 0; i < w * 4; i++) row[i] = clampv(r.next());
        } else {
          memcpy(row, p.v.data(), w * 4 * sizeof(uint64_t));
          size_t x = (k % 3) == 0 ? w - 1 : (k % 6) == 1 ? 0 : w; // w = no mark
          if (x < w) {
            int c = static_cast<int>((k >> 8) % (alpha ? 4 : 3));
            row[x * 4 + c] = clampv(row[x * 4 + c] ^ (1ULL << ((k >> 12) % cw)));
          }
        }
      }
    }
    return p;
  }
  for (size_t y = 0; y < h; y++) {
    for (size_t x = 0; x < w; x++) {
      for (int c = 0; c < 4; c++) {
        uint64_t val;
        switch (style) {
          case 0: val = r.next(); break;
          case 1: {
            uint64_t base = c == 0 ? x : c == 1 ? y : c == 2 ? (x + y) : (x * y + 1);
            val = base * 0x0101010101010101ULL * 3 + (seed & 0xFF);
            break;
          }
          case 2: val = 0; break;
          case 3: val = UINT64_MAX; break;
          default: {
            uint64_t k = r.next();
            val = (k & 3) == 0 ? 0 : (k & 3) == 1 ? UINT64_MAX : (k >> 8);
          }
        }
        p.v[(y * w + x) * 4 + c] = clampv(val);
      }
    }
  }
  return p;
}

// ------------------------------------------------------------------ phosg <-> Pix

inline phosg::Image to_image(const Pix& p) {
  phosg::Image img(p.w, p.h, p.alpha, p.cw);
  for (size_t y = 0; y < p.h; y++) {
    for (size_t x = 0; x < p.w; x++) {
      img.write_pixel(x, y, p.at(x, y, 0), p.at(x, y, 1), p.at(x, y, 2), p.at(x, y, 3));
    }
  }
  return img;
}

// reads the raw buffer (not read_pixel): channel values in host order, 3 or 4 per pixel
inline Pix from_image(const phosg::Image& img) {
  Pix p;
  p.w = img.get_width();
  p.h = img.get_height();
  p.alpha = img.get_has_alpha();
  p.cw = img.get_channel_width();
  p.v.assign(p.w * p.h * 4, 0);
  size_t nc = p.alpha ? 4 : 3;
  const uint8_t* d = static_cast<const uint8_t*>(img.get_data());
  size_t bw = p.cw / 8;
  if (bw != 1 && bw != 2 && bw != 4 && bw != 8) throw std::logic_error("from_image: channel width is not 8/16/32/64");
  for (size_t i = 0; i < p.w * p.h; i++) {
    for (size_t c = 0; c < nc; c++) {
      uint64_t v = 0;
      memcpy(&v, d + (i * nc + c) * bw, bw); // little-endian host
      p.v[i * 4 + c] = v;
    }
  }
  return p;
}

// ------------------------------------------------------------------ in-memory files (memfd: real file semantics, no names on disk)

struct MemFile {
  int fd = -1;
  MemFile() {
    fd = memfd_create("c06", 0);
    if (fd < 0) throw std::logic_error("memfd_create failed");
  }
  ~MemFile() {
    if (fd >= 0) close(fd);
  }
  MemFile(const MemFile&) = delete;
  MemFile& operator=(const MemFile&) = delete;
  void set(const void* data, size_t n) {
    if (ftruncate(fd, 0) != 0) throw std::logic_error("ftruncate failed");
    size_t off = 0;
    while (off < n) {
      ssize_t r = pwrite(fd, static_cast<const char*>(data) + off, n - off, off);
      if (r <= 0) throw std::logic_error("pwrite failed");
      off += r;
    }
  }
  void cut(size_t n) {
    if (ftruncate(fd, n) != 0) throw std::logic_error("ftruncate failed");
  }
  FILE* open_read() {
    int d = dup(fd);
    if (d < 0) throw std::logic_error("dup failed");
    lseek(d, 0, SEEK_SET);
    FILE* f = fdopen(d, "rb");
    if (!f) throw std::logic_error("fdopen failed");
    return f;
  }
  FILE* open_write() {
    if (ftruncate(fd, 0) != 0) throw std::logic_error("ftruncate failed");
    int d = dup(fd);
    lseek(d, 0, SEEK_SET);
    FILE* f = fdopen(d, "wb");
    if (!f) throw std::logic_error("fdopen failed");
    return f;
  }
  std::string path() const { return "/proc/self/fd/" + std::to_string(fd); }
  std::string contents() {
    off_t n = lseek(fd, 0, SEEK_END);
    std::string r(n, '\0');
    size_t off = 0;
    while (off < static_cast<size_t>(n)) {
      ssize_t k = pread(fd, r.data() + off, n - off, off);
      if (k <= 0) throw std::logic_error("pread failed");
      off += k;
    }
    return r;
  }
};

struct Loaded {
  bool ok = false;
  bool std_exception = false;
  char exc_type[160] = {0};
  char exc_what[320] = {0};
  Pix pix;
  size_t data_size = 0;
  // allocation accounting (bytes, from the sanitizer allocator; all 0 when the interface is absent):
  long held_after_load = 0; // still allocated after the constructor returned/threw and the FILE was closed
  long expected_held = 0; // sizeof(Image) + pixel buffer on success, 0 on failure
  long held_after_destroy = 0; // still allocated after the Image was destroyed (must be 0)
  int equal = -1; // operator== of the loaded image against `same_as` (1/0), -1 when not compared
  int equal_rev = -1; // the same with the operands exchanged
};

inline size_t allocated_now() {
  return __sanitizer_get_current_allocated_bytes ? __sanitizer_get_current_allocated_bytes() : 0;
}

// Load the current contents of `mf` through phosg.
// via: 0 = Image(FILE*), 1 = Image(const char*), 2 = Image(const std::string&)
// same_as: when given, the loaded image is also compared with it through phosg's operator== / operator!= (both operand orders)
inline Loaded load_current(MemFile& mf, int via = 0, const phosg::Image* same_as = nullptr) {
  Loaded r;
  char path[64];
  snprintf(path, sizeof(path), "/proc/self/fd/%d", mf.fd);
  size_t before = allocated_now();
  FILE* f = via == 0 ? mf.open_read() : nullptr;
  phosg::Image* img = nullptr;
  try {
    if (via == 0) img = new phosg::Image(f);
    else if (via == 1) img = new phosg::Image(static_cast<const char*>(path));
    else img = new phosg::Image(std::string(path));
    r.ok = true;
  } catch (const std::exception& e) {
    r.std_exception = true;
    snprintf(r.exc_type, sizeof(r.exc_type), "%s", typeid(e).name());
    snprintf(r.exc_what, sizeof(r.exc_what), "%s", e.what());
  } catch (...) {
    snprintf(r.exc_type, sizeof(r.exc_type), "non-std exception");
  }
  if (f) fclose(f); // the stream and its buffer are the caller's, not phosg's
  r.held_after_load = static_cast<long>(allocated_now()) - static_cast<long>(before);
  if (img) {
    r.data_size = img->get_data_size();
    r.expected_held = static_cast<long>(sizeof(phosg::Image) + r.data_size);
    size_t b2 = allocated_now();
    r.pix = from_image(*img);
    size_t grown = allocated_now() - b2;
    if (same_as) {
      r.equal = (*img == *same_as) && !(*img != *same_as);
      r.equal_rev = (*same_as == *img) && !(*same_as != *img);
    }
    delete img;
    r.held_after_destroy = static_cast<long>(allocated_now()) - static_cast<long>(before) - static_cast<long>(grown);
  } else {
    r.held_after_destroy = r.held_after_load;
  }
  return r;
}

// ------------------------------------------------------------------ byte helpers

inline void put_le(std::string& s, uint64_t v, int bytes) {
  for (int i = 0; i < bytes; i++) s += static_cast<char>((v >> (8 * i)) & 0xFF);
}
inline void put_be(std::string& s, uint64_t v, int bytes) {
  for (int i = bytes - 1; i >= 0; i--) s += static_cast<char>((v >> (8 * i)) & 0xFF);
}
inline uint64_t get_le(const std::string& s, size_t off, int bytes) {
  if (off + bytes > s.size()) throw std::runtime_error("decoder: read past end of file");
  uint64_t v = 0;
  for (int i = 0; i < bytes; i++) v |= static_cast<uint64_t>(static_cast<uint8_t>(s[off + i])) << (8 * i);
  return v;
}
inline uint64_t get_be(const std::string& s, size_t off, int bytes) {
  if (off + bytes > s.size()) throw std::runtime_error("decoder: read past end of file");
  uint64_t v = 0;
  for (int i = 0; i < bytes; i++) v = (v << 8) | static_cast<uint8_t>(s[off + i]);
  return v;
}

// ------------------------------------------------------------------ file variants (encoders written from the specs)

enum Variant {
  V_P6 = 0, // binary ppm, maxval <= 255
  V_P5, // binary pgm, maxval <= 255
  V_P7_RGB,
  V_P7_RGBA,
  V_P7_GRAY,
  V_P7_GRAYA,
  V_P6_WIDE, // maxval > 255: only memory safety and (either byte order) sample identity
  V_P5_WIDE,
  V_P7_RGBA_WIDE,
  V_P7_GRAY_WIDE,
  V_P7_GRAYA_WIDE,
  V_BMP24,
  V_BMP32_RGB,
  V_BMP32_BITFIELDS,
  V_COUNT
};

inline const char* variant_name(int v) {
  static const char* n[] = {"P6", "P5", "P7-RGB", "P7-RGB_ALPHA", "P7-GRAYSCALE", "P7-GRAYSCALE_ALPHA", "P6-wide", "P5-wide",
      "P7-RGB_ALPHA-wide", "P7-GRAYSCALE-wide", "P7-GRAYSCALE_ALPHA-wide", "BMP24", "BMP32-BI_RGB", "BMP32-BI_BITFIELDS"};
  return (v >= 0 && v < V_COUNT) ? n[v] : "?";
}
inline bool variant_is_gray(int v) {
  return v == V_P5 || v == V_P7_GRAY || v == V_P7_GRAYA || v == V_P5_WIDE || v == V_P7_GRAY_WIDE || v == V_P7_GRAYA_WIDE;
}
inline bool variant_is_wide(int v) {
  return v == V_P6_WIDE || v == V_P5_WIDE || v == V_P7_RGBA_WIDE || v == V_P7_GRAY_WIDE || v == V_P7_GRAYA_WIDE;
}
inline bool variant_is_bmp(int v) { return v >= V_BMP24; }

struct FileSpec {
  std::string bytes;
  Pix expect; // what the format defines (samples as stored, host order for wide variants)
  Pix expect_swapped; // wide variants: the other byte order (accepted too, see DESIGN section 6 item 3)
  bool wide = false;
  size_t header_len = 0;
  std::vector<size_t> row_starts; // offsets of the rows of the raster
  std::string label;
  bool nondefault = false; // a container variant phosg's own save() never produces
  uint64_t maxval = 255; // the sample range the file declares (MAXVAL of a Netpbm file; 8-bit BMP channels: 255)
};

inline uint64_t bswap_n(uint64_t v, unsigned bytes) {
  uint64_t r = 0;
  for (unsigned i = 0; i < bytes; i++) r |= ((v >> (8 * i)) & 0xFF) << (8 * (bytes - 1 - i));
  return r;
}

// `vp` selects the sub-variant (whitespace, header order, maxval, header size, masks, direction, gap).
// `src` supplies the pixels: r is the gray level for grayscale variants. For <=255 variants src.cw must be 8.
inline FileSpec build_variant(int variant, uint64_t vp, uint64_t seed, size_t w, size_t h, unsigned style) {
  FileSpec fs;
  fs.label = variant_name(variant);
  Rng rng(seed ^ 0xABCDEF);
  static const char* kSeps[] = {"\n", " ", "\t", "\r\n", "  \n", "\n\n\t ", " \t"};
  static const char* kTerm[] = {"\n", " ", "\t"};

  if (!variant_is_bmp(variant)) {
    bool wide = variant_is_wide(variant);
    bool gray = variant_is_gray(variant);
    bool alpha = (variant == V_P7_RGBA || variant == V_P7_GRAYA || variant == V_P7_RGBA_WIDE || variant == V_P7_GRAYA_WIDE);
    bool p7 = (variant >= V_P7_RGB && variant <= V_P7_GRAYA) || (variant >= V_P7_RGBA_WIDE && variant <= V_P7_GRAYA_WIDE);
    uint64_t maxval;
    unsigned cw;
    if (!wide) {
      static const uint64_t mv[] = {255, 255, 255, 1, 100, 254, 7, 128};
      maxval = mv[vp % 8];
      cw = 8;
    } else {
      static const uint64_t mv[] = {65535, 0xFFFFFFFFULL, UINT64_MAX, 256, 1000, 65536, 70000, 0x100000000ULL, 0x123456789ULL, 300};
      maxval = mv[vp % 10];
      cw = maxval > 0xFFFFFFFFULL ? 64 : maxval > 0xFFFF ? 32 : 16;
    }
    uint64_t q = vp / (wide ? 10 : 8);
    Pix src = make_pix(w, h, alpha, cw, style, seed, maxval);
    fs.wide = wide;
    fs.maxval = maxval;
    fs.nondefault = p7 ? (variant != V_P7_RGBA && variant != V_P7_RGBA_WIDE) : gray;

    std::string hdr;
    if (!p7) {
      const char* s1 = kSeps[q % 7];
      const char* s2 = kSeps[(q / 7) % 7];
      const char* s3 = kSeps[(q / 49) % 7];
      const char* t = kTerm[(q / 343) % 3];
      if ((q % 7) || ((q / 7) % 7) != 1 || ((q / 49) % 7) != 1 || ((q / 343) % 3)) fs.nondefault = true;
      hdr = std::string(gray ? "P5" : "P6") + s1 + std::to_string(w) + s2 + std::to_string(h) + s3 + std::to_string(maxval) + t;
    } else {
      // five header lines in any order (the PAM specification does not fix one)
      std::vector<std::string> lines;
      lines.push_back("WIDTH " + std::to_string(w));
      lines.push_back("HEIGHT " + std::to_string(h));
      lines.push_back("DEPTH " + std::to_string((gray ? 1 : 3) + (alpha ? 1 : 0)));
      lines.push_back("MAXVAL " + std::to_string(maxval));
      lines.push_back(std::string("TUPLTYPE ") + (gray ? (alpha ? "GRAYSCALE_ALPHA" : "GRAYSCALE") : (alpha ? "RGB_ALPHA" : "RGB")));
      uint64_t perm = q % 120;
      if (perm) fs.nondefault = true;
      std::vector<std::string> ordered;
      std::vector<std::string> pool = lines;
      for (int k = 5; k >= 1; k--) {
        ordered.push_back(pool[perm % k]);
        pool.erase(pool.begin() + (perm % k));
        perm /= k;
      }
      bool trailing_space = (q / 120) % 2;
      hdr = "P7\n";
      for (size_t i = 0; i < ordered.size(); i++) {
        hdr += ordered[i];
        if (trailing_space && (i % 2)) hdr += " ";
        hdr += "\n";
      }
      hdr += "ENDHDR\n";
    }
    fs.bytes = hdr;
    fs.header_len = hdr.size();
    unsigned bw = cw / 8;
    Pix e;
    e.w = w;
    e.h = h;
    e.alpha = alpha;
    e.cw = cw;
    e.v.assign(w * h * 4, 0);
    Pix es = e;
    for (size_t y = 0; y < h; y++) {
      fs.row_starts.push_back(fs.bytes.size());
      for (size_t x = 0; x < w; x++) {
        uint64_t r = src.at(x, y, 0), g = src.at(x, y, 1), b = src.at(x, y, 2), a = src.at(x, y, 3);
        if (gray) g = b = r;
        // samples are written in host (little-endian) order for the wide variants: that is the
        // convention of phosg's own wide files; the specification's big-endian reading of the same
        // bytes is kept in expect_swapped and accepted as well.
        if (gray) {
          put_le(fs.bytes, r, bw);
        } else {
          put_le(fs.bytes, r, bw);
          put_le(fs.bytes, g, bw);
          put_le(fs.bytes, b, bw);
        }
        if (alpha) put_le(fs.bytes, a, bw);
        size_t i = (y * w + x) * 4;
        e.v[i] = r;
        e.v[i + 1] = g;
        e.v[i + 2] = b;
        e.v[i + 3] = alpha ? a : 0;
        es.v[i] = bswap_n(r, bw);
        es.v[i + 1] = bswap_n(g, bw);
        es.v[i + 2] = bswap_n(b, bw);
        es.v[i + 3] = alpha ? bswap_n(a, bw) : 0;
      }
    }
    fs.expect = e;
    fs.expect_swapped = es;
    char buf[64];
    snprintf(buf, sizeof(buf), " maxval=%llu", (unsigned long long)maxval);
    fs.label += buf;
    return fs;
  }

  // ---- Windows bitmaps
  Pix src = make_pix(w, h, variant == V_BMP32_BITFIELDS, 8, style, seed);
  unsigned bpp = variant == V_BMP24 ? 24 : 32;
  uint64_t q = vp;
  unsigned hs;
  unsigned perm = 0;
  if (variant == V_BMP32_BITFIELDS) {
    static const unsigned sizes[] = {124, 108, 56};
    hs = sizes[q % 3];
    q /= 3;
    perm = q % 24;
    q /= 24;
  } else {
    static const unsigned sizes[] = {40, 108, 124};
    hs = sizes[q % 3];
    q /= 3;
  }
  bool top_down = q % 2;
  q /= 2;
  static const unsigned gaps[] = {0, 1, 2, 5, 64, 300};
  unsigned gap = gaps[q % 6];
  q /= 6;
  bool image_size_zero = q % 2;
  q /= 2;
  fs.nondefault = top_down || gap || (variant == V_BMP32_RGB) || (variant == V_BMP24 && hs != 40) ||
      (variant == V_BMP32_BITFIELDS && (hs != 124 || perm != 0));

  // byte position (0 = least significant byte of the little-endian pixel word) of r,g,b,a
  unsigned pos[4] = {0, 1, 2, 3};
  {
    std::vector<unsigned> pool = {0, 1, 2, 3};
    unsigned p = perm;
    for (int k = 4; k >= 1; k--) {
      pos[4 - k] = pool[p % k];
      pool.erase(pool.begin() + (p % k));
      p /= k;
    }
  }
  size_t stride = ((w * bpp + 31) / 32) * 4;
  size_t data_offset = 14 + hs + gap;
  size_t total = data_offset + stride * h;

  std::string& o = fs.bytes;
  o += "BM";
  put_le(o, total, 4);
  put_le(o, 0, 2);
  put_le(o, 0, 2);
  put_le(o, data_offset, 4);
  // BITMAPINFOHEADER
  put_le(o, hs, 4);
  put_le(o, static_cast<uint32_t>(static_cast<int32_t>(w)), 4);
  put_le(o, static_cast<uint32_t>(top_down ? -static_cast<int32_t>(h) : static_cast<int32_t>(h)), 4);
  put_le(o, 1, 2);
  put_le(o, bpp, 2);
  put_le(o, variant == V_BMP32_BITFIELDS ? 3 : 0, 4);
  put_le(o, image_size_zero && variant != V_BMP32_BITFIELDS ? 0 : stride * h, 4);
  put_le(o, 2835, 4);
  put_le(o, 2835, 4);
  put_le(o, 0, 4);
  put_le(o, 0, 4);
  if (hs >= 56) {
    if (variant == V_BMP32_BITFIELDS) {
      for (int c = 0; c < 4; c++) put_le(o, 0xFFULL << (8 * pos[c]), 4);
    } else {
      for (int c = 0; c < 4; c++) put_le(o, 0, 4);
    }
  }
  if (hs >= 108) {
    put_le(o, 0x73524742, 4); // LCS_sRGB
    for (int i = 0; i < 9; i++) put_le(o, 0, 4); // endpoints
    for (int i = 0; i < 3; i++) put_le(o, 0, 4); // gamma
  }
  if (hs >= 124) {
    put_le(o, 4, 4); // LCS_GM_IMAGES
    put_le(o, 0, 4);
    put_le(o, 0, 4);
    put_le(o, 0, 4);
  }
  if (o.size() != 14 + hs) throw std::logic_error("BMP encoder: header size mismatch");
  for (unsigned i = 0; i < gap; i++) o += static_cast<char>(0xE0 + (i & 0xF));
  fs.header_len = o.size();

  Pix e;
  e.w = w;
  e.h = h;
  e.alpha = (variant == V_BMP32_BITFIELDS);
  e.cw = 8;
  e.v.assign(w * h * 4, 0);
  for (size_t row = 0; row < h; row++) {
    size_t y = top_down ? row : (h - 1 - row); // bottom-up files store the last image row first
    fs.row_starts.push_back(o.size());
    size_t start = o.size();
    for (size_t x = 0; x < w; x++) {
      uint8_t r = src.at(x, y, 0), g = src.at(x, y, 1), b = src.at(x, y, 2), a = src.at(x, y, 3);
      size_t i = (y * w + x) * 4;
      e.v[i] = r;
      e.v[i + 1] = g;
      e.v[i + 2] = b;
      e.v[i + 3] = e.alpha ? a : 0;
      if (variant == V_BMP24) {
        o += static_cast<char>(b);
        o += static_cast<char>(g);
        o += static_cast<char>(r);
      } else if (variant == V_BMP32_RGB) {
        o += static_cast<char>(b);
        o += static_cast<char>(g);
        o += static_cast<char>(r);
        o += static_cast<char>(rng.next() | 1); // the unused byte is arbitrary
      } else {
        uint8_t px[4];
        px[pos[0]] = r;
        px[pos[1]] = g;
        px[pos[2]] = b;
        px[pos[3]] = a;
        o.append(reinterpret_cast<char*>(px), 4);
      }
    }
    while (o.size() - start < stride) o += static_cast<char>(0x5A); // padding content is not specified
  }
  if (o.size() != total) throw std::logic_error("BMP encoder: size mismatch");
  fs.expect = e;
  fs.expect_swapped = e;
  char buf[128];
  snprintf(buf, sizeof(buf), " hdr=%u %s gap=%u perm=%u", hs, top_down ? "top-down" : "bottom-up", gap, perm);
  fs.label += buf;
  return fs;
}

// number of distinct sub-variants of a variant (vp values beyond it repeat)
inline uint64_t variant_space(int variant) {
  switch (variant) {
    case V_P6:
    case V_P5: return 8ULL * 7 * 7 * 7 * 3;
    case V_P6_WIDE:
    case V_P5_WIDE: return 10ULL * 7 * 7 * 7 * 3;
    case V_P7_RGB:
    case V_P7_RGBA:
    case V_P7_GRAY:
    case V_P7_GRAYA: return 8ULL * 120 * 2;
    case V_P7_RGBA_WIDE:
    case V_P7_GRAY_WIDE:
    case V_P7_GRAYA_WIDE: return 10ULL * 120 * 2;
    case V_BMP24:
    case V_BMP32_RGB: return 3ULL * 2 * 6 * 2;
    case V_BMP32_BITFIELDS: return 3ULL * 24 * 2 * 6;
  }
  return 1;
}

// prefix lengths to try: every one for files <= 2 KiB; otherwise all inside the header, +-1 around
// every row boundary and the last 16 bytes.
inline std::vector<size_t> prefix_lengths(const FileSpec& fs, size_t small_limit = 2048) {
  std::vector<size_t> r;
  size_t n = fs.bytes.size();
  if (n <= small_limit) {
    for (size_t i = 0; i < n; i++) r.push_back(i);
    return r;
  }
  for (size_t i = 0; i <= fs.header_len + 2 && i < n; i++) r.push_back(i);
  for (size_t s : fs.row_starts) {
    for (long d = -1; d <= 1; d++) {
      long p = static_cast<long>(s) + d;
      if (p > static_cast<long>(fs.header_len + 2) && p < static_cast<long>(n)) r.push_back(p);
    }
  }
  for (size_t i = n > 16 ? n - 16 : 0; i < n; i++) r.push_back(i);
  std::sort(r.begin(), r.end());
  r.erase(std::unique(r.begin(), r.end()), r.end());
  return r;
}

// ------------------------------------------------------------------ independent decoders for what save() writes

struct DecodeError : std::runtime_error {
  explicit DecodeError(const std::string& s) : std::runtime_error(s) {}
};

inline uint32_t crc32_bitwise(const uint8_t* p, size_t n) {
  uint32_t c = 0xFFFFFFFFu;
  for (size_t i = 0; i < n; i++) {
    c ^= p[i];
    for (int k = 0; k < 8; k++) c = (c >> 1) ^ (0xEDB88320u & (0u - (c & 1)));
  }
  return c ^ 0xFFFFFFFFu;
}

// what the reader saw of the IDAT data (for the generator-distribution labels)
struct PngInfo {
  size_t idat_bytes = 0, idat_chunks = 0;
  unsigned window_bits = 0; // declared by the zlib header (CINFO + 8)
};

inline Pix decode_png(const std::string& f, PngInfo* info = nullptr) {
  static const uint8_t sig[8] = {137, 80, 78, 71, 13, 10, 26, 10};
  if (f.size() < 8 || memcmp(f.data(), sig, 8) != 0) throw DecodeError("PNG: bad signature");
  size_t off = 8;
  bool have_ihdr = false, have_iend = false, idat_done = false, in_idat = false;
  uint32_t w = 0, h = 0;
  unsigned color_type = 0;
  std::string idat;
  size_t chunk_index = 0;
  while (off < f.size()) {
    if (have_iend) throw DecodeError("PNG: data after IEND");
    uint32_t len = get_be(f, off, 4);
    if (len > 0x7FFFFFFFu) throw DecodeError("PNG: chunk length exceeds 2^31-1");
    if (off + 12 + static_cast<size_t>(len) > f.size()) throw DecodeError("PNG: chunk extends past the end of the file");
    std::string type = f.substr(off + 4, 4);
    for (char ch : type) {
      if (!((ch >= 'A' && ch <= 'Z') || (ch >= 'a' && ch <= 'z'))) throw DecodeError("PNG: chunk type is not alphabetic");
    }
    uint32_t crc = get_be(f, off + 8 + len, 4);
    uint32_t want = crc32_bitwise(reinterpret_cast<const uint8_t*>(f.data()) + off + 4, 4 + static_cast<size_t>(len));
    if (crc != want) throw DecodeError("PNG: CRC mismatch in chunk " + type);
    const std::string data = f.substr(off + 8, len);
    if (chunk_index == 0 && type != "IHDR") throw DecodeError("PNG: first chunk is not IHDR");
    if (type == "IHDR") {
      if (have_ihdr) throw DecodeError("PNG: two IHDR chunks");
      if (len != 13) throw DecodeError("PNG: IHDR length is not 13");
      have_ihdr = true;
      w = get_be(data, 0, 4);
      h = get_be(data, 4, 4);
      if (w == 0 || h == 0) throw DecodeError("PNG: zero dimension");
      if (static_cast<uint8_t>(data[8]) != 8) throw DecodeError("PNG: bit depth is not 8");
      color_type = static_cast<uint8_t>(data[9]);
      if (color_type != 2 && color_type != 6) throw DecodeError("PNG: colour type is not 2 or 6");
      if (data[10] != 0 || data[11] != 0 || data[12] != 0) throw DecodeError("PNG: compression/filter/interlace method not 0");
    } else if (type == "IDAT") {
      if (idat_done) throw DecodeError("PNG: IDAT chunks are not consecutive");
      in_idat = true;
      idat += data;
      if (info) info->idat_chunks++;
    } else if (type == "IEND") {
      if (len != 0) throw DecodeError("PNG: IEND is not empty");
      have_iend = true;
    } else {
      if (!(type[0] & 0x20)) throw DecodeError("PNG: unknown critical chunk " + type);
      if (type == "gAMA") {
        if (len != 4) throw DecodeError("PNG: gAMA length is not 4");
        if (in_idat) throw DecodeError("PNG: gAMA after IDAT");
      }
    }
    if (type != "IDAT" && in_idat) idat_done = true;
    off += 12 + static_cast<size_t>(len);
    chunk_index++;
  }
  if (!have_ihdr || !have_iend) throw DecodeError("PNG: IHDR or IEND missing");
  if (idat.empty()) throw DecodeError("PNG: no IDAT");
  size_t bpp = color_type == 6 ? 4 : 3;
  size_t stride = 1 + static_cast<size_t>(w) * bpp;
  std::vector<uint8_t> raw(stride * h + 1);
  // zlib header (RFC 1950 2.2; PNG 10.1: deflate, window <= 32 KiB, no preset dictionary)
  if (idat.size() < 2) throw DecodeError("PNG: IDAT data shorter than a zlib header");
  unsigned cmf = static_cast<uint8_t>(idat[0]), flg = static_cast<uint8_t>(idat[1]);
  if ((cmf & 15) != 8) throw DecodeError("PNG: zlib header: compression method is not 8 (deflate)");
  if ((cmf >> 4) > 7) throw DecodeError("PNG: zlib header: CINFO > 7 (window larger than 32 KiB)");
  if ((cmf * 256 + flg) % 31 != 0) throw DecodeError("PNG: zlib header: FCHECK wrong ((CMF*256+FLG) % 31 != 0)");
  if (flg & 0x20) throw DecodeError("PNG: zlib header: FDICT set (preset dictionary)");
  unsigned window_bits = (cmf >> 4) + 8;
  if (info) info->idat_bytes = idat.size(), info->window_bits = window_bits;
  // The stream is inflated with exactly the window its header declares (CINFO is a promise to the decoder: "no back-reference
  // reaches further than 2^(CINFO+8)"; decoders such as libpng size their window from it). With a 32 KiB window - the largest
  // distance deflate can encode - one call does; with a smaller declared window the output is taken one byte per call, so that
  // every match is copied out of zlib's sliding window, which holds min(bytes so far, 2^window_bits) bytes: a distance beyond
  // the declared window is then reported by zlib itself ("invalid distance too far back").
  z_stream zs;
  memset(&zs, 0, sizeof(zs));
  if (inflateInit2(&zs, static_cast<int>(window_bits)) != Z_OK) throw std::logic_error("inflateInit2 failed");
  zs.next_in = reinterpret_cast<Bytef*>(idat.data());
  zs.avail_in = idat.size();
  zs.next_out = raw.data();
  int zr;
  std::string zmsg;
  if (window_bits == 15) {
    zs.avail_out = raw.size();
    zr = inflate(&zs, Z_FINISH);
  } else {
    do {
      zs.avail_out = zs.total_out < raw.size() ? 1 : 0;
      zr = inflate(&zs, Z_NO_FLUSH);
    } while (zr == Z_OK && zs.total_out < raw.size());
    if (zr == Z_OK) zr = inflate(&zs, Z_FINISH); // room exhausted: Z_STREAM_END only if the stream ends here
  }
  if (zs.msg) zmsg = zs.msg;
  size_t produced = zs.total_out, consumed = zs.total_in;
  inflateEnd(&zs);
  if (zr == Z_DATA_ERROR && window_bits < 15 && zmsg.find("distance") != std::string::npos)
    throw DecodeError("PNG: zlib stream has a back-reference beyond the window its header declares (2^" + std::to_string(window_bits) + " bytes): " + zmsg);
  if (zr != Z_STREAM_END) throw DecodeError("PNG: zlib stream does not end cleanly (inflate returned " + std::to_string(zr) + (zmsg.empty() ? "" : ": " + zmsg) + ", " + std::to_string(idat.size()) + " bytes of IDAT data)");
  if (consumed != idat.size()) throw DecodeError("PNG: bytes after the end of the zlib stream");
  if (produced != stride * h) throw DecodeError("PNG: decompressed size is not height*(1+width*bpp)");
  Pix p;
  p.w = w;
  p.h = h;
  p.alpha = color_type == 6;
  p.cw = 8;
  p.v.assign(static_cast<size_t>(w) * h * 4, 0);
  std::vector<uint8_t> prev(stride - 1, 0), cur(stride - 1, 0);
  for (size_t y = 0; y < h; y++) {
    uint8_t ft = raw[y * stride];
    const uint8_t* line = raw.data() + y * stride + 1;
    for (size_t i = 0; i < stride - 1; i++) {
      int a = i >= bpp ? cur[i - bpp] : 0, b = prev[i], c = i >= bpp ? prev[i - bpp] : 0;
      int x = line[i];
      switch (ft) {
        case 0: break;
        case 1: x += a; break;
        case 2: x += b; break;
        case 3: x += (a + b) / 2; break;
        case 4: {
          int pp = a + b - c, pa = abs(pp - a), pb = abs(pp - b), pc = abs(pp - c);
          x += (pa <= pb && pa <= pc) ? a : (pb <= pc ? b : c);
          break;
        }
        default: throw DecodeError("PNG: unknown filter type");
      }
      cur[i] = static_cast<uint8_t>(x);
    }
    for (size_t x = 0; x < w; x++) {
      for (size_t c = 0; c < bpp; c++) p.v[(y * w + x) * 4 + c] = cur[x * bpp + c];
    }
    prev = cur;
  }
  return p;
}

// Strict reader for the BMP files save() is allowed to produce: 24-bit BI_RGB or 32-bit BI_BITFIELDS
// with whole-byte masks. Checks every header field the format fixes.
inline Pix decode_bmp(const std::string& f) {
  if (f.size() < 14 + 40) throw DecodeError("BMP: shorter than the two headers");
  if (f[0] != 'B' || f[1] != 'M') throw DecodeError("BMP: bad magic");
  uint32_t file_size = get_le(f, 2, 4);
  if (file_size != f.size()) throw DecodeError("BMP: bfSize " + std::to_string(file_size) + " is not the file length " + std::to_string(f.size()));
  if (get_le(f, 6, 2) != 0 || get_le(f, 8, 2) != 0) throw DecodeError("BMP: reserved fields not zero");
  uint32_t data_offset = get_le(f, 10, 4);
  uint32_t hs = get_le(f, 14, 4);
  if (hs != 40 && hs != 52 && hs != 56 && hs != 108 && hs != 124) throw DecodeError("BMP: unknown info header size " + std::to_string(hs));
  if (14 + static_cast<size_t>(hs) > f.size()) throw DecodeError("BMP: info header extends past the end");
  int32_t w = static_cast<int32_t>(get_le(f, 18, 4));
  int32_t hraw = static_cast<int32_t>(get_le(f, 22, 4));
  if (w <= 0 || hraw == 0) throw DecodeError("BMP: bad dimensions");
  bool top_down = hraw < 0;
  size_t h = top_down ? -static_cast<int64_t>(hraw) : hraw;
  if (get_le(f, 26, 2) != 1) throw DecodeError("BMP: biPlanes is not 1");
  unsigned bpp = get_le(f, 28, 2);
  uint32_t comp = get_le(f, 30, 4);
  uint32_t image_size = get_le(f, 34, 4);
  if (get_le(f, 46, 4) != 0) throw DecodeError("BMP: biClrUsed not zero for a true-colour image");
  unsigned pos[4] = {2, 1, 0, 3};
  bool alpha = false;
  size_t masks_extra = 0;
  if (bpp == 24) {
    if (comp != 0) throw DecodeError("BMP: 24-bit image must be BI_RGB");
  } else if (bpp == 32) {
    if (comp == 3) {
      uint32_t m[4] = {0, 0, 0, 0};
      if (hs >= 56) {
        for (int c = 0; c < 4; c++) m[c] = get_le(f, 54 + 4 * c, 4);
      } else if (hs == 52) {
        for (int c = 0; c < 3; c++) m[c] = get_le(f, 54 + 4 * c, 4);
      } else {
        for (int c = 0; c < 3; c++) m[c] = get_le(f, 54 + 4 * c, 4);
        masks_extra = 12;
      }
      uint32_t seen = 0;
      for (int c = 0; c < 4; c++) {
        if (c == 3 && m[c] == 0) {
          pos[3] = 99;
          continue;
        }
        unsigned k = 0;
        while (k < 4 && m[c] != (0xFFu << (8 * k))) k++;
        if (k == 4) throw DecodeError("BMP: channel mask is not a whole byte");
        if (seen & m[c]) throw DecodeError("BMP: channel masks overlap");
        seen |= m[c];
        pos[c] = k;
      }
      alpha = pos[3] != 99;
    } else if (comp != 0) {
      throw DecodeError("BMP: unsupported compression " + std::to_string(comp));
    }
  } else {
    throw DecodeError("BMP: bit depth is not 24 or 32");
  }
  size_t stride = ((static_cast<size_t>(w) * bpp + 31) / 32) * 4;
  if (data_offset < 14 + hs + masks_extra) throw DecodeError("BMP: bfOffBits points into the headers");
  if (static_cast<size_t>(data_offset) + stride * h > f.size()) throw DecodeError("BMP: pixel array extends past the end of the file");
  if (static_cast<size_t>(data_offset) + stride * h != f.size()) throw DecodeError("BMP: bytes after the pixel array");
  if (image_size != 0 && image_size != stride * h) throw DecodeError("BMP: biSizeImage " + std::to_string(image_size) + " is not stride*height " + std::to_string(stride * h));
  if (comp != 0 && image_size == 0) throw DecodeError("BMP: biSizeImage must be set for BI_BITFIELDS");
  Pix p;
  p.w = w;
  p.h = h;
  p.alpha = alpha;
  p.cw = 8;
  p.v.assign(static_cast<size_t>(w) * h * 4, 0);
  size_t bytes_pp = bpp / 8;
  for (size_t row = 0; row < h; row++) {
    size_t y = top_down ? row : h - 1 - row;
    const uint8_t* line = reinterpret_cast<const uint8_t*>(f.data()) + data_offset + row * stride;
    for (size_t x = 0; x < static_cast<size_t>(w); x++) {
      const uint8_t* px = line + x * bytes_pp;
      size_t i = (y * w + x) * 4;
      p.v[i] = px[pos[0]];
      p.v[i + 1] = px[pos[1]];
      p.v[i + 2] = px[pos[2]];
      p.v[i + 3] = alpha ? px[pos[3]] : 0;
    }
    for (size_t k = static_cast<size_t>(w) * bytes_pp; k < stride; k++) {
      if (line[k] != 0) throw DecodeError("BMP: row padding byte is not zero");
    }
  }
  return p;
}

struct PnmInfo {
  Pix pix;
  uint64_t maxval = 0;
  bool samples_decoded = false; // false for maxval > 65535 (outside the Netpbm formats: header and length only)
};

// P6 / P7 reader per the Netpbm specifications (whitespace-separated decimal header for P6, line
// oriented header for P7, 1 byte per sample for maxval < 256, else 2 bytes most significant first).
inline PnmInfo decode_pnm(const std::string& f) {
  PnmInfo r;
  if (f.size() < 3 || f[0] != 'P') throw DecodeError("PNM: bad magic");
  size_t off = 2;
  size_t w = 0, h = 0, depth = 0;
  uint64_t maxval = 0;
  std::string tupl;
  auto is_ws = [](char c) { return c == ' ' || c == '\t' || c == '\n' || c == '\r' || c == '\v' || c == '\f'; };
  if (f[1] == '6') {
    auto number = [&](const char* what) -> uint64_t {
      bool any_ws = false;
      for (;;) {
        if (off >= f.size()) throw DecodeError(std::string("PNM: header ends before ") + what);
        if (is_ws(f[off])) {
          off++;
          any_ws = true;
        } else if (f[off] == '#') {
          while (off < f.size() && f[off] != '\n') off++;
        } else break;
      }
      if (!any_ws) throw DecodeError(std::string("PNM: no whitespace before ") + what);
      if (f[off] < '0' || f[off] > '9') throw DecodeError(std::string("PNM: ") + what + " is not a decimal number");
      unsigned __int128 v = 0;
      while (off < f.size() && f[off] >= '0' && f[off] <= '9') {
        v = v * 10 + (f[off] - '0');
        if (v > UINT64_MAX) throw DecodeError("PNM: number too large");
        off++;
      }
      return static_cast<uint64_t>(v);
    };
    w = number("width");
    h = number("height");
    maxval = number("maxval");
    if (off >= f.size() || !is_ws(f[off])) throw DecodeError("PNM: no single whitespace after maxval");
    off++;
    depth = 3;
    tupl = "RGB";
  } else if (f[1] == '7') {
    if (f[2] != '\n') throw DecodeError("PAM: magic not followed by newline");
    off = 3;
    bool end = false;
    bool seen[4] = {false, false, false, false};
    while (!end) {
      size_t e = f.find('\n', off);
      if (e == std::string::npos) throw DecodeError("PAM: header not terminated");
      std::string line = f.substr(off, e - off);
      off = e + 1;
      size_t a = 0;
      while (a < line.size() && is_ws(line[a])) a++;
      if (a == line.size() || line[a] == '#') continue;
      size_t b = a;
      while (b < line.size() && !is_ws(line[b])) b++;
      std::string key = line.substr(a, b - a);
      while (b < line.size() && is_ws(line[b])) b++;
      std::string val = line.substr(b);
      while (!val.empty() && is_ws(val.back())) val.pop_back();
      auto num = [&]() -> uint64_t {
        if (val.empty()) throw DecodeError("PAM: missing value for " + key);
        unsigned __int128 v = 0;
        for (char c : val) {
          if (c < '0' || c > '9') throw DecodeError("PAM: value of " + key + " is not decimal");
          v = v * 10 + (c - '0');
          if (v > UINT64_MAX) throw DecodeError("PAM: number too large");
        }
        return static_cast<uint64_t>(v);
      };
      if (key == "ENDHDR") end = true;
      else if (key == "WIDTH") { w = num(); seen[0] = true; }
      else if (key == "HEIGHT") { h = num(); seen[1] = true; }
      else if (key == "DEPTH") { depth = num(); seen[2] = true; }
      else if (key == "MAXVAL") { maxval = num(); seen[3] = true; }
      else if (key == "TUPLTYPE") tupl += (tupl.empty() ? "" : " ") + val;
      else throw DecodeError("PAM: unknown header line " + key);
    }
    for (bool s : seen) {
      if (!s) throw DecodeError("PAM: WIDTH, HEIGHT, DEPTH and MAXVAL are all required");
    }
    if (tupl == "RGB_ALPHA") {
      if (depth != 4) throw DecodeError("PAM: RGB_ALPHA needs DEPTH 4");
    } else if (tupl == "RGB") {
      if (depth != 3) throw DecodeError("PAM: RGB needs DEPTH 3");
    } else {
      throw DecodeError("PAM: tuple type '" + tupl + "' is not a colour type");
    }
  } else {
    throw DecodeError("PNM: not P6 or P7");
  }
  if (w == 0 || h == 0) throw DecodeError("PNM: zero dimension");
  if (maxval == 0) throw DecodeError("PNM: maxval is zero");
  r.maxval = maxval;
  r.pix.w = w;
  r.pix.h = h;
  r.pix.alpha = depth == 4;
  size_t bps;
  if (maxval <= 0xFF) { bps = 1; r.pix.cw = 8; }
  else if (maxval <= 0xFFFF) { bps = 2; r.pix.cw = 16; }
  else if (maxval <= 0xFFFFFFFFULL) { bps = 4; r.pix.cw = 32; }
  else { bps = 8; r.pix.cw = 64; }
  size_t need = w * h * depth * bps;
  if (f.size() - off < need) throw DecodeError("PNM: raster shorter than width*height*depth samples");
  if (f.size() - off > need) throw DecodeError("PNM: bytes after the raster");
  if (maxval > 0xFF) return r; // wide samples: phosg's own convention, only save->load identity is claimed
  r.samples_decoded = true;
  r.pix.v.assign(w * h * 4, 0);
  for (size_t i = 0; i < w * h; i++) {
    for (size_t c = 0; c < depth; c++) {
      uint64_t s = static_cast<uint8_t>(f[off + i * depth + c]);
      if (s > maxval) throw DecodeError("PNM: sample exceeds maxval");
      r.pix.v[i * 4 + c] = s;
    }
  }
  return r;
}

} // namespace c06
